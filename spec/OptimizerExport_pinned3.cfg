INIT Init
NEXT Next
CONSTANTS
  DropIds = FALSE
  FoldAnyRight = FALSE
  FoldLeftConst = TRUE
