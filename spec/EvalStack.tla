---------------------------- MODULE EvalStack ----------------------------
(* One thread's evaluation state: chaiscript::detail::Stack_Holder (stacks of scopes,      *)
(* call_params, call_depth) + Type_Conversions::Conversion_Saves + the C++ stack of live   *)
(* RAII guard objects (Scope_Push_Pop, Stack_Push_Pop, Function_Push_Pop, This_Foist, the  *)
(* try block of Try_AST_Node) + the per-AST-node location hints of Id_AST_Node (m_loc).    *)
(*                                                                                          *)
(* Each construct of the evaluator is TWO actions (enter: construct guard + state change,  *)
(* leave: destroy guard + undo) because that is where the code can be wrong; Throw is      *)
(* enabled in every running state (a callback throwing, a script throw, a failed dispatch, *)
(* return/break/continue are all C++ exceptions); while unwinding only the destructor of   *)
(* the top guard may run.  Properties C09 (shape restored) and C04 (lookup caches are      *)
(* invisible) are invariants of this machine.                                              *)
(*                                                                                          *)
(* Code map (include/chaiscript/...):                                                      *)
(*   EnterScope/LeaveScope  dispatchkit.hpp new_scope / pop_scope  (Scope_Push_Pop,         *)
(*                          This_Foist in call_member)                                     *)
(*   EnterFrame/LeaveFrame  new_stack / pop_stack (Stack_Push_Pop in eval_function) with    *)
(*                          the prologue of eval_function: this?, captures, parameters     *)
(*   EnterCall/LeaveCall    new_function_call / pop_function_call (Function_Push_Pop)       *)
(*   SaveParams             save_function_params                                            *)
(*   Convert                Type_Conversions::boxed_type_conversion pushing onto saves      *)
(*   Declare                add_object / add_get_object                                     *)
(*   Lookup                 Dispatch_Engine::get_object with the m_loc hint                 *)
EXTENDS ChaiState, FiniteSets, TLC

CONSTANTS Names,       \* variable names that may be declared
          Sites,       \* AST Id nodes (each owns one hint)
          SiteName,    \* [Sites -> Names]
          Prologues,   \* set of name sequences a new frame may start with (this / captures / params)
          MaxGuards, MaxSlots, MaxFrames,
          HintPolicy,  \* "trusted": pinned get_object (positional read, never re-validated)
                       \* "validated": hint used only if in range, same name and not shadowed;
                       \*              names cached as non-local are still searched in the frame
                       \* "none": always search by name (the hint-ignoring switch)
          ClearSaves,  \* TRUE: pop_function_call empties Conversion_Saves at depth 0
          Features     \* subset of {"calls","throw"}: which action groups a configuration explores

VARIABLES ctx,      \* the thread's context, see ChaiState
          guards,   \* Seq of {"Scope","Frame","FCall","Try"}: live RAII objects, innermost last
          mode,     \* "run" | "unwind"
          hint,     \* [Sites -> <<kind, dist, slot>>], kind \in {"none","local","nonlocal"}
          globals,  \* SUBSET Names
          topDecls, \* ghost: names declared while in the base scope (in order)
          bad       \* ghost: "ok" or the kind of wrong resolution observed
vars == <<ctx, guards, mode, hint, globals, topDecls, bad>>

NoHint == <<"none", 0, 0>>
Top == TopStack(ctx)                  \* the current stack (only this one is searched)
TopScope == TopScopeOf(ctx)
Count(k) == Cardinality({i \in 1..Len(guards) : guards[i] = k})

Init == /\ ctx = BaseCtx
        /\ guards = <<>> /\ mode = "run"
        /\ hint = [s \in Sites |-> NoHint]
        /\ globals \in SUBSET Names
        /\ topDecls = <<>>
        /\ bad = "ok"

------------------------------------------------------------------------------
(* the destructors, shared by the normal and the unwinding path *)
Destroy(g) == CASE g = "Scope" -> ctx' = PopScope(ctx)
                [] g = "Frame" -> ctx' = PopFrame(ctx)
                [] g = "FCall" -> ctx' = FCallExit(ctx, ClearSaves)
                [] g = "Try"   -> ctx' = ctx

Running == mode = "run" /\ bad = "ok"
Room == Len(guards) < MaxGuards

EnterScope == /\ Running /\ Room
              /\ ctx' = PushScope(ctx)
              /\ guards' = Append(guards, "Scope")
              /\ UNCHANGED <<mode, hint, globals, topDecls, bad>>

EnterFrame(pro) == /\ Running /\ Room /\ Len(ctx.frames) < MaxFrames
                   /\ ctx' = PushFrame(ctx, pro)
                   /\ guards' = Append(guards, "Frame")
                   /\ UNCHANGED <<mode, hint, globals, topDecls, bad>>

EnterCall == /\ Running /\ Room /\ "calls" \in Features
             /\ ctx.cparams[Len(ctx.cparams)] + ctx.saves <= 3     \* bound only: the list grows while depth stays > 0
             /\ ctx' = FCallEnter(ctx)
             /\ guards' = Append(guards, "FCall")
             /\ UNCHANGED <<mode, hint, globals, topDecls, bad>>

EnterTry == /\ Running /\ Len(guards) + 1 < MaxGuards /\ "throw" \in Features
            /\ ctx' = PushScope(ctx)                              \* Try_AST_Node: Scope_Push_Pop spp
            /\ guards' = guards \o <<"Scope", "Try">>
            /\ UNCHANGED <<mode, hint, globals, topDecls, bad>>

Leave == /\ Running /\ guards # <<>>
         /\ Destroy(guards[Len(guards)])
         /\ guards' = DropLast(guards)
         /\ UNCHANGED <<mode, hint, globals, topDecls, bad>>

SaveParams == /\ Running /\ Count("FCall") > 0 /\ ctx.cparams[Len(ctx.cparams)] < 2
              /\ ctx' = SaveParamsOp(ctx, 1)
              /\ UNCHANGED <<guards, mode, hint, globals, topDecls, bad>>

Convert == /\ Running /\ ctx.savesOn /\ ctx.saves < 2
           /\ ctx' = ConvertOp(ctx)
           /\ UNCHANGED <<guards, mode, hint, globals, topDecls, bad>>

InBase == Len(ctx.frames) = 1 /\ Len(ctx.frames[1]) = 1

Declare(n) == /\ Running
              /\ Len(TopScope) < MaxSlots
              /\ ~ Declared(ctx, n)                                \* else name_conflict_error (a Throw)
              /\ ctx' = AddObject(ctx, n)
              /\ topDecls' = IF InBase THEN Append(topDecls, n) ELSE topDecls
              /\ UNCHANGED <<guards, mode, hint, globals, bad>>

Throw == /\ Running /\ "throw" \in Features
         /\ mode' = "unwind"
         /\ UNCHANGED <<ctx, guards, hint, globals, topDecls, bad>>

Unwind == /\ mode = "unwind" /\ guards # <<>>
          /\ Destroy(guards[Len(guards)])
          /\ guards' = DropLast(guards)
          /\ mode' = IF guards[Len(guards)] = "Try" THEN "run" ELSE "unwind"   \* caught: handler runs inside the try's scope
          /\ UNCHANGED <<hint, globals, topDecls, bad>>

TopExit == /\ mode = "unwind" /\ guards = <<>>      \* the exception leaves eval()
           /\ mode' = "run"
           /\ UNCHANGED <<ctx, guards, hint, globals, topDecls, bad>>

------------------------------------------------------------------------------
(* name lookup *)
ByName(n) == LET r == FindLocal(ctx, n)
             IN IF r[1] >= 0 THEN <<"local", r[1], r[2]>>
                ELSE IF n \in globals THEN <<"global", 0, 0>> ELSE <<"unbound", 0, 0>>

Learn(truth) == IF truth[1] = "local" THEN truth ELSE <<"nonlocal", 0, 0>>

Lookup(s) ==
  LET n == SiteName[s]
      h == IF HintPolicy = "none" THEN NoHint ELSE hint[s]
      truth == ByName(n)
  IN
  /\ Running
  /\ truth[1] # "unbound"                        \* unbound names fall to the function table / error: a Throw
  /\ IF h[1] = "none" THEN
        /\ hint' = [hint EXCEPT ![s] = Learn(truth)]
        /\ bad' = bad
     ELSE IF h[1] = "local" THEN
        LET inrange == h[2] < Len(Top) /\ h[3] < Len(Top[Len(Top) - h[2]])
        IN IF ~inrange THEN
               IF HintPolicy = "validated"
                 THEN hint' = [hint EXCEPT ![s] = Learn(truth)] /\ bad' = bad
                 ELSE bad' = "out-of-range" /\ hint' = hint
           ELSE
               IF HintPolicy = "validated" /\ truth # <<"local", h[2], h[3]>>
                 THEN hint' = [hint EXCEPT ![s] = Learn(truth)] /\ bad' = bad
                 ELSE /\ hint' = hint
                      /\ bad' = IF truth = <<"local", h[2], h[3]>> THEN bad ELSE "wrong-binding"
     ELSE \* cached as non-local
        /\ hint' = IF HintPolicy = "validated" /\ truth[1] = "local" THEN [hint EXCEPT ![s] = truth] ELSE hint
        /\ bad' = IF HintPolicy # "validated" /\ truth[1] = "local" THEN "shadow-missed" ELSE bad
  /\ UNCHANGED <<ctx, guards, mode, globals, topDecls>>

Next == \/ EnterScope \/ EnterCall \/ EnterTry \/ Leave \/ SaveParams \/ Convert \/ Throw \/ Unwind \/ TopExit
        \/ \E p \in Prologues : EnterFrame(p)
        \/ \E n \in Names : Declare(n)
        \/ \E s \in Sites : Lookup(s)

Spec == Init /\ [][Next]_vars

------------------------------------------------------------------------------
(* C09 *)
ShapeMatchesGuards ==
  /\ WellShaped(ctx)
  /\ Len(ctx.frames) = 1 + Count("Frame")
  /\ TotalScopesOf(ctx) = Len(ctx.frames) + Count("Scope")
  /\ ctx.depth = Count("FCall")

RestoredAtTop == guards = <<>> => ShapeOf(ctx) = BaseShape

TopLevelDeclsSurvive == ctx.frames[1][1] = topDecls      \* completed top-level declarations stay, nothing else appears

(* C04 *)
CacheInvisible == bad = "ok"

TypeOK == /\ ctx.depth \in 0..MaxGuards /\ ctx.saves \in 0..2 /\ mode \in {"run", "unwind"}
          /\ \A i \in 1..Len(guards) : guards[i] \in {"Scope", "Frame", "FCall", "Try"}

(* constants for the shipped configurations *)
SiteNameDef == [s \in Sites |-> IF s = 1 THEN "a" ELSE IF s = 2 THEN "h" ELSE "a"]
ProloguesDef == {<<>>, <<"this">>, <<"a">>, <<"this", "a">>}
ProloguesC09 == {<<>>, <<"a">>}
=============================================================================
