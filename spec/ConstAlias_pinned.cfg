SPECIFICATION Spec
INVARIANTS ConstObjectsUnchanged ConstFlagSurvives
PROPERTY FailedAttemptsLeaveNoTrace
CONSTANTS
  MaxRoutes = 3
  DropOnBind = TRUE
  ShardK = 0
  ShardN = 1
CHECK_DEADLOCK FALSE
