INIT Init
NEXT Next
