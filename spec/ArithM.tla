------------------------------ MODULE ArithM ------------------------------
EXTENDS Arith
ASSUME Laws
ASSUME PrintT(<<"cells", Cardinality(BinCells) + Cardinality(UnCells)>>)
=============================================================================
