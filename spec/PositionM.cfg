SPECIFICATION Spec
INVARIANTS CoordsTrue CursorInBounds
CONSTANTS
  Alphabet = {"v", "sp", "nl", "cr", "sl", "st", "hs", "sc", "dot"}
  MaxLen = 4
  ArithmeticMinus = FALSE
CHECK_DEADLOCK FALSE
