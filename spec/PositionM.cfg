SPECIFICATION Spec
INVARIANT CoordsTrue
CONSTANTS
  Alphabet = {"v", "sp", "nl", "cr", "sl", "st", "hs", "sc", "dot"}
  MaxLen = 4
  ArithmeticMinus = FALSE
CHECK_DEADLOCK FALSE
