SPECIFICATION TraceSpec
INVARIANT MutualExclusion
POSTCONDITION TraceAccepted
CHECK_DEADLOCK FALSE
