SPECIFICATION Spec
INVARIANTS OwningNeverDangles DanglingOnlyByBorrow
CHECK_DEADLOCK FALSE
