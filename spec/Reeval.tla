------------------------------- MODULE Reeval -------------------------------
(* C08: evaluating code does not change the code; re-evaluation is deterministic.           *)
(*                                                                                          *)
(* The machine is ChaiCore's: every literal node with an identity owns ONE cell of the       *)
(* syntax tree (M.ast) and each evaluation of the node hands out that very cell - which is   *)
(* what Constant_AST_Node::eval_internal does with m_value.  The only thing that protects    *)
(* the tree on the routes that alias instead of cloning (`var &r = L`, `r := L`, arguments,  *)
(* return values, ternaries) is that the cell is const and that every mutating operation     *)
(* (=, op=, ++, push_back, element access) respects the flag.                                *)
(*                                                                                          *)
(* A case is a list of SEGMENTS evaluated one after the other by the same engine: the        *)
(* definitions, then calls; segments carrying the same non-zero group number are the same    *)
(* call in an equal environment.  Checked on every generated case:                           *)
(*   AstUnchanged  after every segment no literal cell differs from what was parsed;         *)
(*   Rerun         two segments of one group give equal output, outcome and value.           *)
(* Cases whose literals are marked "mut" model the defect class (a literal leaking out       *)
(* mutable); the sanity run demands that TLC reports both properties broken on them.         *)
EXTENDS ChaiCore

RCases(x) == ndJsonDeserialize(IOEnv.IN)
View(r) == [out |-> r.out, oc |-> r.oc, v |-> r.v]
Rerun(c, rs) == \A i, j \in 1..Len(rs) : (c.segs[i].g # 0 /\ c.segs[i].g = c.segs[j].g) => View(rs[i]) = View(rs[j])
AstOk(rs) == \A i \in 1..Len(rs) : rs[i].astok
Decide(c) == LET rs == RunSegs(c.segs, 1, M0, <<>>) IN
             [id |-> c.id, segs |-> [i \in 1..Len(rs) |-> View(rs[i])], rerun |-> Rerun(c, rs), astok |-> AstOk(rs),
              fuel |-> \E i \in 1..Len(rs) : rs[i].oc = "fuel"]
ExportReeval(x) == LET cs == RCases(x) IN ndJsonSerialize(IOEnv.OUT, [i \in 1..Len(cs) |-> Decide(cs[i])])
=============================================================================
