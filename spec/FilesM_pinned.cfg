INIT Init
NEXT Next
CONSTANTS
  MaxLen = 5
  ClearOnShort = FALSE
