------------------------------ MODULE Dispatch ------------------------------
(* C06: C++ functions are only ever entered with correctly typed arguments.                       *)
(*                                                                                                *)
(* Mode V over RECORDED calls: the driver (harness/vd_dispatch.cpp) registers every ordered pair  *)
(* of a catalogue of signatures under one name, calls it with every kind of argument and records  *)
(* which overload was entered, how often, and what it received; it also records boxed_cast<T> of  *)
(* every argument kind to every requested form.  TLC checks every row against                      *)
(*   (1) the PROPERTY: TypeSafe / ConstSafe (what was entered is allowed for that argument),       *)
(*       ExactWins, ExactlyOnce, NoMatchNoEntry, ReceivedIsConverted, CastSound;                   *)
(*   (2) a TRANSCRIPTION of the code path (function_less_than ordering, the numdiffs phases and     *)
(*       filter of dispatch(), dispatch_with_conversions, Cast_Helper and the base-class casters   *)
(*       of boxed_cast): the overload predicted equals the overload entered.                       *)
(* (2) makes the check sharp: a change of ordering or matching that stays type-safe is still seen. *)
(* Platform facts (Type_Info ordering) are measured by the driver and read from IOEnv.FACTS.       *)
EXTENDS Integers, Sequences, FiniteSets, TLC, Json, IOUtils, SequencesExt

Rows == ndJsonDeserialize(IOEnv.ROWS)
BeforeMap == ndJsonDeserialize(IOEnv.FACTS)[1].before

P(b, c, f, tid) == [bare |-> b, const |-> c, form |-> f, tid |-> tid]   \* tid: name in the Type_Info ordering facts
Cat == [ int |-> P("int", FALSE, "val", "int"), double |-> P("double", FALSE, "val", "double"),
         cstringR |-> P("string", TRUE, "cref", "string"), BV |-> P("BV", TRUE, "cref", "BV"), BN |-> P("BN", TRUE, "cref", "BN"),
         BaseR |-> P("Base", FALSE, "ref", "Base"), cBaseR |-> P("Base", TRUE, "cref", "Base"), DerivedR |-> P("Derived", FALSE, "ref", "Derived"),
         intR |-> P("int", FALSE, "ref", "int"), cintR |-> P("int", TRUE, "cref", "int"), spBase |-> P("Base", FALSE, "sp", "spBase"),
         bool |-> P("bool", FALSE, "val", "bool"), long |-> P("long", FALSE, "val", "long"), BaseP |-> P("Base", FALSE, "ptr", "pBase"),
         cDerivedR |-> P("Derived", TRUE, "cref", "Derived"), cDerivedP |-> P("Derived", TRUE, "cptr", "pcDerived"),
         spcDerived |-> P("Derived", TRUE, "spc", "spcDerived"), Derived |-> P("Derived", FALSE, "val", "Derived") ]
Key(n) == CASE n = "cstring&" -> "cstringR" [] n = "Base&" -> "BaseR" [] n = "cBase&" -> "cBaseR" [] n = "Derived&" -> "DerivedR"
            [] n = "int&" -> "intR" [] n = "cint&" -> "cintR" [] n = "Base*" -> "BaseP" [] n = "cDerived&" -> "cDerivedR"
            [] n = "cDerived*" -> "cDerivedP" [] OTHER -> n
UNames == {"int", "double", "cstring&", "BV", "BN", "Base&", "cBase&", "Derived&", "int&", "cint&", "spBase", "bool", "long", "Base*",
           "cDerived&", "cDerived*", "spcDerived", "Derived"}

\* argument kinds: static (boxed) type, const, storage (own = shared_ptr inside, ref = reference_wrapper), dynamic type, value
A(b, c, st, dyn, v) == [bare |-> b, const |-> c, st |-> st, dyn |-> dyn, v |-> v]
Args == [ ivar |-> A("int", FALSE, "own", "int", "1"), ilit |-> A("int", TRUE, "own", "int", "5"), dvar |-> A("double", FALSE, "own", "double", "2.5"),
          svar |-> A("string", FALSE, "own", "string", "x"), bvar |-> A("bool", FALSE, "own", "bool", "1"),
          Dobj |-> A("Derived", FALSE, "own", "Derived", ""), Bobj |-> A("Base", FALSE, "own", "Base", ""),
          cDobj |-> A("Derived", TRUE, "own", "Derived", ""), lvar |-> A("long", FALSE, "own", "long", "7"),
          cvar |-> A("char", FALSE, "own", "char", "99"), undef |-> A("undef", FALSE, "own", "undef", ""),
          slit |-> A("string", TRUE, "own", "string", "s"), Dref |-> A("Derived", FALSE, "ref", "Derived", ""),
          spD |-> A("Derived", FALSE, "own", "Derived", ""), cBobj |-> A("Base", TRUE, "own", "Base", ""),
          cBasD |-> A("Base", TRUE, "own", "Derived", ""), BasD |-> A("Base", FALSE, "own", "Derived", ""),
          cBref |-> A("Base", TRUE, "ref", "Base", "") ]
Arith == {"int", "double", "long", "char"}
Classes == {"Base", "Derived"}
Before(a, b) == a # b /\ BeforeMap[a \o "<" \o b] = 1

-----------------------------------------------------------------------------
(* the PROPERTY, stated on one (argument, parameter) pair: may a function with this parameter be entered with this argument *)
IsA(dynT, t) == dynT = t \/ (dynT = "Derived" /\ t = "Base")
Mutable(p) == p.form \in {"ref", "ptr", "sp"}
Allowed(a, p) ==
  \/ p.bare = "BV"                                                           \* catch-all
  \/ (p.bare = "BN" /\ a.bare \in Arith)                                      \* numeric catch-all
  \/ (p.bare \in {"int", "double", "long"} /\ a.bare \in Arith /\ a.bare # p.bare)      \* arithmetic conversion: the parameter (of any form) is bound to the converted temporary
  \/ (p.bare \in Arith /\ p.bare = a.bare /\ (Mutable(p) => ~a.const))                  \* the declared type itself; a const value never reaches a mutable form
  \/ (p.bare \in {"string", "bool"} /\ a.bare = p.bare)
  \/ (p.bare \in Classes /\ a.bare \in Classes /\ IsA(a.dyn, p.bare) /\ (Mutable(p) => ~a.const)
        /\ (p.form \in {"sp", "spc"} => a.st = "own"))                        \* the object really is of the parameter's class (base-class conversion)
Exact(a, p) == Allowed(a, p) /\ p.bare = a.bare

-----------------------------------------------------------------------------
(* TRANSCRIPTION *)
Direct(a, p) ==       \* Cast_Helper<P>::cast without conversions
  CASE p.form = "cref" /\ p.bare = "BV" -> TRUE
    [] p.form = "cref" /\ p.bare = "BN" -> a.bare \in Arith
    [] p.form \in {"val", "cref", "cptr"} -> a.bare = p.bare
    [] p.form \in {"ref", "ptr"} -> a.bare = p.bare /\ ~a.const
    [] p.form = "sp"  -> a.bare = p.bare /\ ~a.const /\ a.st = "own"
    [] p.form = "spc" -> a.bare = p.bare /\ a.st = "own"
BoxedCast(a, p) ==
  LET conv == p.bare \in Classes IN
  IF (a.bare = p.bare \/ ~conv) /\ Direct(a, p) THEN TRUE
  ELSE IF ~conv THEN FALSE
  ELSE IF a.bare = "Derived" /\ p.bare = "Base" THEN Direct([a EXCEPT !.bare = "Base"], p)                     \* Static_Caster: up
  ELSE IF a.bare = "Base" /\ p.bare = "Derived" THEN (a.dyn = "Derived" /\ Direct([a EXCEPT !.bare = "Derived"], p))   \* Dynamic_Caster: down, checked
  ELSE FALSE

RECURSIVE LessFrom(_, _, _)
LessFrom(l, r, i) ==            \* function_less_than
  IF i > Len(l) \/ i > Len(r) THEN FALSE ELSE
  LET lt == l[i]  rt == r[i] IN
  IF lt.bare = rt.bare /\ lt.const = rt.const THEN LessFrom(l, r, i + 1)
  ELSE IF lt.bare = rt.bare /\ lt.const /\ ~rt.const THEN FALSE
  ELSE IF lt.bare = rt.bare /\ ~lt.const THEN TRUE
  ELSE IF lt.bare = "BV" THEN FALSE ELSE IF rt.bare = "BV" THEN TRUE
  ELSE IF lt.bare = "BN" THEN FALSE ELSE IF rt.bare = "BN" THEN TRUE
  ELSE Before(lt.tid, rt.tid)
Sorted(f, s) == IF LessFrom(s, f, 1) THEN <<s, f>> ELSE <<f, s>>       \* push_back + stable_sort
Converts(to, from) == (to = "Base" /\ from = "Derived") \/ (to = "Derived" /\ from = "Base")
CTP(p, a) == p.bare = "BV" \/ (a.bare # "undef" /\ ((p.bare = "BN" /\ a.bare \in Arith) \/ p.bare = a.bare \/ Converts(p.bare, a.bare)))
IsArithParam(p) == p.bare \in {"int", "double", "long"}
NumDiffs(ps, as) == Cardinality({i \in 1..Len(ps) : ps[i].bare # as[i].bare})
Filter(ps, as) == \A i \in 1..(IF Len(ps) > 2 THEN 2 ELSE Len(ps)) : CTP(ps[i], as[i])     \* only the first two parameters
CastAll(as, ps) == \A i \in 1..Len(ps) : BoxedCast(as[i], ps[i])
FirstOk(fs, as, lvl) == SelectInSeq(fs, LAMBDA ps : NumDiffs(ps, as) = lvl /\ (lvl = 0 \/ Filter(ps, as)) /\ CastAll(as, ps))
ArithMatch(ps, as) == \A i \in 1..Len(ps) : CTP(ps[i], as[i]) \/ (as[i].bare \in Arith /\ IsArithParam(ps[i]))
ConvArg(p, a) == IF IsArithParam(p) /\ a.bare \in Arith /\ a.bare # p.bare THEN [a EXCEPT !.bare = p.bare, !.const = FALSE, !.dyn = p.bare] ELSE a
Err == <<P("err", FALSE, "none", "")>>
Dispatch(fs, as) ==
  LET i0 == FirstOk(fs, as, 0) IN IF i0 # 0 THEN fs[i0] ELSE
  LET i1 == FirstOk(fs, as, 1) IN IF i1 # 0 THEN fs[i1] ELSE
  LET i2 == IF Len(as) > 1 THEN FirstOk(fs, as, 2) ELSE 0 IN IF i2 # 0 THEN fs[i2] ELSE
  LET cand == SelectSeq(fs, LAMBDA ps : ArithMatch(ps, as)) IN
  IF Len(cand) = 0 THEN Err
  ELSE IF Len(cand) = 2 /\ ~( (as[1].const /\ ~cand[1][1].const /\ cand[2][1].const) \/ (~as[1].const /\ ~cand[1][1].const /\ cand[2][1].const) ) THEN Err
  ELSE LET m == IF Len(cand) = 2 /\ as[1].const THEN cand[2] ELSE cand[1] IN
       LET as2 == [i \in 1..Len(as) |-> ConvArg(m[i], as[i])] IN
       IF CastAll(as2, m) THEN m ELSE Err

-----------------------------------------------------------------------------
(* unary rows *)
USig(n) == <<Cat[Key(n)]>>
UName(ps) == IF ps = Err THEN "" ELSE CHOOSE n \in UNames : USig(n) = ps
UPredict(r) == LET f == USig(r.first) IN
               LET fs == IF r.second = "" THEN <<f>> ELSE Sorted(f, USig(r.second)) IN
               UName(Dispatch(fs, <<Args[r.arg]>>))
\* value a numeric parameter receives: the converted script value
ConvVal(a, p) == CASE p.bare = "int" /\ a.v = "2.5" -> "2" [] p.bare = "long" /\ a.v = "2.5" -> "2" [] OTHER -> a.v
RecvOk(r) == LET p == Cat[Key(r.entered)]  a == Args[r.arg] IN
             CASE p.bare \in {"int", "double", "long"} -> r.recv = p.bare \o ":" \o ConvVal(a, p)
               [] p.bare = "bool" -> r.recv = "bool:" \o a.v
               [] p.bare = "string" -> r.recv = "string:" \o a.v
               [] p.bare \in Classes -> r.recv = "obj:" \o a.dyn                 \* the very object, with its real class
               [] p.bare = "BN" -> r.recv = "BN:" \o a.v
               [] OTHER -> TRUE
UOverloads(r) == IF r.second = "" THEN {r.first} ELSE {r.first, r.second}
UProperty(r) ==
  LET a == Args[r.arg] IN
  /\ r.n = (IF r.entered = "" THEN 0 ELSE 1)                                                  \* ExactlyOnce
  /\ (r.entered = "" <=> r.oc # "ok")                                                         \* an error iff nothing was entered
  /\ (r.entered # "" => r.entered \in UOverloads(r) /\ Allowed(a, Cat[Key(r.entered)]) /\ RecvOk(r))      \* TypeSafe, ReceivedIsConverted
  /\ ((\E n \in UOverloads(r) : Exact(a, Cat[Key(n)])) => (r.entered # "" /\ Exact(a, Cat[Key(r.entered)])))   \* ExactWins
  /\ ((\A n \in UOverloads(r) : ~Allowed(a, Cat[Key(n)])) => r.entered = "")                   \* NoMatchNoEntry
URows == SelectSeq(Rows, LAMBDA r : r.k = "u")
UBadProperty == SelectSeq(URows, LAMBDA r : ~UProperty(r))
UBadTranscription == SelectSeq(URows, LAMBDA r : UPredict(r) # r.entered)

(* arity rows: a call with the wrong number of arguments enters nothing *)
ARows == SelectSeq(Rows, LAMBDA r : r.k = "a")
ABad == SelectSeq(ARows, LAMBDA r : r.n # 0 \/ r.oc = "ok")

(* binary rows *)
BSigTable == [ r \in {"int,int", "double,double", "int,double", "cstring&,int", "BV,BV", "BN,BN", "Base&,int", "cBase&,int", "int&,int", "BV,int", "int,BV", "Derived&,double"} |->
   CASE r = "int,int" -> <<Cat.int, Cat.int>> [] r = "double,double" -> <<Cat.double, Cat.double>> [] r = "int,double" -> <<Cat.int, Cat.double>>
     [] r = "cstring&,int" -> <<Cat.cstringR, Cat.int>> [] r = "BV,BV" -> <<Cat.BV, Cat.BV>> [] r = "BN,BN" -> <<Cat.BN, Cat.BN>>
     [] r = "Base&,int" -> <<Cat.BaseR, Cat.int>> [] r = "cBase&,int" -> <<Cat.cBaseR, Cat.int>> [] r = "int&,int" -> <<Cat.intR, Cat.int>>
     [] r = "BV,int" -> <<Cat.BV, Cat.int>> [] r = "int,BV" -> <<Cat.int, Cat.BV>> [] r = "Derived&,double" -> <<Cat.DerivedR, Cat.double>> ]
BName(ps) == IF ps = Err THEN "" ELSE CHOOSE n \in DOMAIN BSigTable : BSigTable[n] = ps
BPredict(r) == LET f == BSigTable[r.first] IN
               LET fs == IF r.second = "" THEN <<f>> ELSE Sorted(f, BSigTable[r.second]) IN
               BName(Dispatch(fs, <<Args[r.a1], Args[r.a2]>>))
BOverloads(r) == IF r.second = "" THEN {r.first} ELSE {r.first, r.second}
AllowedAll(as, ps) == \A i \in 1..Len(ps) : Allowed(as[i], ps[i])
ExactAll(as, ps) == \A i \in 1..Len(ps) : Exact(as[i], ps[i])
BProperty(r) ==
  LET as == <<Args[r.a1], Args[r.a2]>> IN
  /\ r.n = (IF r.entered = "" THEN 0 ELSE 1)
  /\ (r.entered = "" <=> r.oc # "ok")
  /\ (r.entered # "" => r.entered \in BOverloads(r) /\ AllowedAll(as, BSigTable[r.entered]))
  /\ ((\E n \in BOverloads(r) : ExactAll(as, BSigTable[n])) => (r.entered # "" /\ ExactAll(as, BSigTable[r.entered])))
  /\ ((\A n \in BOverloads(r) : ~AllowedAll(as, BSigTable[n])) => r.entered = "")
BRows == SelectSeq(Rows, LAMBDA r : r.k = "b")
BBadProperty == SelectSeq(BRows, LAMBDA r : ~BProperty(r))
BBadTranscription == SelectSeq(BRows, LAMBDA r : BPredict(r) # r.entered)

(* C++ receives: boxed_cast<T> hands a value over only as its actual type or through a base-class conversion, else bad_boxed_cast *)
CRows == SelectSeq(Rows, LAMBDA r : r.k = "c")
CParam(r) == Cat[Key(r.form)]
CastAllowed(a, p) == Allowed(a, p) /\ (p.bare \in Arith => p.bare = a.bare)      \* boxed_cast performs no arithmetic conversion
CProperty(r) == LET a == Args[r.arg]  p == CParam(r) IN
                /\ r.oc \in {"ok", "bad_cast"}
                /\ (r.oc = "ok" => CastAllowed(a, p) /\ (p.bare \in Classes => r.got = "obj:" \o a.dyn))
CBadProperty == SelectSeq(CRows, LAMBDA r : ~CProperty(r))
CBadTranscription == SelectSeq(CRows, LAMBDA r : (r.oc = "ok") # BoxedCast(Args[r.arg], CParam(r)))

(* data members exposed as functions (fun(&Class::member)): by whatever route the accessor is reached - plain call, dot notation, a function *)
(* value, bind() - it hands out the member only of an object that IS of the member's class (or converts to it); anything else is an error *)
MRows == SelectSeq(Rows, LAMBDA r : r.k = "m")
MReceiverOk(r) == CASE r.member = "value" -> r.arg \in {"Pobj", "cPobj"}
                    [] r.member = "bmember" -> r.arg \in {"Bobj", "Dobj"}                      \* a Derived converts to its Base
MValue(r) == IF r.member = "value" THEN "77" ELSE "1"
MProperty(r) == /\ (r.oc = "ok" => (MReceiverOk(r) /\ r.got = MValue(r)))              \* TypeSafe: never the bytes of something else
                /\ (MReceiverOk(r) => r.oc = "ok")
MBadProperty == SelectSeq(MRows, LAMBDA r : ~MProperty(r))

(* user conversions (type_conversion<From, To>): a function with a To parameter is entered with a From only in an engine where the      *)
(* conversion is registered, and then receives the CONVERTED object (To:42 from From:41), exactly once; a To argument reaches it as      *)
(* itself (To:7), never through a mutable form when const; an overload taking the argument's own type wins; nothing else ever enters.   *)
TRows == SelectSeq(Rows, LAMBDA r : r.k = "t")
TForms == {"To", "cTo&", "To&", "To*", "cTo*", "spTo", "spcTo"}
TMutable == {"To&", "To*", "spTo"}
TArgs == [ Fobj |-> [bare |-> "From", const |-> FALSE, st |-> "own"], cFobj |-> [bare |-> "From", const |-> TRUE, st |-> "own"],
           Fref |-> [bare |-> "From", const |-> FALSE, st |-> "ref"], Tobj |-> [bare |-> "To", const |-> FALSE, st |-> "own"],
           cTobj |-> [bare |-> "To", const |-> TRUE, st |-> "own"], ivar |-> [bare |-> "int", const |-> FALSE, st |-> "own"],
           svar |-> [bare |-> "string", const |-> FALSE, st |-> "own"] ]
TAllowed(r, f) == LET a == TArgs[r.arg] IN
   CASE f \in TForms -> \/ (a.bare = "To" /\ (f \in TMutable => ~a.const))
                        \/ (a.bare = "From" /\ r.conv = 1)                               \* only through the registered conversion
     [] f = "From" -> a.bare = "From"
     [] f = "BV" -> TRUE
TRecvOk(r) == LET a == TArgs[r.arg] IN
   CASE r.entered \in TForms -> r.recv = (IF a.bare = "To" THEN "To:7" ELSE "To:42")      \* the very object, or the converted one
     [] r.entered = "From" -> r.recv = "From:41"
     [] r.entered = "BV" -> r.recv = "BV:" \o (IF a.bare \in {"From", "To"} THEN a.bare ELSE "other")
TOverloads(r) == IF r.second = "" THEN {r.first} ELSE {r.first, r.second}
TExact(r, f) == (f \in TForms /\ TArgs[r.arg].bare = "To" /\ TAllowed(r, f)) \/ (f = "From" /\ TArgs[r.arg].bare = "From")
TProperty(r) ==
  /\ r.n = (IF r.entered = "" THEN 0 ELSE 1)
  /\ (r.entered = "" <=> r.oc # "ok")
  /\ (r.entered # "" => r.entered \in TOverloads(r) /\ TAllowed(r, r.entered) /\ TRecvOk(r))
  /\ ((\E f \in TOverloads(r) : TExact(r, f)) => (r.entered # "" /\ TExact(r, r.entered)))
  /\ ((\A f \in TOverloads(r) : ~TAllowed(r, f)) => r.entered = "")
TBadProperty == SelectSeq(TRows, LAMBDA r : ~TProperty(r))
\* reported as drift, not as a violation: where the conversion is registered, a From reaches the forms that accept a temporary
TBadTranscription == SelectSeq(TRows, LAMBDA r : r.second = "" /\ r.conv = 1 /\ TArgs[r.arg].bare = "From" /\ r.entered = "")

(* vector_conversion<std::vector<int>>: a function with a std::vector<int> parameter is entered with a script Vector only in an engine    *)
(* where the conversion is registered and only when EVERY element is an int (no element is converted arithmetically, none skipped);       *)
(* it receives exactly the elements.                                                                                                      *)
VRows == SelectSeq(Rows, LAMBDA r : r.k = "v")
VForms == {"vecint", "cvecint&"}
VArgs == [ ints |-> [ok |-> TRUE, recv |-> "vec:1,2,3"], empty |-> [ok |-> TRUE, recv |-> "vec:"], vvar |-> [ok |-> TRUE, recv |-> "vec:4,5"],
           mixed |-> [ok |-> FALSE, recv |-> ""], dbls |-> [ok |-> FALSE, recv |-> ""], nested |-> [ok |-> FALSE, recv |-> ""],
           longs |-> [ok |-> FALSE, recv |-> ""], ivar |-> [ok |-> FALSE, recv |-> ""], svar |-> [ok |-> FALSE, recv |-> ""] ]
VAllowed(r, f) == f = "BV" \/ (f \in VForms /\ r.conv = 1 /\ VArgs[r.arg].ok)
VOverloads(r) == IF r.second = "" THEN {r.first} ELSE {r.first, r.second}
VProperty(r) ==
  /\ r.n = (IF r.entered = "" THEN 0 ELSE 1)
  /\ (r.entered = "" <=> r.oc # "ok")
  /\ (r.entered # "" => r.entered \in VOverloads(r) /\ VAllowed(r, r.entered))
  /\ (r.entered \in VForms => r.recv = VArgs[r.arg].recv)
  /\ ((\A f \in VOverloads(r) : ~VAllowed(r, f)) => r.entered = "")
VBadProperty == SelectSeq(VRows, LAMBDA r : ~VProperty(r))
VBadTranscription == SelectSeq(VRows, LAMBDA r : r.second = "" /\ r.conv = 1 /\ VArgs[r.arg].ok /\ r.entered = "")

(* map_conversion<std::map<std::string, int>>: likewise for script Maps - entered only where the conversion is registered and every value is an int *)
WRows == SelectSeq(Rows, LAMBDA r : r.k = "w")
WForms == {"mapint", "cmapint&"}
WArgs == [ ints |-> [ok |-> TRUE, recv |-> "map:a=1,b=2"], empty |-> [ok |-> TRUE, recv |-> "map:"], mvar |-> [ok |-> TRUE, recv |-> "map:k=4"],
           mixed |-> [ok |-> FALSE, recv |-> ""], dbls |-> [ok |-> FALSE, recv |-> ""], nested |-> [ok |-> FALSE, recv |-> ""],
           vec |-> [ok |-> FALSE, recv |-> ""], ivar |-> [ok |-> FALSE, recv |-> ""], svar |-> [ok |-> FALSE, recv |-> ""] ]
WAllowed(r, f) == f = "BV" \/ (f \in WForms /\ r.conv = 1 /\ WArgs[r.arg].ok)
WProperty(r) ==
  /\ r.n = (IF r.entered = "" THEN 0 ELSE 1)
  /\ (r.entered = "" <=> r.oc # "ok")
  /\ (r.entered # "" => r.entered \in VOverloads(r) /\ WAllowed(r, r.entered))
  /\ (r.entered \in WForms => r.recv = WArgs[r.arg].recv)
  /\ ((\A f \in VOverloads(r) : ~WAllowed(r, f)) => r.entered = "")
WBadProperty == SelectSeq(WRows, LAMBDA r : ~WProperty(r))
WBadTranscription == SelectSeq(WRows, LAMBDA r : r.second = "" /\ r.conv = 1 /\ WArgs[r.arg].ok /\ r.entered = "")

(* each call enters exactly one overload exactly once - also when the entered function itself throws *)
XRows == SelectSeq(Rows, LAMBDA r : r.k = "x")
XBad == SelectSeq(XRows, LAMBDA r : r.n > 1)

Show(s, n) == \A i \in 1..(IF Len(s) < n THEN Len(s) ELSE n) : PrintT(<<"BAD", s[i]>>)
Counts == <<"rows", Len(Rows), "property", Len(UBadProperty) + Len(BBadProperty) + Len(CBadProperty) + Len(ABad) + Len(MBadProperty) + Len(TBadProperty) + Len(VBadProperty) + Len(WBadProperty),
            "transcription", Len(UBadTranscription) + Len(BBadTranscription) + Len(CBadTranscription) + Len(TBadTranscription) + Len(VBadTranscription) + Len(WBadTranscription)>>
\* the verdicts are written out so that the check can name the failing calls
Verdicts == ndJsonSerialize(IOEnv.OUT,
   [i \in 1..Len(UBadProperty) |-> [why |-> "property", row |-> UBadProperty[i]]] \o
   [i \in 1..Len(BBadProperty) |-> [why |-> "property", row |-> BBadProperty[i]]] \o
   [i \in 1..Len(CBadProperty) |-> [why |-> "property", row |-> CBadProperty[i]]] \o
   [i \in 1..Len(ABad) |-> [why |-> "arity", row |-> ABad[i]]] \o
   [i \in 1..Len(MBadProperty) |-> [why |-> "property", row |-> MBadProperty[i]]] \o
   [i \in 1..Len(XBad) |-> [why |-> "property", row |-> XBad[i]]] \o
   [i \in 1..Len(TBadProperty) |-> [why |-> "property", row |-> TBadProperty[i]]] \o
   [i \in 1..Len(VBadProperty) |-> [why |-> "property", row |-> VBadProperty[i]]] \o
   [i \in 1..Len(WBadProperty) |-> [why |-> "property", row |-> WBadProperty[i]]] \o
   [i \in 1..Len(WBadTranscription) |-> [why |-> "transcription", row |-> WBadTranscription[i]]] \o
   [i \in 1..Len(VBadTranscription) |-> [why |-> "transcription", row |-> VBadTranscription[i]]] \o
   [i \in 1..Len(TBadTranscription) |-> [why |-> "transcription", row |-> TBadTranscription[i]]] \o
   [i \in 1..Len(UBadTranscription) |-> [why |-> "transcription", row |-> UBadTranscription[i], predicted |-> UPredict(UBadTranscription[i])]] \o
   [i \in 1..Len(BBadTranscription) |-> [why |-> "transcription", row |-> BBadTranscription[i], predicted |-> BPredict(BBadTranscription[i])]] \o
   [i \in 1..Len(CBadTranscription) |-> [why |-> "transcription", row |-> CBadTranscription[i]]])
ASSUME PrintT(Counts)
ASSUME Verdicts

\* function_less_than as an ORDER (std::stable_sort needs a strict weak ordering): checked over the signatures of both catalogues.
\* Reported, not asserted: overloads of different arity never compete for a call, and the dispatch laws above are what the property needs.
AllSigs == {USig(n) : n \in UNames} \cup {BSigTable[k] : k \in DOMAIN BSigTable}
Incomp(a, b) == ~LessFrom(a, b, 1) /\ ~LessFrom(b, a, 1)
OrderFacts == <<"order",
   "irreflexive", \A a \in AllSigs : ~LessFrom(a, a, 1),
   "asymmetric", \A a, b \in AllSigs : LessFrom(a, b, 1) => ~LessFrom(b, a, 1),
   "transitive", \A a, b, c \in AllSigs : (LessFrom(a, b, 1) /\ LessFrom(b, c, 1)) => LessFrom(a, c, 1),
   "incomparability transitive within one arity", \A a, b, c \in AllSigs : (Len(a) = Len(b) /\ Len(b) = Len(c) /\ Incomp(a, b) /\ Incomp(b, c)) => Incomp(a, c),
   "incomparability transitive across arities", \A a, b, c \in AllSigs : (Incomp(a, b) /\ Incomp(b, c)) => Incomp(a, c)>>
NonTransitive == {<<a, b, c>> \in AllSigs \X AllSigs \X AllSigs : LessFrom(a, b, 1) /\ LessFrom(b, c, 1) /\ ~LessFrom(a, c, 1)}
Show3(t) == <<[i \in 1..Len(t[1]) |-> <<t[1][i].bare, t[1][i].const>>], [i \in 1..Len(t[2]) |-> <<t[2][i].bare, t[2][i].const>>], [i \in 1..Len(t[3]) |-> <<t[3][i].bare, t[3][i].const>>]>>
ASSUME PrintT(OrderFacts)
ASSUME PrintT(<<"nontransitive", Cardinality(NonTransitive), LET same == {t \in NonTransitive : Len(t[1]) = Len(t[2]) /\ Len(t[2]) = Len(t[3])} IN
                 <<"same arity", Cardinality(same), IF same = {} THEN (IF NonTransitive = {} THEN <<>> ELSE Show3(CHOOSE t \in NonTransitive : TRUE)) ELSE Show3(CHOOSE t \in same : TRUE)>> >>)

\* the transcription satisfies the property on every row it could produce (independent of the recording): for every catalogue pair
\* and argument, what Dispatch selects is Allowed and exact when an exact overload exists
SpecSound == \A f \in UNames : \A s \in UNames \cup {""} : \A an \in DOMAIN Args :
               LET fs == IF s = "" \/ s = f THEN <<USig(f)>> ELSE Sorted(USig(f), USig(s))
                   sel == Dispatch(fs, <<Args[an]>>) IN
               /\ (sel # Err => Allowed(Args[an], sel[1]))
               /\ ((\E k \in 1..Len(fs) : Exact(Args[an], fs[k][1])) => (sel # Err /\ Exact(Args[an], sel[1])))
ASSUME SpecSound

VARIABLE z
Init == z = 0
Next == UNCHANGED z
=============================================================================
