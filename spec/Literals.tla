----------------------------- MODULE Literals -----------------------------
(* C16 (integer literals): the C++ literal typing table [lex.icon] next to a transcription of   *)
(* ChaiScript_Parser::buildInt (chaiscript_parser.hpp).  Values are SYMBOLIC boundary values    *)
(* v = 2^k + d (k in {31, 32, 63, 64}, d in -2..1): everything the table and the ladder need is *)
(* whether v fits a type, which is decided on (k, d) without ever forming a 64-bit number.       *)
(* Data model of the reference platform (LP64): int 32, long 64, long long 64 bits.              *)
EXTENDS Integers, Sequences, FiniteSets, TLC, Json, IOUtils, SequencesExt

Ks == {31, 32, 63, 64}
Ds == {-2, -1, 0, 1}
Vals == {<<k, d>> : k \in Ks, d \in Ds} \cup {<<0, 0>>, <<5, 0>>}          \* plus the small values 1 and 32
\* v <= 2^n - 1
FitsBits(v, n) == v[1] < n \/ (v[1] = n /\ v[2] <= -1)
Representable(v) == FitsBits(v, 64)                                        \* larger spellings are not C++ literals at all
Types == <<"int", "uint", "long", "ulong", "llong", "ullong">>
Fits(v, t) == CASE t = "int" -> FitsBits(v, 31) [] t = "uint" -> FitsBits(v, 32) [] t \in {"long", "llong"} -> FitsBits(v, 63)
                [] t \in {"ulong", "ullong"} -> FitsBits(v, 64)

SuffixSet == {"", "u", "l", "ul", "ll", "ull"}
Bases == {2, 8, 10, 16}
\* [lex.icon] table 8: the candidate types in order
Candidates(base, sfx) ==
  CASE sfx = "" -> (IF base = 10 THEN <<"int", "long", "llong">> ELSE <<"int", "uint", "long", "ulong", "llong", "ullong">>)
    [] sfx = "u" -> <<"uint", "ulong", "ullong">>
    [] sfx = "l" -> (IF base = 10 THEN <<"long", "llong">> ELSE <<"long", "ulong", "llong", "ullong">>)
    [] sfx = "ul" -> <<"ulong", "ullong">>
    [] sfx = "ll" -> (IF base = 10 THEN <<"llong">> ELSE <<"llong", "ullong">>)
    [] sfx = "ull" -> <<"ullong">>
FirstFit(v, cands) == LET i == SelectInSeq(cands, LAMBDA t : Fits(v, t)) IN IF i = 0 THEN "none" ELSE cands[i]
Std(base, sfx, v) == FirstFit(v, Candidates(base, sfx))     \* "none": the program is ill-formed, outside the property

\* transcription of buildInt: flags from the suffix, then the ladder of tests
Ladder(base, sfx, v) ==
  LET uns == sfx \in {"u", "ul", "ull"}
      lng == sfx \in {"l", "ul", "ll", "ull"}
      llng == sfx \in {"ll", "ull"}
      nondec == base # 10
  IN IF FitsBits(v, 63) THEN                                 \* std::stoll succeeds
        (IF ~uns /\ ~lng /\ Fits(v, "int") THEN "int"
         ELSE IF (uns \/ nondec) /\ ~lng /\ Fits(v, "uint") THEN "uint"
         ELSE IF ~uns /\ ~llng /\ Fits(v, "long") THEN "long"
         ELSE IF (uns \/ nondec) /\ ~llng /\ Fits(v, "ulong") THEN "ulong"
         ELSE IF ~uns /\ Fits(v, "llong") THEN "llong"
         ELSE "ullong")
     ELSE IF FitsBits(v, 64) THEN (IF ~llng THEN "ulong" ELSE "ullong")       \* stoll threw, stoull succeeds
     ELSE "llong"                                                              \* both threw: LLONG_MAX
\* on LP64 long and long long (and their unsigned forms) have the same width; the property asks for "the first type of the
\* C++ sequence able to hold it", so the NAME of the type matters, not only the width
LadderMatchesStandard == \A b \in Bases : \A s \in SuffixSet : \A v \in Vals :
                            (Representable(v) /\ Std(b, s, v) # "none") => Ladder(b, s, v) = Std(b, s, v)
Mismatches == {<<b, s, v>> \in Bases \X SuffixSet \X Vals : Representable(v) /\ Std(b, s, v) # "none" /\ Ladder(b, s, v) # Std(b, s, v)}

Cells == {[base |-> b, sfx |-> s, k |-> v[1], d |-> v[2], type |-> Std(b, s, v)] : b \in Bases, s \in SuffixSet, v \in {x \in Vals : Representable(x)}}
Export == ndJsonSerialize(IOEnv.OUT, SetToSeq({c \in Cells : c.type # "none"}))

VARIABLE dummy
Init == dummy = 0
Next == UNCHANGED dummy
=============================================================================
