------------------------------ MODULE FilesM ------------------------------
EXTENDS Files
ASSUME PrintT(<<"files", Cardinality(AllFiles), "disagreements", Cardinality(LoadDisagreements)>>)
ASSUME LoadIsContent
=============================================================================
