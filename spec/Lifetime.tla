------------------------------ MODULE Lifetime ------------------------------
(* C11: objects live exactly as long as something refers to them.                           *)
(*                                                                                          *)
(* A script reaches a C++ object through a CELL (Boxed_Value).  Object_Data::get and         *)
(* Handle_Return decide what the cell is:                                                    *)
(*   "own"    the cell shares ownership (values, shared_ptr, unique_ptr, constructor results, *)
(*            elements of a script Vector): the object lives while any such cell lives;      *)
(*   "borrow" the cell is a bare reference (a T& or T* returned by a C++ function: an        *)
(*            element of a std::vector<T>, a member of a holder, first_of(v), the ranged-for  *)
(*            variable over a std::vector<T>): the object lives only while its OWNER does -   *)
(*            a named variable, or a temporary that dies with the full expression (the        *)
(*            engine keeps call operands until the outermost call of the expression ends;     *)
(*            an object made by a user conversion for a C++ parameter is such an operand).     *)
(* (For a temporary owner the model takes the earliest end the engine may choose - the end   *)
(* of the statement; inside a function the engine keeps operands until the outermost call    *)
(* returns, so some paths the model calls dangling are clean in the engine: accepted.)       *)
(* A path is: obtain a cell from a source; keep it with a binder (or use it at once); let an *)
(* event happen (statement end, scope exit, exception, function return, the owner cleared or  *)
(* re-seated); use the cell.  The machine tracks the owner's life and the cell's kind.        *)
(*   OwningNeverDangles  an owning cell (and any clone) is never used after destruction;      *)
(*   Dangling            the borrowed-reference escapes: exactly the paths on which the        *)
(*                        property is violated by design of the borrowing cells.               *)
(* Mode G exports every path with the prediction (safe / dangling / rejected at binding) for  *)
(* replay against an instrumented class (registry: constructed, destroyed, touched after      *)
(* destruction, destroyed twice, alive after the engine is gone).                             *)
EXTENDS Integers, Sequences, FiniteSets, TLC, Json, IOUtils, SequencesExt

\* source -> <<cell kind, owner kind>>
Sources == {"own_ctor", "own_make", "own_sp", "own_up", "own_var", "own_vecelem",
            "own_downcast",      \* a shared_ptr<Base> that really holds a Derived, converted DOWN for a typed script parameter: the converted value shares ownership
            "own_upcast",        \* a Derived held by shared_ptr, converted UP for a typed script parameter
            "bor_tvtemp", "bor_holdtemp_inner", "bor_holdtemp_member", "bor_first_temp",
            "bor_stv", "bor_sholder_inner", "bor_sholder_member",      \* the temporary owner is what a SCRIPT function returned (one of its locals)
            "bor_conv_ref", "bor_conv_ptr",      \* the temporary owner is the object a USER CONVERSION made for a C++ parameter; the function hands back a reference / pointer to it
            "bor_tvvar", "bor_holdvar_inner", "bor_holdvar_member", "bor_first_var", "bor_rfor"}
CellOf(s) == IF s \in {"own_ctor", "own_make", "own_sp", "own_up", "own_var", "own_vecelem", "own_downcast", "own_upcast"} THEN "own" ELSE "borrow"
OwnerOf(s) == CASE s \in {"own_ctor", "own_make", "own_sp", "own_up", "own_downcast", "own_upcast"} -> "self"
                [] s \in {"own_var", "own_vecelem", "bor_tvvar", "bor_holdvar_inner", "bor_holdvar_member", "bor_first_var", "bor_rfor"} -> "named"
                [] OTHER -> "temp"
\* binders: keep the same cell                                   or make a new object (clone)
Keeping == {"none", "bind", "capture", "bindarg", "pushref", "attr_bind", "global", "keep_sp"}
CloningB == {"copy", "push", "attr_copy"}
Binders == Keeping \cup CloningB
Events == {"stmt", "scope_exit", "exception", "lambda_return", "owner_clear", "owner_rebind"}
\* which events make sense for which source (there must be a named owner to clear / re-seat; only a std::vector<T> owner can be cleared)
Applicable(s, b, e) ==
  /\ (e = "owner_clear" => s \in {"bor_tvvar", "bor_first_var", "bor_rfor"})
  /\ (e = "owner_rebind" => OwnerOf(s) = "named" /\ s # "own_vecelem")
  /\ (b = "none" => e = "stmt")                      \* used within the same full expression: nothing can happen in between

\* ----------------------------------------------------------------- the machine
\* st: [cell: "own"|"borrow"|"clone"|"rejected", ownerKind, ownerAlive, stage, dangling]
Obtain(s) == [cell |-> CellOf(s), ownerKind |-> OwnerOf(s), ownerAlive |-> TRUE, stage |-> "obtained", used |-> FALSE, dangling |-> FALSE,
              shareable |-> (CellOf(s) = "own" /\ s \notin {"own_up", "own_downcast", "own_upcast"})]   \* a unique_ptr result is held as such: it does not convert to shared_ptr<T> either; the hierarchy objects are not of the kept class
Bind(st, b) ==
  IF b \in CloningB THEN [st EXCEPT !.cell = "clone", !.stage = "bound"]                       \* a new object owned by the holder
  ELSE IF b = "keep_sp" /\ ~st.shareable THEN [st EXCEPT !.cell = "rejected", !.stage = "bound"]       \* a bare reference does not convert to shared_ptr<T>
  ELSE [st EXCEPT !.stage = "bound"]
\* the owner's life: a temporary owner dies when the full expression that created it ends, unless the cell is used within it
Happen(st, b, e) ==
  LET tempDies == st.ownerKind = "temp" /\ b # "none"
      namedDies == st.ownerKind = "named" /\ e \in {"scope_exit", "exception", "lambda_return", "owner_clear", "owner_rebind"}
  IN [st EXCEPT !.ownerAlive = ~(tempDies \/ namedDies), !.stage = "event"]
Use(st) == [st EXCEPT !.used = TRUE, !.stage = "used", !.dangling = (st.cell = "borrow" /\ ~st.ownerAlive)]
RunPath(s, b, e) == Use(Happen(Bind(Obtain(s), b), b, e))

\* ----------------------------------------------------------------- state machine (M)
VARIABLES st, src, bnd
vars == <<st, src, bnd>>
Init == \E s \in Sources : st = Obtain(s) /\ src = s /\ bnd = "none"
DoBind == st.stage = "obtained" /\ \E b \in Binders : st' = Bind(st, b) /\ bnd' = b /\ UNCHANGED src
DoEvent == st.stage = "bound" /\ st.cell # "rejected" /\ \E e \in Events : Applicable(src, bnd, e) /\ st' = Happen(st, bnd, e) /\ UNCHANGED <<src, bnd>>
DoUse == st.stage = "event" /\ st' = Use(st) /\ UNCHANGED <<src, bnd>>
Next == DoBind \/ DoEvent \/ DoUse
Spec == Init /\ [][Next]_vars
OwningNeverDangles == st.cell \in {"own", "clone"} => ~st.dangling
\* a dangling use needs a bare reference whose owner is gone - nothing else
DanglingOnlyByBorrow == st.dangling => (st.cell = "borrow" /\ ~st.ownerAlive /\ CellOf(src) = "borrow")

\* ----------------------------------------------------------------- mode G
Paths == {<<s, b, e>> \in Sources \X Binders \X Events : Applicable(s, b, e)}
Pred(p) == LET r == RunPath(p[1], p[2], p[3]) IN
           [src |-> p[1], binder |-> p[2], event |-> p[3],
            verdict |-> IF r.cell = "rejected" THEN "rejected" ELSE IF r.dangling THEN "dangling" ELSE "safe"]
Export == ndJsonSerialize(IOEnv.OUT, [i \in 1..Cardinality(Paths) |-> Pred(SetToSeq(Paths)[i])])
=============================================================================
