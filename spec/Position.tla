------------------------------ MODULE Position ------------------------------
(* C20 (M): the state machine over PositionOps - any text over the alphabet up to MaxLen,     *)
(* any sequence of scanner calls the parser can make.  CoordsTrue: in every state the cursor's*)
(* line/col are its true coordinates.  See PositionOps.tla for the transcription.             *)
EXTENDS PositionOps
CONSTANTS Alphabet, MaxLen

VARIABLES text, p, afterEol
vars == <<text, p, afterEol>>
RECURSIVE SeqsUpTo(_)
SeqsUpTo(n) == IF n = 0 THEN {<<>>} ELSE LET s == SeqsUpTo(n - 1) IN s \cup {Append(x, a) : x \in {y \in s : Len(y) = n - 1}, a \in Alphabet}
Init == text \in SeqsUpTo(MaxLen) /\ p = P0 /\ afterEol = FALSE
CallSkipWS == \E b \in BOOLEAN : p' = SkipWS(text, p, b) /\ afterEol' = FALSE
CallEol == LET e == Eol(text, p) IN p' = e.p /\ afterEol' = e.ok
CallToken == At(text, p.i) = "v" /\ p' = TokenRun(text, p) /\ afterEol' = FALSE
CallChar == HasMore(text, p) /\ p' = Inc(text, p) /\ afterEol' = FALSE           \* Symbol_/Char_ consuming one character
CallPeek == HasMore(text, p) /\ p' = Dec(text, Inc(text, p)) /\ afterEol' = FALSE \* the number scanners: one character ahead and back
CallDotBackup == afterEol /\ p' = DotBackup(text, p) /\ afterEol' = FALSE
Next == (CallSkipWS \/ CallEol \/ CallToken \/ CallChar \/ CallPeek \/ CallDotBackup) /\ UNCHANGED text
Spec == Init /\ [][Next]_vars

CoordsTrue == p.line = TrueLine(text, p.i) /\ p.col = TrueCol(text, p.i)
\* C01: the cursor never leaves the buffer (operator-- has no lower-bound test in the code: every step back follows an advance)
CursorInBounds == p.i >= 1 /\ p.i <= Len(text) + 1

=============================================================================
