INIT Init
NEXT Next
CONSTANTS
  MaxTextLen = 4
  MaxDepth = 6
