--------------------------- MODULE CharParserM ---------------------------
EXTENDS CharParser
ASSUME PrintT(<<"bodies", Cardinality(Bodies \cup LongForms), "disagreements", Cardinality(Disagree)>>)
ASSUME Refines
=============================================================================
