SPECIFICATION Spec
CONSTANTS
  Thr = {1, 2}
  Script <- ScriptA
  LockAdd = FALSE
  UseOuter = TRUE
  CacheLocked = TRUE
INVARIANTS NoConflictingOverlap AllRegistrationsRetained VisibleAfterReturn UsedOnce CacheNeverAhead LockSanity
