INIT Init
NEXT Next
CONSTANTS
  RethrowUnmatched = TRUE
  FinallyAlways = FALSE
  ObjectMatch = TRUE
  ObjectMatchValues = TRUE
  ShardK = 0
  ShardN = 1
