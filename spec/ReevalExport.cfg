INIT Init
NEXT Next
