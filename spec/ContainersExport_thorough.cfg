SPECIFICATION Spec
CONSTANTS
  MaxLen = 4
  Huge = 1073741824
  Which = {}
INVARIANTS WithinModel Total
CHECK_DEADLOCK FALSE
