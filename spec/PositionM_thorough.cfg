SPECIFICATION Spec
INVARIANTS CoordsTrue CursorInBounds
CONSTANTS
  Alphabet = {"v", "sp", "nl", "cr", "sl", "hs", "dot"}
  MaxLen = 7
  ArithmeticMinus = FALSE
CHECK_DEADLOCK FALSE
