SPECIFICATION Spec
INVARIANT CoordsTrue
CONSTANTS
  Alphabet = {"v", "sp", "nl", "cr", "sl", "hs", "dot"}
  MaxLen = 7
  ArithmeticMinus = FALSE
CHECK_DEADLOCK FALSE
