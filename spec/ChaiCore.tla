------------------------------ MODULE ChaiCore ------------------------------
(* C03: an independent reference interpreter of the documented core-language semantics,     *)
(* written as a state-passing big-step evaluator  Ev(node, M) = [M, ctl, d]  over the        *)
(* machine M of cells, objects, frames of scopes, globals, functions and output.             *)
(*                                                                                          *)
(* Programs are DATA (records named after the parser's node kinds); they are drawn by a      *)
(* seeded grammar-directed generator (gen/coregen.py) and read from IOEnv.IN; this module    *)
(* computes what each program must print, return and whether it must fail, and the driver    *)
(* compares that with the real engine under both the optimizing and the unoptimized parser.  *)
(*                                                                                          *)
(* Semantics encoded (each validated construct by construct on the pinned tree, DESIGN.md    *)
(* appendix C):  variables name CELLS; `var x = e` clones (scalars and strings by value,     *)
(* vectors/maps shallowly - the copy shares its element cells -, class instances with their  *)
(* attributes cloned); `var &r = e` and `r := e` alias; parameters, captures and ranged-for  *)
(* variables alias; assignment writes into the cell (literals are const); inline vectors and *)
(* push_back clone their elements; lookup is current frame (innermost scope first), then     *)
(* globals, then functions; functions do not see their caller's locals; overloads are tried  *)
(* by number of non-matching parameter types, guarded before unguarded, then definition      *)
(* order; switch falls through until break; && || short-circuit and demand booleans.         *)
EXTENDS Integers, Sequences, FiniteSets, TLC, Json, IOUtils, SequencesExt

V(t, i, s, r) == [t |-> t, i |-> i, s |-> s, r |-> r]
VInt(i) == V("int", i, "", 0)
VBool(b) == V("bool", IF b THEN 1 ELSE 0, "", 0)
VStr(s) == V("str", 0, s, 0)
VRef(t, r) == V(t, 0, "", r)              \* t \in {"vec","map","obj","fn"}
VVoid == V("void", 0, "", 0)
VUndef == V("undef", 0, "", 0)
Obj(k, cls, keys, e, ast, env) == [k |-> k, cls |-> cls, keys |-> keys, e |-> e, ast |-> ast, env |-> env]
NoAst == [k |-> "none"]

M0 == [cells |-> <<>>, objs |-> <<>>, frames |-> << << <<>> >> >>, globals |-> <<>>, funs |-> <<>>, classes |-> <<>>,
       out |-> <<>>, err |-> "", fuel |-> 400, ast |-> <<>>, stack |-> <<>>, thrown |-> 0]
R(M, ctl, d) == [M |-> M, ctl |-> ctl, d |-> d]
Err(M, cls) == R([M EXCEPT !.err = cls], "err", 0)
Norm(M, d) == R(M, "norm", d)
Thr(M, d) == R([M EXCEPT !.thrown = d], "thr", 0)          \* a value thrown by script: travels like an error, carries the thrown cell

\* a cell: value, const flag, and the "return value" flag a value returned BY VALUE from a C++ function carries until it is bound to a name
\* (Boxed_Value::is_return_value): such a temporary cannot be the target of an assignment ("cannot assign to temporary value")
NewCell(M, v, c) == [M EXCEPT !.cells = Append(@, [v |-> v, c |-> c, rv |-> FALSE])]
LastCell(M) == Len(M.cells)
NewObj(M, o) == [M EXCEPT !.objs = Append(@, o)]
LastObj(M) == Len(M.objs)
Val(M, d) == IF d = 0 THEN VVoid ELSE M.cells[d].v
Temp(M, v) == LET M1 == [M EXCEPT !.cells = Append(@, [v |-> v, c |-> FALSE, rv |-> TRUE])] IN Norm(M1, LastCell(M1))     \* a computed temporary (strings, to_string, size)
CTemp(M, v) == LET M1 == NewCell(M, v, TRUE) IN Norm(M1, LastCell(M1))      \* arithmetic / boolean results and inline containers are const temporaries
\* A literal is a const value.  C08: a literal node that carries an identity ("id") owns ONE cell in the syntax tree (M.ast) and every
\* evaluation of the node hands out that same cell, as Constant_AST_Node::m_value does; "mut" marks a literal whose cell is (wrongly)
\* not const - the defect class C08 is about, used by the sanity runs.  Literals without identity get a fresh const cell.
Lit(M, e, v) ==
  IF "id" \notin DOMAIN e THEN (LET M1 == NewCell(M, v, TRUE) IN Norm(M1, LastCell(M1)))
  ELSE LET i == SelectInSeq(M.ast, LAMBDA a : a.id = e.id) IN
       IF i # 0 THEN Norm(M, M.ast[i].d)
       ELSE LET M1 == NewCell(M, v, ~("mut" \in DOMAIN e /\ e.mut))
                M2 == [M1 EXCEPT !.ast = Append(@, [id |-> e.id, d |-> LastCell(M1), v |-> v])]
            IN Norm(M2, LastCell(M1))
\* C08: no evaluation has changed a literal of the syntax tree
AstUnchanged(M) == \A i \in 1..Len(M.ast) : M.cells[M.ast[i].d].v = M.ast[i].v

TopFrame(M) == M.frames[Len(M.frames)]
PushScope(M) == [M EXCEPT !.frames[Len(M.frames)] = Append(@, <<>>)]
PopScope(M) == [M EXCEPT !.frames[Len(M.frames)] = SubSeq(@, 1, Len(@) - 1)]
PushFrame(M, binds) == [M EXCEPT !.frames = Append(@, << binds >>)]
PopFrame(M) == [M EXCEPT !.frames = SubSeq(@, 1, Len(@) - 1)]
InScope(sc, n) == \E i \in 1..Len(sc) : sc[i][1] = n
Bind(M, n, d) == LET f == Len(M.frames)  s == Len(M.frames[f]) IN [M EXCEPT !.frames[f][s] = Append(@, <<n, d>>)]
RECURSIVE FindIn(_, _, _)
FindIn(fr, n, k) == IF k = 0 THEN 0 ELSE
   LET i == SelectInSeq(fr[k], LAMBDA e : e[1] = n) IN IF i # 0 THEN fr[k][i][2] ELSE FindIn(fr, n, k - 1)
FindSeq(bs, n) == LET i == SelectInSeq(bs, LAMBDA e : e[1] = n) IN IF i # 0 THEN bs[i][2] ELSE 0
FunsNamed(M, n) == SelectSeq(M.funs, LAMBDA f : f.name = n)
\* current frame (innermost scope first), then globals, then the function of that name
Lookup(M, n) == LET l == FindIn(TopFrame(M), n, Len(TopFrame(M))) IN IF l # 0 THEN l ELSE FindSeq(M.globals, n)

\* ---------------------------------------------------------------- cloning (var x = e, inline containers, push_back)
RECURSIVE CloneAttrs(_, _, _, _)
\* returns [M, d]: a fresh cell holding a clone of value v
Clone(M, v) ==
  IF v.t \in {"vec", "map"} THEN
     LET o == M.objs[v.r]
         M1 == NewObj(M, o)                                          \* new container sharing the element cells
         M2 == NewCell(M1, VRef(v.t, LastObj(M1)), FALSE)
     IN [M |-> M2, d |-> LastCell(M2)]
  ELSE IF v.t = "obj" THEN
     LET o == M.objs[v.r]
         a == CloneAttrs(M, o.e, 1, <<>>)
         M1 == NewObj(a.M, [o EXCEPT !.e = a.ds])
         M2 == NewCell(M1, VRef("obj", LastObj(M1)), FALSE)
     IN [M |-> M2, d |-> LastCell(M2)]
  ELSE LET M1 == NewCell(M, v, FALSE) IN [M |-> M1, d |-> LastCell(M1)]
CloneAttrs(M, es, i, acc) ==
  IF i > Len(es) THEN [M |-> M, ds |-> acc]
  ELSE LET c == Clone(M, M.cells[es[i]].v) IN CloneAttrs(c.M, es, i + 1, Append(acc, c.d))

\* ---------------------------------------------------------------- printing (to_string)
KeyOrder == <<"a", "b", "c", "k", "x", "y">>
RECURSIVE ToStr(_, _), JoinElems(_, _, _), JoinPairs(_, _, _, _)
ToStr(M, v) ==
  CASE v.t = "int" -> (IF v.i < 0 THEN "-" \o ToString(0 - v.i) ELSE ToString(v.i))
    [] v.t = "bool" -> (IF v.i = 1 THEN "true" ELSE "false")
    [] v.t = "str" -> v.s
    [] v.t = "vec" -> "[" \o JoinElems(M, M.objs[v.r].e, 1) \o "]"
    [] v.t = "map" -> "[" \o JoinPairs(M, M.objs[v.r], 1, TRUE) \o "]"
    [] OTHER -> "?"
JoinElems(M, es, i) == IF i > Len(es) THEN "" ELSE (IF i > 1 THEN ", " ELSE "") \o ToStr(M, M.cells[es[i]].v) \o JoinElems(M, es, i + 1)
\* std::map iterates in key order
JoinPairs(M, o, k, first) ==
  IF k > Len(KeyOrder) THEN ""
  ELSE LET i == SelectInSeq(o.keys, LAMBDA x : x = KeyOrder[k]) IN
       IF i = 0 THEN JoinPairs(M, o, k + 1, first)
       ELSE (IF first THEN "" ELSE ", ") \o "<" \o KeyOrder[k] \o ", " \o ToStr(M, M.cells[o.e[i]].v) \o ">" \o JoinPairs(M, o, k + 1, FALSE)
Printable(M, v) == v.t \in {"int", "bool", "str", "vec", "map"}

\* ---------------------------------------------------------------- operators
IntOps == {"+", "-", "*", "/", "%", "<", "<=", ">", ">=", "==", "!="}
TruncDiv(a, b) == LET q == (IF a < 0 THEN 0 - a ELSE a) \div (IF b < 0 THEN 0 - b ELSE b) IN IF (a < 0) = (b < 0) THEN q ELSE 0 - q
TruncMod(a, b) == a - b * TruncDiv(a, b)
BinOp(M, op, x, y) ==      \* result value or "bad"
  IF x.t = "int" /\ y.t = "int" /\ op \in {"+", "-", "*"} /\ (x.i > 30000 \/ x.i < -30000 \/ y.i > 30000 \/ y.i < -30000)
     THEN V("bad", 0, "ovf", 0)       \* generated programs keep integers small; anything growing beyond is dropped, not compared
  ELSE IF x.t = "int" /\ y.t = "int" /\ op \in IntOps THEN
     CASE op = "+" -> VInt(x.i + y.i) [] op = "-" -> VInt(x.i - y.i) [] op = "*" -> VInt(x.i * y.i)
       [] op = "/" -> (IF y.i = 0 THEN V("bad", 0, "arith", 0) ELSE VInt(TruncDiv(x.i, y.i)))
       [] op = "%" -> (IF y.i = 0 THEN V("bad", 0, "arith", 0) ELSE VInt(TruncMod(x.i, y.i)))
       [] op = "<" -> VBool(x.i < y.i) [] op = "<=" -> VBool(x.i <= y.i) [] op = ">" -> VBool(x.i > y.i) [] op = ">=" -> VBool(x.i >= y.i)
       [] op = "==" -> VBool(x.i = y.i) [] op = "!=" -> VBool(x.i # y.i)
  ELSE IF x.t = "str" /\ y.t = "str" /\ op \in {"+", "==", "!="} THEN
     CASE op = "+" -> VStr(x.s \o y.s) [] op = "==" -> VBool(x.s = y.s) [] op = "!=" -> VBool(x.s # y.s)
  ELSE IF x.t = "bool" /\ y.t = "bool" /\ op \in {"==", "!="} THEN
     (IF op = "==" THEN VBool(x.i = y.i) ELSE VBool(x.i # y.i))
  ELSE V("bad", 0, "ee", 0)
TypeName(v) == CASE v.t = "int" -> "int" [] v.t = "bool" -> "bool" [] v.t = "str" -> "string" [] OTHER -> v.t

\* ---------------------------------------------------------------- the evaluator
RECURSIVE Ev(_, _), EvNode(_, _), TryClauses(_, _, _, _), Interp(_, _, _, _), EvSeq(_, _, _), EvArgs(_, _, _, _), Call(_, _, _), CallFn(_, _, _, _), TryFuns(_, _, _, _), While(_, _), ForLoop(_, _),
          RFor(_, _, _, _), RForMap(_, _, _, _), Cases(_, _, _, _, _), ElseIfs(_, _, _), VecLit(_, _, _, _), MapLit(_, _, _, _, _), Assign(_, _, _)

\* evaluates a sequence of statements; the value of the last one is the value of the block
EvSeq(b, i, M) == IF i > Len(b) THEN Norm(M, 0)
                  ELSE LET r == Ev(b[i], M) IN IF r.ctl # "norm" \/ i = Len(b) THEN r ELSE EvSeq(b, i + 1, r.M)
Block(b, M) == LET r == EvSeq(b, 1, PushScope(M)) IN R(PopScope(r.M), r.ctl, r.d)

\* argument cells, left to right: [M, ctl, ds]
EvArgs(as, i, M, acc) == IF i > Len(as) THEN [M |-> M, ctl |-> "norm", ds |-> acc]
                         ELSE LET r == Ev(as[i], M) IN
                              IF r.ctl # "norm" THEN [M |-> r.M, ctl |-> r.ctl, ds |-> acc]
                              ELSE EvArgs(as, i + 1, r.M, Append(acc, r.d))

\* writes value v into cell d (Equation): const cells and type changes are errors; an undefined cell takes a clone
Assign(M, d, v) ==
  IF d = 0 \/ v.t = "void" THEN Err(M, "ee") ELSE
  LET c == M.cells[d] IN
  IF c.c \/ c.rv THEN Err(M, "ee")
  ELSE IF c.v.t = "undef" THEN (LET k == Clone(M, v) IN Norm([k.M EXCEPT !.cells[d].v = k.M.cells[k.d].v], d))
  ELSE IF c.v.t # v.t THEN Err(M, "ee")
  ELSE IF v.t \in {"vec", "map", "obj"} THEN (LET k == Clone(M, v) IN Norm([k.M EXCEPT !.cells[d].v = k.M.cells[k.d].v], d))
  ELSE Norm([M EXCEPT !.cells[d].v = v], d)

\* entering a function value (script function or lambda) with argument cells ds
CallFn(M, fobj, ds, thisd) ==
  LET f == fobj.ast
      binds == (IF thisd # 0 THEN << <<"this", thisd>> >> ELSE <<>>) \o fobj.env \o [i \in 1..Len(f.params) |-> <<f.params[i].n, ds[i]>>]
      M1 == PushFrame(M, binds)
      r == Block(f.b, M1)
      M2 == PopFrame(r.M)
  IN IF M.fuel <= 0 THEN R(M, "fuel", 0)
     ELSE IF r.ctl \in {"norm", "ret"} THEN Norm(M2, r.d)
     ELSE IF r.ctl \in {"brk", "cont"} THEN Err(M2, "ee")             \* break/continue outside a loop
     ELSE R(M2, r.ctl, 0)

ParamOk(M, p, d) == p.ty = "" \/ p.ty = TypeName(Val(M, d))
NumDiffs(M, f, ds) == Cardinality({i \in 1..Len(ds) : f.params[i].ty # TypeName(Val(M, ds[i]))})
\* candidates in the order dispatch tries them: fewest non-matching parameter types first, guarded before unguarded, definition order
Ordered(M, fs, ds) == SortSeq(fs, LAMBDA a, b : LET na == NumDiffs(M, a, ds)  nb == NumDiffs(M, b, ds) IN
                                   na < nb \/ (na = nb /\ ((a.guarded /\ ~b.guarded) \/ (a.guarded = b.guarded /\ a.idx < b.idx))))
TryFuns(M, fs, i, ds) ==
  IF i > Len(fs) THEN Err(M, "ee")                                      \* no overload accepts the call
  ELSE LET f == fs[i] IN
       IF ~(\A k \in 1..Len(ds) : ParamOk(M, f.params[k], ds[k])) THEN TryFuns(M, fs, i + 1, ds)
       ELSE IF f.guarded THEN
              (LET binds == [k \in 1..Len(f.params) |-> <<f.params[k].n, ds[k]>>]
                   g == Ev(f.guard, PushFrame(M, binds))
                   Mg == PopFrame(g.M) IN
               IF g.ctl # "norm" THEN R(Mg, g.ctl, 0)
               ELSE IF Val(g.M, g.d).t # "bool" THEN Err(Mg, "ee")
               ELSE IF Val(g.M, g.d).i = 0 THEN TryFuns(Mg, fs, i + 1, ds)
               ELSE CallFn(Mg, [ast |-> f, env |-> <<>>], ds, 0))
       ELSE CallFn(M, [ast |-> f, env |-> <<>>], ds, 0)

\* f(args): a local/global variable holding a function value, else the script functions of that name, else builtins
Call(M, e, unused) ==
  LET a == EvArgs(e.a, 1, M, <<>>) IN
  IF a.ctl # "norm" THEN R(a.M, a.ctl, 0)
  ELSE LET Ma == [a.M EXCEPT !.fuel = @ - 1]
           d == Lookup(Ma, e.f)
           fs == SelectSeq(FunsNamed(Ma, e.f), LAMBDA f : Len(f.params) = Len(a.ds)) IN
       IF d # 0 THEN (IF Ma.cells[d].v.t = "fn" /\ Len(Ma.objs[Ma.cells[d].v.r].ast.params) = Len(a.ds)
                        THEN CallFn(Ma, Ma.objs[Ma.cells[d].v.r], a.ds, 0) ELSE Err(Ma, "ee"))
       ELSE IF FunsNamed(Ma, e.f) # <<>> THEN TryFuns(Ma, Ordered(Ma, fs, a.ds), 1, a.ds)
       ELSE IF e.f = "to_string" /\ Len(a.ds) = 1 /\ Printable(Ma, Val(Ma, a.ds[1])) THEN Temp(Ma, VStr(ToStr(Ma, Val(Ma, a.ds[1]))))
       ELSE IF \E c \in 1..Len(Ma.classes) : Ma.classes[c].n = e.f THEN
            (LET cl == Ma.classes[CHOOSE c \in 1..Len(Ma.classes) : Ma.classes[c].n = e.f] IN
             IF Len(cl.ctor.params) # Len(a.ds) THEN Err(Ma, "ee")
             ELSE LET M1 == [Ma EXCEPT !.cells = @ \o [i \in 1..Len(cl.attrs) |-> [v |-> VUndef, c |-> FALSE, rv |-> FALSE]]]
                      es == [i \in 1..Len(cl.attrs) |-> Len(Ma.cells) + i]
                      M2 == NewObj(M1, Obj("obj", cl.n, cl.attrs, es, NoAst, <<>>))
                      M3 == NewCell(M2, VRef("obj", LastObj(M2)), FALSE)
                      r == CallFn(M3, [ast |-> cl.ctor, env |-> <<>>], a.ds, LastCell(M3)) IN
                  IF r.ctl # "norm" THEN r ELSE Norm(r.M, LastCell(M3)))
       ELSE Err(Ma, "ee")

VecLit(as, i, M, acc) == IF i > Len(as) THEN [M |-> M, ctl |-> "norm", ds |-> acc]
                         ELSE LET r == Ev(as[i], M) IN
                              IF r.ctl # "norm" THEN [M |-> r.M, ctl |-> r.ctl, ds |-> acc]
                              ELSE LET k == Clone(r.M, Val(r.M, r.d)) IN VecLit(as, i + 1, k.M, Append(acc, k.d))
MapLit(ps, i, M, keys, acc) == IF i > Len(ps) THEN [M |-> M, ctl |-> "norm", keys |-> keys, ds |-> acc]
                               ELSE LET r == Ev(ps[i][2], M) IN
                                    IF r.ctl # "norm" THEN [M |-> r.M, ctl |-> r.ctl, keys |-> keys, ds |-> acc]
                                    ELSE LET k == Clone(r.M, Val(r.M, r.d)) IN MapLit(ps, i + 1, k.M, Append(keys, ps[i][1]), Append(acc, k.d))

While(e, M) ==
  IF M.fuel <= 0 THEN R(M, "fuel", 0) ELSE
  LET c0 == Ev(e.c, PushScope(M))  Mc == PopScope(c0.M) IN                       \* the condition is evaluated in its own scope
  IF c0.ctl # "norm" THEN R(Mc, c0.ctl, 0)
  ELSE IF Val(c0.M, c0.d).t # "bool" THEN Err(Mc, "ee")
  ELSE IF Val(c0.M, c0.d).i = 0 THEN Norm(Mc, 0)
  ELSE LET r == Block(e.b, [Mc EXCEPT !.fuel = @ - 1]) IN
       IF r.ctl = "brk" THEN Norm(r.M, 0) ELSE IF r.ctl \in {"norm", "cont"} THEN While(e, r.M) ELSE r
\* for (init; cond; step) body, inside the loop's own scope
ForLoop(e, M) ==
  IF M.fuel <= 0 THEN R(M, "fuel", 0) ELSE
  LET c0 == Ev(e.c, M) IN
  IF c0.ctl # "norm" THEN c0
  ELSE IF Val(c0.M, c0.d).t # "bool" THEN Err(c0.M, "ee")
  ELSE IF Val(c0.M, c0.d).i = 0 THEN Norm(c0.M, 0)
  ELSE LET r == Block(e.b, [c0.M EXCEPT !.fuel = @ - 1]) IN
       IF r.ctl = "brk" THEN Norm(r.M, 0)
       ELSE IF r.ctl \in {"norm", "cont"} THEN (LET s == Ev(e.s, r.M) IN IF s.ctl # "norm" THEN s ELSE ForLoop(e, s.M))
       ELSE r
\* for (n : container): n aliases each element cell in turn
RFor(e, es, i, M) ==
  IF i > Len(es) THEN Norm(M, 0) ELSE
  LET M1 == Bind(PushScope(M), e.n, es[i])
      r == Block(e.b, M1)
      M2 == PopScope(r.M) IN
  IF r.ctl = "brk" THEN Norm(M2, 0) ELSE IF r.ctl \in {"norm", "cont"} THEN RFor(e, es, i + 1, M2) ELSE R(M2, r.ctl, r.d)

\* for (p : map): in key order; p is a pair whose `first` is the (const) key and whose `second` IS the element
RForMap(e, mo, k, M) ==
  IF k > Len(KeyOrder) THEN Norm(M, 0) ELSE
  LET o == M.objs[mo]  i == SelectInSeq(o.keys, LAMBDA x : x = KeyOrder[k]) IN
  IF i = 0 THEN RForMap(e, mo, k + 1, M) ELSE
  LET Mk == NewCell(M, VStr(KeyOrder[k]), TRUE)
      Mp == NewObj(Mk, Obj("obj", "Pair", <<"first", "second">>, <<LastCell(Mk), o.e[i]>>, NoAst, <<>>))
      Mc == NewCell(Mp, VRef("obj", LastObj(Mp)), FALSE)
      M1 == Bind(PushScope(Mc), e.n, LastCell(Mc))
      r == Block(e.b, M1)
      M2 == PopScope(r.M) IN
  IF r.ctl = "brk" THEN Norm(M2, 0) ELSE IF r.ctl \in {"norm", "cont"} THEN RForMap(e, mo, k + 1, M2) ELSE R(M2, r.ctl, r.d)

\* switch: first case equal to the value, then falls through (a default reached in sequence always runs) until break
Cases(cs, i, M, sv, matched) ==
  IF i > Len(cs) THEN Norm(M, 0) ELSE
  LET c == cs[i] IN
  IF c.isdefault THEN (LET r == Block(c.b, M) IN IF r.ctl = "brk" THEN Norm(r.M, 0) ELSE IF r.ctl # "norm" THEN r ELSE Cases(cs, i + 1, r.M, sv, TRUE))
  ELSE IF matched THEN (LET r == Block(c.b, M) IN IF r.ctl = "brk" THEN Norm(r.M, 0) ELSE IF r.ctl # "norm" THEN r ELSE Cases(cs, i + 1, r.M, sv, TRUE))
  ELSE LET cv == Ev(c.v, M) IN
       IF cv.ctl # "norm" THEN cv
       ELSE LET eq == BinOp(cv.M, "==", sv, Val(cv.M, cv.d)) IN
            IF eq.t = "bad" THEN Err(cv.M, "ee")
            ELSE IF eq.i = 1 THEN (LET r == Block(c.b, cv.M) IN IF r.ctl = "brk" THEN Norm(r.M, 0) ELSE IF r.ctl # "norm" THEN r ELSE Cases(cs, i + 1, r.M, sv, TRUE))
            ELSE Cases(cs, i + 1, cv.M, sv, FALSE)

ElseIfs(eis, i, M) ==      \* returns [taken, r]
  IF i > Len(eis) THEN [taken |-> FALSE, r |-> Norm(M, 0)]
  ELSE LET c == Ev(eis[i].c, M) IN
       IF c.ctl # "norm" THEN [taken |-> TRUE, r |-> c]
       ELSE IF Val(c.M, c.d).t # "bool" THEN [taken |-> TRUE, r |-> Err(c.M, "ee")]
       ELSE IF Val(c.M, c.d).i = 1 THEN [taken |-> TRUE, r |-> Block(eis[i].b, c.M)]
       ELSE ElseIfs(eis, i + 1, c.M)

\* a binary operator applied to two cells: the built-in meaning, else the script functions defined under the operator's name
Apply2(M, op, da, db) ==
  LET v == BinOp(M, op, Val(M, da), Val(M, db))  fs == SelectSeq(FunsNamed(M, op), LAMBDA f : Len(f.params) = 2) IN
  IF v.t = "bad" /\ v.s = "ovf" THEN R(M, "fuel", 0)
  ELSE IF v.t = "bad" /\ v.s = "ee" /\ fs # <<>> THEN TryFuns(M, Ordered(M, fs, <<da, db>>), 1, <<da, db>>)
  ELSE IF v.t = "bad" THEN Err(M, IF v.s = "arith" THEN "ex" ELSE "ee") ELSE IF v.t = "str" THEN Temp(M, v) ELSE CTemp(M, v)

\* "text ${e} text": the parts in order, every ${e} evaluated in the current scope and rendered with to_string
Interp(parts, i, M, acc) ==
  IF i > Len(parts) THEN Temp(M, VStr(acc))
  ELSE IF parts[i].k = "txt" THEN Interp(parts, i + 1, M, acc \o parts[i].v)
  ELSE LET a == Ev(parts[i].e, M) IN
       IF a.ctl # "norm" THEN a
       ELSE IF ~Printable(a.M, Val(a.M, a.d)) THEN Err(a.M, "ee")
       ELSE Interp(parts, i + 1, a.M, acc \o ToStr(a.M, Val(a.M, a.d)))

\* the clauses in order: an untyped clause takes anything (a thrown value or an engine error); a typed one takes a thrown value of that type
TryClauses(cl, i, b, M) ==
  IF i > Len(cl) THEN b                                                       \* no clause accepted it: it keeps travelling, unchanged
  ELSE LET c == cl[i]
           isval == b.ctl = "thr"
           takes == c.ty = "" \/ (isval /\ c.ty = TypeName(Val(M, M.thrown)))
       IN IF ~takes THEN TryClauses(cl, i + 1, b, M)
          ELSE LET M1 == PushScope([M EXCEPT !.err = "", !.stack = <<>>])
                   M2 == IF isval THEN Bind(M1, c.n, M.thrown) ELSE LET k == NewCell(M1, VUndef, FALSE) IN Bind(k, c.n, LastCell(k))
                   r == Block(c.h, M2)
               IN R(PopScope(r.M), r.ctl, r.d)

\* C20: while an error unwinds, every node it passes appends itself to the error's call stack (AST_Node_Impl::eval does this for
\* every node; the reference records the nodes that carry a label "lab": the failing identifier / call and every enclosing call)
Ev(e, M) == LET r == EvNode(e, M) IN
            IF r.ctl = "err" /\ "lab" \in DOMAIN e THEN [r EXCEPT !.M.stack = Append(@, e.lab)] ELSE r
EvNode(e, M) ==
  CASE e.k = "int" -> Lit(M, e, VInt(e.v))
    [] e.k = "bool" -> Lit(M, e, VBool(e.v))
    [] e.k = "str" -> Lit(M, e, VStr(e.v))
    [] e.k = "id" -> (LET d == Lookup(M, e.n) IN IF d = 0 THEN Err(M, "ee") ELSE Norm(M, d))
    [] e.k = "bin" ->
        (LET a == Ev(e.l, M) IN IF a.ctl # "norm" THEN a ELSE
         LET b == Ev(e.r, a.M) IN IF b.ctl # "norm" THEN b ELSE Apply2(b.M, e.op, a.d, b.d))
    [] e.k = "foldr" ->          \* Partial_Fold's node: the right operand is a constant kept in the node (Fold_Right_Binary_Operator::do_oper)
        (LET a == Ev(e.l, M) IN IF a.ctl # "norm" THEN a ELSE
         LET b == Ev(e.c, a.M) IN
         IF Val(b.M, a.d).t = "int" /\ Val(b.M, b.d).t # "int" THEN Err(b.M, "ee")        \* an arithmetic left value takes the numeric shortcut whatever the constant is
         ELSE Apply2(b.M, e.op, a.d, b.d))
    [] e.k = "and" ->
        (LET a == Ev(e.l, M) IN IF a.ctl # "norm" THEN a ELSE
         IF Val(a.M, a.d).t # "bool" THEN Err(a.M, "ee") ELSE
         IF Val(a.M, a.d).i = 0 THEN CTemp(a.M, VBool(FALSE)) ELSE
         LET b == Ev(e.r, a.M) IN IF b.ctl # "norm" THEN b ELSE
         IF Val(b.M, b.d).t # "bool" THEN Err(b.M, "ee") ELSE CTemp(b.M, Val(b.M, b.d)))
    [] e.k = "or" ->
        (LET a == Ev(e.l, M) IN IF a.ctl # "norm" THEN a ELSE
         IF Val(a.M, a.d).t # "bool" THEN Err(a.M, "ee") ELSE
         IF Val(a.M, a.d).i = 1 THEN CTemp(a.M, VBool(TRUE)) ELSE
         LET b == Ev(e.r, a.M) IN IF b.ctl # "norm" THEN b ELSE
         IF Val(b.M, b.d).t # "bool" THEN Err(b.M, "ee") ELSE CTemp(b.M, Val(b.M, b.d)))
    [] e.k = "not" -> (LET a == Ev(e.e, M) IN IF a.ctl # "norm" THEN a ELSE
                       IF Val(a.M, a.d).t # "bool" THEN Err(a.M, "ee") ELSE Temp(a.M, VBool(Val(a.M, a.d).i = 0)))     \* `!` returns a fresh non-const temporary
    [] e.k = "neg" -> (LET a == Ev(e.e, M) IN IF a.ctl # "norm" THEN a ELSE
                       IF Val(a.M, a.d).t # "int" THEN Err(a.M, "ee") ELSE CTemp(a.M, VInt(0 - Val(a.M, a.d).i)))
    [] e.k = "tern" -> (LET c == Ev(e.c, M) IN IF c.ctl # "norm" THEN c ELSE
                        IF Val(c.M, c.d).t # "bool" THEN Err(c.M, "ee") ELSE
                        IF Val(c.M, c.d).i = 1 THEN Ev(e.t, c.M) ELSE Ev(e.f, c.M))
    [] e.k = "call" -> Call(M, e, 0)
    [] e.k = "lambda" ->          \* fun[caps](params) { body }: captures alias the cells visible now
        (LET ds == [i \in 1..Len(e.caps) |-> Lookup(M, e.caps[i])] IN
         IF \E i \in 1..Len(ds) : ds[i] = 0 THEN Err(M, "ee") ELSE
         LET M1 == NewObj(M, Obj("fn", "", <<>>, <<>>, e, [i \in 1..Len(e.caps) |-> <<e.caps[i], ds[i]>>])) IN Temp(M1, VRef("fn", LastObj(M1))))
    [] e.k = "vec" -> (LET a == VecLit(e.a, 1, M, <<>>) IN IF a.ctl # "norm" THEN R(a.M, a.ctl, 0) ELSE
                       LET M1 == NewObj(a.M, Obj("vec", "", <<>>, a.ds, NoAst, <<>>)) IN CTemp(M1, VRef("vec", LastObj(M1))))
    [] e.k = "map" -> (LET a == MapLit(e.a, 1, M, <<>>, <<>>) IN IF a.ctl # "norm" THEN R(a.M, a.ctl, 0) ELSE
                       LET M1 == NewObj(a.M, Obj("map", "", a.keys, a.ds, NoAst, <<>>)) IN CTemp(M1, VRef("map", LastObj(M1))))
    [] e.k = "idx" ->             \* v[i] / m["k"]: the element cell itself
        (LET c == Ev(e.e, M) IN IF c.ctl # "norm" THEN c ELSE
         LET i == Ev(e.i, c.M) IN IF i.ctl # "norm" THEN i ELSE
         LET cv == Val(i.M, c.d)  iv == Val(i.M, i.d) IN
         IF cv.t = "vec" /\ iv.t = "int" THEN
              (IF iv.i >= 0 /\ iv.i < Len(i.M.objs[cv.r].e) THEN Norm(i.M, i.M.objs[cv.r].e[iv.i + 1]) ELSE Err(i.M, "ex"))    \* std::out_of_range
         ELSE IF cv.t = "map" /\ iv.t = "str" THEN
              (LET o == i.M.objs[cv.r]  k == SelectInSeq(o.keys, LAMBDA x : x = iv.s) IN
               IF k # 0 THEN Norm(i.M, o.e[k])
               ELSE LET M1 == NewCell(i.M, VUndef, FALSE) IN          \* operator[] inserts an undefined element
                    Norm([M1 EXCEPT !.objs[cv.r].keys = Append(@, iv.s), !.objs[cv.r].e = Append(@, LastCell(M1))], LastCell(M1)))
         ELSE Err(i.M, "ee"))
    [] e.k = "attr" ->            \* o.name
        (LET c == Ev(e.e, M) IN IF c.ctl # "norm" THEN c ELSE
         LET cv == Val(c.M, c.d) IN
         IF cv.t # "obj" THEN Err(c.M, "ee") ELSE
         LET o == c.M.objs[cv.r]  k == SelectInSeq(o.keys, LAMBDA x : x = e.n) IN
         IF k = 0 THEN Err(c.M, "ee") ELSE Norm(c.M, o.e[k]))
    [] e.k = "dot" ->             \* o.m(args): size / push_back / count on containers, methods on class instances
        (LET c == Ev(e.e, M) IN IF c.ctl # "norm" THEN c ELSE
         LET a == EvArgs(e.a, 1, c.M, <<>>) IN IF a.ctl # "norm" THEN R(a.M, a.ctl, 0) ELSE
         LET Ma == [a.M EXCEPT !.fuel = @ - 1]  cv == Val(Ma, c.d) IN
         IF cv.t \in {"vec", "map"} /\ e.m = "size" /\ a.ds = <<>> THEN Temp(Ma, VInt(Len(Ma.objs[cv.r].e)))
         ELSE IF cv.t = "str" /\ e.m = "size" /\ a.ds = <<>> THEN Temp(Ma, VInt(0 - 1))       \* not generated: length of TLA+ strings is not available
         ELSE IF cv.t = "vec" /\ e.m = "push_back" /\ Len(a.ds) = 1 THEN
              (IF Ma.cells[c.d].c THEN Err(Ma, "ee") ELSE
               LET k == Clone(Ma, Val(Ma, a.ds[1])) IN Norm([k.M EXCEPT !.objs[cv.r].e = Append(@, k.d)], 0))
         ELSE IF cv.t = "map" /\ e.m = "count" /\ Len(a.ds) = 1 /\ Val(Ma, a.ds[1]).t = "str" THEN
              Temp(Ma, VInt(IF SelectInSeq(Ma.objs[cv.r].keys, LAMBDA x : x = Val(Ma, a.ds[1]).s) # 0 THEN 1 ELSE 0))
         ELSE IF cv.t = "obj" THEN
              (LET cls == Ma.classes[CHOOSE k \in 1..Len(Ma.classes) : Ma.classes[k].n = Ma.objs[cv.r].cls]
                   mi == SelectInSeq(cls.methods, LAMBDA m : m.n = e.m /\ Len(m.params) = Len(a.ds)) IN
               IF mi = 0 THEN Err(Ma, "ee") ELSE CallFn(Ma, [ast |-> cls.methods[mi], env |-> <<>>], a.ds, c.d))
         ELSE Err(Ma, "ee"))
    \* ------------------------------------------------------------ statements
    [] e.k = "var" -> (LET a == Ev(e.e, M) IN IF a.ctl # "norm" THEN a ELSE
                       IF InScope(TopFrame(a.M)[Len(TopFrame(a.M))], e.n) THEN Err(a.M, "ee") ELSE
                       IF Val(a.M, a.d).t = "void" THEN Err(a.M, "ee") ELSE
                       LET k == Clone(a.M, Val(a.M, a.d)) IN Norm(Bind(k.M, e.n, k.d), k.d))
    [] e.k = "ref" -> (LET a == Ev(e.e, M) IN IF a.ctl # "norm" THEN a ELSE      \* var &n = e   /   n := e on a fresh name
                       IF InScope(TopFrame(a.M)[Len(TopFrame(a.M))], e.n) THEN Err(a.M, "ee") ELSE
                       IF a.d = 0 THEN Norm(Bind(a.M, e.n, a.d), a.d) ELSE Norm(Bind([a.M EXCEPT !.cells[a.d].rv = FALSE], e.n, a.d), a.d))   \* binding a name resets the flag
    [] e.k = "global" -> (LET a == Ev(e.e, M) IN IF a.ctl # "norm" THEN a ELSE    \* global n = e
                          IF FindSeq(a.M.globals, e.n) # 0 THEN Assign(a.M, FindSeq(a.M.globals, e.n), Val(a.M, a.d)) ELSE
                          LET k == Clone(a.M, Val(a.M, a.d)) IN Norm([k.M EXCEPT !.globals = Append(@, <<e.n, k.d>>)], k.d))
    [] e.k = "asg" -> (LET a == Ev(e.e, M) IN IF a.ctl # "norm" THEN a ELSE       \* rhs first, then the target
                       LET l == Ev(e.l, a.M) IN IF l.ctl # "norm" THEN l ELSE Assign(l.M, l.d, Val(l.M, a.d)))
    [] e.k = "inc" -> (LET l == Ev(e.l, M) IN IF l.ctl # "norm" THEN l ELSE       \* ++x
                       IF Val(l.M, l.d).t # "int" THEN Err(l.M, "ee") ELSE IF l.M.cells[l.d].c THEN Err(l.M, "ee") ELSE
                       Norm([l.M EXCEPT !.cells[l.d].v = VInt(@.i + 1)], l.d))
    [] e.k = "casg" -> (LET a == Ev(e.e, M) IN IF a.ctl # "norm" THEN a ELSE      \* x += e, x -= e, x *= e: rhs first; the target must be a non-const cell
                        LET l == Ev(e.l, a.M) IN IF l.ctl # "norm" THEN l ELSE
                        LET x == Val(l.M, l.d)  y == Val(l.M, a.d) IN
                        IF l.d = 0 \/ l.M.cells[l.d].c \/ l.M.cells[l.d].rv THEN Err(l.M, "ee")
                        ELSE IF x.t = "int" /\ y.t = "int" THEN
                               (LET v == BinOp(l.M, e.bop, x, y) IN IF v.t = "bad" THEN R(l.M, "fuel", 0) ELSE Norm([l.M EXCEPT !.cells[l.d].v = v], l.d))
                        ELSE IF x.t = "str" /\ y.t = "str" /\ e.op = "+=" THEN Norm([l.M EXCEPT !.cells[l.d].v = VStr(x.s \o y.s)], l.d)
                        ELSE Err(l.M, "ee"))
    [] e.k = "out" -> (LET a == Ev(e.e, M) IN IF a.ctl # "norm" THEN a ELSE
                       IF ~Printable(a.M, Val(a.M, a.d)) THEN Err(a.M, "ee") ELSE
                       Norm([a.M EXCEPT !.out = Append(@, ToStr(a.M, Val(a.M, a.d)))], 0))
    [] e.k = "block" -> Block(e.b, M)
    [] e.k = "if" -> (LET c == Ev(e.c, M) IN IF c.ctl # "norm" THEN c ELSE
                      IF Val(c.M, c.d).t # "bool" THEN Err(c.M, "ee") ELSE
                      IF Val(c.M, c.d).i = 1 THEN Block(e.t, c.M) ELSE
                      LET ei == ElseIfs(e.ei, 1, c.M) IN
                      IF ei.taken THEN ei.r ELSE IF e.haselse THEN Block(e.f, ei.r.M) ELSE Norm(ei.r.M, 0))
    [] e.k = "while" -> While(e, M)
    [] e.k = "for" -> (LET M1 == PushScope(M)
                           i == Ev(e.i, M1) IN
                       IF i.ctl # "norm" THEN R(PopScope(i.M), i.ctl, 0) ELSE
                       LET r == ForLoop(e, i.M) IN R(PopScope(r.M), r.ctl, IF r.ctl = "ret" THEN r.d ELSE 0))
    [] e.k = "rfor" -> (LET c == Ev(e.e, M) IN IF c.ctl # "norm" THEN c ELSE
                        IF Val(c.M, c.d).t = "map" THEN RForMap(e, Val(c.M, c.d).r, 1, c.M)
                        ELSE IF Val(c.M, c.d).t # "vec" THEN Err(c.M, "ee") ELSE RFor(e, c.M.objs[Val(c.M, c.d).r].e, 1, c.M))
    [] e.k = "switch" -> (LET s == Ev(e.e, M) IN IF s.ctl # "norm" THEN s ELSE
                          LET r == Cases(e.cases, 1, PushScope(s.M), Val(s.M, s.d), FALSE) IN R(PopScope(r.M), r.ctl, IF r.ctl = "ret" THEN r.d ELSE 0))
    [] e.k = "interp" -> Interp(e.parts, 1, M, "")
    [] e.k = "range" ->           \* [lo..hi]: generate_range(lo, hi) - a fresh Vector of fresh elements on every evaluation
        (LET a == Ev(e.lo, M) IN IF a.ctl # "norm" THEN a ELSE
         LET b == Ev(e.hi, a.M) IN IF b.ctl # "norm" THEN b ELSE
         IF Val(b.M, a.d).t # "int" \/ Val(b.M, b.d).t # "int" THEN Err(b.M, "ee") ELSE
         LET lo == Val(b.M, a.d).i  hi == Val(b.M, b.d).i
             n == IF hi >= lo THEN hi - lo + 1 ELSE 0
             Mc == [b.M EXCEPT !.cells = @ \o [k \in 1..n |-> [v |-> VInt(lo + k - 1), c |-> FALSE, rv |-> FALSE]]]
             Mo == NewObj(Mc, Obj("vec", "", <<>>, [k \in 1..n |-> Len(b.M.cells) + k], NoAst, <<>>))
         IN IF n > 20 THEN R(b.M, "fuel", 0) ELSE Temp(Mo, VRef("vec", LastObj(Mo))))
    [] e.k = "throw" -> (LET a == Ev(e.e, M) IN IF a.ctl # "norm" THEN a ELSE IF a.d = 0 THEN Err(a.M, "ee") ELSE Thr(a.M, a.d))
    [] e.k = "try" ->             \* try { b } catch(ty n) { h } ... finally { f }   (C10's reference semantics inside the language model)
        (LET b == Block(e.b, PushScope(M))                      \* the Try node's own scope around the body block
             c == IF b.ctl \in {"thr", "err"} THEN TryClauses(e.cl, 1, b, b.M) ELSE b
             Mc == PopScope(c.M)
         IN IF ~e.hasfin THEN R(Mc, c.ctl, c.d)
            ELSE LET f == Block(e.fin, Mc) IN
                 IF f.ctl # "norm" THEN f                         \* the finally block's own abrupt end replaces what was pending
                 \* the pending exception / return / break continues after finally ran once - with ITS value, class and call stack,
                 \* whatever the finally block threw and caught inside itself in the meantime
                 ELSE IF c.ctl # "norm" THEN R([f.M EXCEPT !.thrown = c.M.thrown, !.err = c.M.err, !.stack = c.M.stack], c.ctl, c.d)
                 ELSE f)                                          \* the value of the statement is the finally block's
    [] e.k = "break" -> R(M, "brk", 0)
    [] e.k = "continue" -> R(M, "cont", 0)
    [] e.k = "ret" -> (LET a == Ev(e.e, M) IN IF a.ctl # "norm" THEN a ELSE R(a.M, "ret", a.d))
    [] e.k = "def" ->            \* same name and same parameter types twice: "Function redefined"
        (IF \E i \in 1..Len(M.funs) : M.funs[i].name = e.n /\ Len(M.funs[i].params) = Len(e.params) /\ M.funs[i].guarded = e.guarded
                                       /\ (\A k \in 1..Len(e.params) : M.funs[i].params[k].ty = e.params[k].ty) /\ ~e.guarded
           THEN Err(M, "ee")
           ELSE Norm([M EXCEPT !.funs = Append(@, [name |-> e.n, params |-> e.params, guarded |-> e.guarded, guard |-> e.guard, b |-> e.b, idx |-> Len(M.funs) + 1])], 0))
    [] e.k = "class" -> Norm([M EXCEPT !.classes = Append(@, e)], 0)
    [] e.k = "expr" -> (LET a == Ev(e.e, M) IN IF a.ctl # "norm" THEN a ELSE Norm(a.M, a.d))

\* a whole program: top-level statements in the base scope; return at top level ends eval with that value
Run(prog) == LET r == EvSeq(prog, 1, M0) IN
             [out |-> r.M.out,
              oc |-> IF r.ctl = "err" THEN r.M.err ELSE IF r.ctl = "fuel" THEN "fuel" ELSE IF r.ctl \in {"brk", "cont"} THEN "ee" ELSE IF r.ctl = "thr" THEN "bv" ELSE "val",
              v |-> IF r.ctl \in {"norm", "ret"} /\ r.d # 0 /\ Printable(r.M, Val(r.M, r.d)) THEN TypeName(Val(r.M, r.d)) \o ":" \o ToStr(r.M, Val(r.M, r.d))
                    ELSE IF r.ctl = "thr" /\ Printable(r.M, Val(r.M, r.M.thrown)) THEN TypeName(Val(r.M, r.M.thrown)) \o ":" \o ToStr(r.M, Val(r.M, r.M.thrown)) ELSE "",
              balanced |-> Len(r.M.frames) = 1 /\ Len(r.M.frames[1]) = 1]

\* C08: a program given as SEGMENTS evaluated one after the other in the same engine (an error ends its segment only: the
\* engine restores its stacks, C09).  Result per segment, and whether the literals of the tree are still what was parsed.
RECURSIVE RunSegs(_, _, _, _)
RunSegs(segs, i, M, acc) ==
  IF i > Len(segs) THEN acc
  ELSE LET r == EvSeq(segs[i].b, 1, [M EXCEPT !.out = <<>>, !.err = "", !.stack = <<>>])
           res == [out |-> r.M.out,
                   oc |-> IF r.ctl = "err" THEN r.M.err ELSE IF r.ctl = "fuel" THEN "fuel" ELSE IF r.ctl \in {"brk", "cont"} THEN "ee" ELSE IF r.ctl = "thr" THEN "bv" ELSE "val",
                   v |-> IF r.ctl \in {"norm", "ret"} /\ r.d # 0 /\ Printable(r.M, Val(r.M, r.d)) THEN TypeName(Val(r.M, r.d)) \o ":" \o ToStr(r.M, Val(r.M, r.d)) ELSE "",
                   astok |-> AstUnchanged(r.M), stack |-> IF r.ctl = "err" THEN r.M.stack ELSE <<>>]
           Mn == [r.M EXCEPT !.frames = << << r.M.frames[1][1] >> >>]
       IN RunSegs(segs, i + 1, Mn, Append(acc, res))

\* (the operators that read IOEnv.IN / write IOEnv.OUT live in the *Export modules and take an argument: TLC evaluates every
\*  zero-arity constant definition of all extended modules eagerly, so two such definitions writing the same file would race)
VARIABLE dummy
Init == dummy = 0
Next == UNCHANGED dummy
=============================================================================
