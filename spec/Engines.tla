------------------------------ MODULE Engines ------------------------------
(* C14: engine instances are isolated from one another.                                     *)
(*                                                                                          *)
(* Per-thread evaluation state lives in chaiscript::detail::threading::Thread_Storage<T>,   *)
(* a thread_local map from a KEY to T.  The model keeps, per thread, that map (tls), next   *)
(* to the truth the property speaks about: what has been declared ON THIS ENGINE by THIS    *)
(* thread since the engine was created (decls).  Engines are created at addresses, by the   *)
(* main thread or by a worker; the key of an engine's storage is chosen at creation:         *)
(*   KeyMode = "unique"     a process-unique id (the code after the repair),                 *)
(*   KeyMode = "address"    the engine's address (the pinned code: `this`),                  *)
(*   KeyMode = "perthread"  the creating thread's own creation count (a modelled regression: *)
(*                          a thread_local counter instead of a process-wide one).           *)
(* The destructor erases only the destroying thread's entry.                                 *)
(* Isolated: what any thread sees in any live engine is exactly what was declared there.    *)
EXTENDS Integers, Sequences, FiniteSets, TLC, Json, IOUtils, SequencesExt

CONSTANTS KeyMode, MaxOps,
          WithConvs,       \* the state machine explores either the variable/function histories or, in addition, the conversion histories
          CacheShared      \* FALSE: each thread caches the set of convertible types PER ENGINE (the code); TRUE models a regression: one cache per thread

EngIds == {1, 2, 3}
Addrs == {0, 1}
Thrs == {0, 1, 2}                 \* 0 = main thread, 1..2 long-lived workers
Names == {"x", "y"}
Convs == {"1", "2"}             \* user conversions From<k> -> To<k>; an engine knows one only if it was registered in THAT engine

Op(k, e, a, t, n) == [k |-> k, e |-> e, a |-> a, t |-> t, n |-> n]

\* machine m: [alive: [EngIds -> BOOLEAN], addr, everLive, tls: [Thrs -> [key -> set of names]], decls: [EngIds \X Thrs -> set], fns: [EngIds -> set]]
Keys == Addrs \cup {10 + e : e \in EngIds} \cup {20 + k : k \in 1..Cardinality(EngIds)}
KeyOf(m, e) == m.key[e]
NewKey(m, op) == CASE KeyMode = "address" -> op.a [] KeyMode = "unique" -> 10 + op.e [] KeyMode = "perthread" -> 20 + m.cnt[op.t] + 1
M0 == [alive |-> [e \in EngIds |-> FALSE], used |-> [e \in EngIds |-> FALSE], addr |-> [e \in EngIds |-> 0],
       key |-> [e \in EngIds |-> 0], cnt |-> [t \in Thrs |-> 0],
       tls |-> [t \in Thrs |-> [k \in Keys |-> {}]],
       convs |-> [e \in EngIds |-> {}],                                  \* registered in the engine (shared by all threads, behind the engine's mutex)
       cache |-> [t \in Thrs |-> [k \in Keys \cup {99} |-> {}]],          \* Type_Conversions::thread_cache(): refreshed when its SIZE differs from the engine's
       decls |-> [p \in EngIds \X Thrs |-> {}], fns |-> [e \in EngIds |-> {}], res |-> "ok"]

AddrFree(m, a) == \A e \in EngIds : m.alive[e] => m.addr[e] # a

Step(m, op) ==
  CASE op.k = "create" ->
         (IF m.used[op.e] \/ ~AddrFree(m, op.a) THEN [m EXCEPT !.res = "skip"]
          ELSE [m EXCEPT !.alive[op.e] = TRUE, !.used[op.e] = TRUE, !.addr[op.e] = op.a, !.key[op.e] = NewKey(m, op), !.cnt[op.t] = @ + 1, !.res = "ok"])
           \* Thread_Storage's constructor does not touch any thread's map: stale entries under the same key stay
    [] op.k = "destroy" ->
         (IF ~m.alive[op.e] THEN [m EXCEPT !.res = "skip"]
          ELSE [m EXCEPT !.alive[op.e] = FALSE, !.res = "ok",
                         !.tls[op.t][KeyOf(m, op.e)] = {},                       \* ~Thread_Storage: t().erase(key) on the destroying thread only
                         !.decls = [p \in EngIds \X Thrs |-> IF p[1] = op.e THEN {} ELSE m.decls[p]],
                         !.fns[op.e] = {}, !.convs[op.e] = {},
                         !.cache[op.t][KeyOf(m, op.e)] = {}])
    [] op.k = "decl" ->      \* `var n = v` evaluated at top level on thread t
         (IF ~m.alive[op.e] THEN [m EXCEPT !.res = "skip"]
          ELSE IF op.n \in m.tls[op.t][KeyOf(m, op.e)] THEN [m EXCEPT !.res = "redefined"]          \* what the implementation sees decides
          ELSE [m EXCEPT !.tls[op.t][KeyOf(m, op.e)] = @ \cup {op.n}, !.decls[<<op.e, op.t>>] = @ \cup {op.n}, !.res = "ok"])
    [] op.k = "def" ->       \* a function defined in one engine
         (IF ~m.alive[op.e] THEN [m EXCEPT !.res = "skip"]
          ELSE IF op.n \in m.fns[op.e] THEN [m EXCEPT !.res = "redefined"]                          \* the same signature twice in ONE engine
          ELSE [m EXCEPT !.fns[op.e] = @ \cup {op.n}, !.res = "ok"])

    [] op.k = "conv" ->      \* chai.add(type_conversion<From<n>, To<n>>())
         (IF ~m.alive[op.e] THEN [m EXCEPT !.res = "skip"]
          ELSE IF op.n \in m.convs[op.e] THEN [m EXCEPT !.res = "redefined"]
          ELSE [m EXCEPT !.convs[op.e] = @ \cup {op.n}, !.res = "ok"])
    [] op.k = "useconv" ->   \* takes_to<n>(from<n>) evaluated on thread t: needs conversion n of THIS engine
         (IF ~m.alive[op.e] THEN [m EXCEPT !.res = "skip"]
          ELSE LET ck == IF CacheShared THEN 99 ELSE KeyOf(m, op.e)
                   old == m.cache[op.t][ck]
                   new == IF Cardinality(old) # Cardinality(m.convs[op.e]) THEN m.convs[op.e] ELSE old       \* stale iff the sizes happen to agree
               IN [m EXCEPT !.cache[op.t][ck] = new,
                            !.res = IF op.n \in new /\ op.n \in m.convs[op.e] THEN "ok" ELSE "noconv"])          \* a cached yes is still confirmed against the engine

\* the property: every thread sees in every live engine exactly what was declared there
IsolatedIn(m) == \A e \in EngIds : m.alive[e] => \A t \in Thrs : m.tls[t][KeyOf(m, e)] = m.decls[<<e, t>>]
\* ... and a conversion is usable in an engine exactly if it was registered in that engine (checked on the step that uses it)
ConvIsolatedStep(m, op, m2) == op.k = "useconv" /\ m.alive[op.e] => (m2.res = "ok") = (op.n \in m.convs[op.e])

\* what the property demands to be visible (used as expectation in mode G)
View(m) == [e \in EngIds |-> [alive |-> m.alive[e], fns |-> m.fns[e], vars |-> <<m.decls[<<e, 0>>], m.decls[<<e, 1>>], m.decls[<<e, 2>>]>>]]

-----------------------------------------------------------------------------
(* mode M: all histories *)
Ops == {Op("create", e, a, t, "") : e \in EngIds, a \in Addrs, t \in Thrs} \cup {Op("destroy", e, 0, t, "") : e \in EngIds, t \in Thrs}
       \cup {Op("decl", e, 0, t, n) : e \in EngIds, t \in Thrs, n \in Names} \cup {Op("def", e, 0, 0, n) : e \in EngIds, n \in {"f"}}
       \cup (IF WithConvs THEN {Op("conv", e, 0, 0, n) : e \in EngIds, n \in Convs} \cup {Op("useconv", e, 0, t, n) : e \in EngIds, t \in {0, 1}, n \in Convs} ELSE {})

VARIABLES m, steps, convok
vars == <<m, steps, convok>>
Init == m = M0 /\ steps = 0 /\ convok = TRUE
Next == \E op \in Ops : steps < MaxOps /\ LET m2 == Step(m, op) IN m2.res \in {"ok", "noconv"} /\ m' = m2 /\ steps' = steps + 1
                                        /\ convok' = (convok /\ ConvIsolatedStep(m, op, m2))
Spec == Init /\ [][Next]_vars
Isolated == IsolatedIn(m)
ConvIsolated == convok
\* the step counter only bounds the exploration; states are identified without it
StateView == <<m, convok>>

-----------------------------------------------------------------------------
(* mode G: histories drawn by the caller, expectations computed here *)
RECURSIVE RunH(_, _, _)
RunH(mm, ops, i) == IF i > Len(ops) THEN <<>>
                    ELSE LET m2 == Step(mm, ops[i]) IN <<[res |-> m2.res, view |-> View(m2)]>> \o RunH(m2, ops, i + 1)
Export == LET hs == ndJsonDeserialize(IOEnv.IN) IN
          ndJsonSerialize(IOEnv.OUT, [i \in 1..Len(hs) |-> [id |-> hs[i].id, ops |-> hs[i].ops, expect |-> RunH(M0, hs[i].ops, 1)]])
=============================================================================
