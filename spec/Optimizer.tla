----------------------------- MODULE Optimizer -----------------------------
(* C02: the AST optimizer never changes what a program does.                                 *)
(* The passes of chaiscript_optimizer.hpp whose effect is expressible on the ChaiCore AST,   *)
(* as rewrites applied bottom-up in the order of Optimizer_Default:                          *)
(*   Constant_Fold  a binary / prefix operator on two literals becomes the literal result    *)
(*                  (only when the operation does not fail), && || on two boolean literals   *)
(*   If             `if (literal)` is replaced by the branch taken                           *)
(*   Dead_Code      non-last children of a block that are constants (DropIds: and bare       *)
(*                  identifiers, the pinned behaviour) are removed                           *)
(*   Return         a trailing `return e` of a function body becomes `e`                     *)
(*   Partial_Fold   `e op <number literal>` keeps the literal inside the node, which then    *)
(*                  takes the numeric shortcut whenever e evaluates to a number.             *)
(*                  FoldAnyRight = TRUE is a modelled regression: any literal is captured.   *)
(*   FoldLeftConst = TRUE is another: && / || folded as soon as the LEFT operand is constant. *)
(* (Block -> Scopeless_Block, For_Loop -> compiled loop, Assign_Decl and Unused_Return       *)
(*  change no ChaiCore-observable behaviour by construction; their effect on the real        *)
(*  engine is covered by the differential replay with both parsers.)                         *)
(* OptEquiv: Run(Opt(p)) = Run(p) for every program handed in.                               *)
EXTENDS ChaiCore

CONSTANTS DropIds, FoldAnyRight, FoldLeftConst

IsLit(e) == e.k \in {"int", "bool", "str"}
IntLit(v) == [k |-> "int", v |-> v]
BoolLit(b) == [k |-> "bool", v |-> b]

FoldBin(e) ==
  IF e.l.k = "int" /\ e.r.k = "int" /\ e.op \in IntOps THEN
     (LET v == BinOp(M0, e.op, VInt(e.l.v), VInt(e.r.v)) IN
      IF v.t = "int" THEN IntLit(v.i) ELSE IF v.t = "bool" THEN BoolLit(v.i = 1) ELSE e)          \* a failing fold (1 / 0) is left for run time
  ELSE IF e.l.k = "bool" /\ e.r.k = "bool" /\ e.op \in {"==", "!="} THEN BoolLit(IF e.op = "==" THEN e.l.v = e.r.v ELSE e.l.v # e.r.v)
  ELSE IF ~IsLit(e.l) /\ (e.r.k = "int" \/ (FoldAnyRight /\ IsLit(e.r))) THEN [k |-> "foldr", op |-> e.op, l |-> e.l, c |-> e.r]     \* Partial_Fold
  ELSE e

RECURSIVE OptE(_), OptS(_), OptSeq(_, _), OptArgs(_, _), OptCases(_, _), OptEis(_, _), OptMethods(_, _), OptPairs(_, _), OptClauses(_, _)
OptArgs(as, i) == IF i > Len(as) THEN <<>> ELSE <<OptE(as[i])>> \o OptArgs(as, i + 1)
OptPairs(ps, i) == IF i > Len(ps) THEN <<>> ELSE << <<ps[i][1], OptE(ps[i][2])>> >> \o OptPairs(ps, i + 1)
\* Dead_Code on a statement list (a Block): constants (and ids) in non-last position disappear
Dead(b) == SelectSeq([i \in 1..Len(b) |-> [s |-> b[i], last |-> i = Len(b)]],
                     LAMBDA x : x.last \/ ~(x.s.k = "expr" /\ (IsLit(x.s.e) \/ (DropIds /\ x.s.e.k = "id"))))
Strip(xs) == [i \in 1..Len(xs) |-> xs[i].s]
OptSeq(b, i) == IF i > Len(b) THEN <<>> ELSE <<OptS(b[i])>> \o OptSeq(b, i + 1)
OptBody(b) == Strip(Dead(OptSeq(b, 1)))
\* Return pass: trailing `return e` of a function body
FunBody(b) == LET o == OptBody(b) IN
              IF Len(o) > 0 /\ o[Len(o)].k = "ret" THEN [o EXCEPT ![Len(o)] = [k |-> "expr", e |-> o[Len(o)].e]] ELSE o
OptCases(cs, i) == IF i > Len(cs) THEN <<>> ELSE <<[cs[i] EXCEPT !.v = OptE(cs[i].v), !.b = OptBody(cs[i].b)]>> \o OptCases(cs, i + 1)
OptEis(eis, i) == IF i > Len(eis) THEN <<>> ELSE <<[c |-> OptE(eis[i].c), b |-> OptBody(eis[i].b)]>> \o OptEis(eis, i + 1)
OptClauses(cl, i) == IF i > Len(cl) THEN <<>> ELSE <<[cl[i] EXCEPT !.h = OptBody(cl[i].h)]>> \o OptClauses(cl, i + 1)
OptMethods(ms, i) == IF i > Len(ms) THEN <<>> ELSE <<[ms[i] EXCEPT !.b = FunBody(ms[i].b)]>> \o OptMethods(ms, i + 1)

OptE(e) ==
  CASE e.k \in {"int", "bool", "str", "id"} -> e
    [] e.k = "bin" -> FoldBin([e EXCEPT !.l = OptE(e.l), !.r = OptE(e.r)])
    [] e.k \in {"and", "or"} -> (LET l == OptE(e.l)  r == OptE(e.r) IN
                                 IF l.k = "bool" /\ r.k = "bool" THEN BoolLit(IF e.k = "and" THEN l.v /\ r.v ELSE l.v \/ r.v)
                                 \* modelled regression: a constant LEFT operand is enough - `true && x` and `false || x` become x itself
                                 \* (losing the check that x is boolean and the fresh const result), `false && x` / `true || x` the constant
                                 ELSE IF FoldLeftConst /\ l.k = "bool" THEN
                                        (IF e.k = "and" THEN (IF l.v THEN r ELSE BoolLit(FALSE)) ELSE (IF l.v THEN BoolLit(TRUE) ELSE r))
                                 ELSE [e EXCEPT !.l = l, !.r = r])
    [] e.k = "not" -> [e EXCEPT !.e = OptE(e.e)]                      \* not folded: the run-time operator yields a non-const temporary
    [] e.k = "neg" -> (LET x == OptE(e.e) IN IF x.k = "int" THEN IntLit(0 - x.v) ELSE [e EXCEPT !.e = x])
    [] e.k = "tern" -> [e EXCEPT !.c = OptE(e.c), !.t = OptE(e.t), !.f = OptE(e.f)]
    [] e.k = "range" -> [e EXCEPT !.lo = OptE(e.lo), !.hi = OptE(e.hi)]
    [] e.k = "interp" -> e                          \* the text of an interpolation is parsed when the literal is, by the same parser: optimized alike; the model leaves it
    [] e.k = "call" -> [e EXCEPT !.a = OptArgs(e.a, 1)]
    [] e.k = "lambda" -> [e EXCEPT !.b = FunBody(e.b)]
    [] e.k = "vec" -> [e EXCEPT !.a = OptArgs(e.a, 1)]
    [] e.k = "map" -> [e EXCEPT !.a = OptPairs(e.a, 1)]
    [] e.k = "idx" -> [e EXCEPT !.e = OptE(e.e), !.i = OptE(e.i)]
    [] e.k = "attr" -> [e EXCEPT !.e = OptE(e.e)]
    [] e.k = "dot" -> [e EXCEPT !.e = OptE(e.e), !.a = OptArgs(e.a, 1)]

OptS(s) ==
  CASE s.k \in {"var", "ref", "global", "out", "expr", "ret"} -> [s EXCEPT !.e = OptE(s.e)]
    [] s.k = "asg" -> [s EXCEPT !.l = OptE(s.l), !.e = OptE(s.e)]
    [] s.k = "inc" -> [s EXCEPT !.l = OptE(s.l)]
    [] s.k = "block" -> [s EXCEPT !.b = OptBody(s.b)]
    [] s.k = "if" -> (LET c == OptE(s.c)  t == OptBody(s.t)  ei == OptEis(s.ei, 1)  f == OptBody(s.f) IN
                      IF c.k = "bool" /\ c.v THEN [k |-> "block", b |-> t]                                   \* If pass: the branch taken
                      ELSE IF c.k = "bool" /\ ~c.v /\ s.ei = <<>> /\ s.haselse THEN [k |-> "block", b |-> f]
                      ELSE [s EXCEPT !.c = c, !.t = t, !.ei = ei, !.f = f])
    [] s.k = "while" -> [s EXCEPT !.c = OptE(s.c), !.b = OptBody(s.b)]
    [] s.k = "for" -> [s EXCEPT !.i = OptS(s.i), !.c = OptE(s.c), !.s = OptS(s.s), !.b = OptBody(s.b)]
    [] s.k = "rfor" -> [s EXCEPT !.e = OptE(s.e), !.b = OptBody(s.b)]
    [] s.k = "switch" -> [s EXCEPT !.e = OptE(s.e), !.cases = OptCases(s.cases, 1)]
    [] s.k \in {"break", "continue"} -> s
    [] s.k = "throw" -> [s EXCEPT !.e = OptE(s.e)]
    [] s.k = "try" -> [s EXCEPT !.b = OptBody(s.b), !.cl = OptClauses(s.cl, 1), !.fin = OptBody(s.fin)]
    [] s.k = "def" -> [s EXCEPT !.guard = OptE(s.guard), !.b = FunBody(s.b)]
    [] s.k = "class" -> [s EXCEPT !.ctor.b = FunBody(s.ctor.b), !.methods = OptMethods(s.methods, 1)]

\* the top level of a file is not a Block: Dead_Code does not apply there
Opt(prog) == OptSeq(prog, 1)

CoreProgs(x) == ndJsonDeserialize(IOEnv.IN)
View(r) == [out |-> r.out, oc |-> r.oc, v |-> r.v]
ExportOpt(x) == LET ps == CoreProgs(x) IN
                ndJsonSerialize(IOEnv.OUT, [i \in 1..Len(ps) |->
                LET p == ps[i].prog  o == Opt(p) IN
                [id |-> ps[i].id, plain |-> View(Run(p)), optimized |-> View(Run(o)), changed |-> (o # p)]])
=============================================================================
