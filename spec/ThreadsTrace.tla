--------------------------- MODULE ThreadsTrace ---------------------------
(* Mode V for C13: validates a merged multi-threaded execution of one engine against the lock   *)
(* discipline and the data laws of Threads.tla.  Events (hooks H3/H4, ordered by a sequence      *)
(* number taken INSIDE the critical section):                                                    *)
(*   acq/rel  o = mutex, a = 1 exclusive / 0 shared      must respect mutual exclusion             *)
(*   acc      o = guarding mutex, n = variable, a = 1 write / 0 read                               *)
(*            a write needs the mutex exclusively, a read at least shared: a dropped or weakened  *)
(*            lock is rejected at the first access, whether or not the race manifests             *)
(*   reg      add_function published overload vector of size a for name n, under the lock:        *)
(*            sizes of one name grow by exactly one per registration (none lost)                   *)
(*   use? use! use=   use(): membership test (a = 1 found), evaluation, mark - a file is evaluated *)
(*            at most once, only by a thread holding the use mutex, and the test tells the truth   *)
(*   stk      o = a per-thread scope/call stack holder touched by the scope machine: a holder      *)
(*            belongs to ONE thread - whoever touches it first - until that thread ends (tend)     *)
EXTENDS Integers, Sequences, FiniteSets, TLC, Json, IOUtils

Tr == ndJsonDeserialize(IOEnv.TRACE)

Mx == {Tr[i].o : i \in 1..Len(Tr)}
Th == {Tr[i].t : i \in 1..Len(Tr)}
RegNames == {Tr[i].n : i \in {j \in 1..Len(Tr) : Tr[j].e = "reg"}}
UseFiles == {Tr[i].n : i \in {j \in 1..Len(Tr) : Tr[j].e \in {"use?", "use!", "use="}}}

VARIABLES l,
          xo, xd,    \* exclusive owner (0 = none) and recursion depth per mutex
          sh,        \* [mutex -> [thread -> number of shared holds]]
          cnt,       \* [name -> size of the published overload vector, -1 = not seen yet]
          used, evals,
          own        \* [holder -> thread that owns it, 0 = not touched yet]
vars == <<l, xo, xd, sh, cnt, used, evals, own>>

Init == /\ l = 1
        /\ xo = [m \in Mx |-> 0] /\ xd = [m \in Mx |-> 0]
        /\ sh = [m \in Mx |-> [t \in Th |-> 0]]
        /\ cnt = [n \in RegNames |-> -1]
        /\ used = {} /\ evals = [f \in UseFiles |-> 0]
        /\ own = [m \in Mx |-> 0]

E == Tr[l]
T == E.t + 1000          \* thread ids start at 0; 0 means "no owner"
K(k) == l <= Len(Tr) /\ E.e = k /\ l' = l + 1
OthersShare(m) == \E t \in Th : t # E.t /\ sh[m][t] > 0
HoldsX(m) == xo[m] = T
HoldsS(m) == sh[m][E.t] > 0

AcqX == /\ K("acq") /\ E.a = 1
        /\ (xo[E.o] = 0 \/ xo[E.o] = T)          \* free, or re-entered by its owner (recursive mutex)
        /\ ~OthersShare(E.o) /\ sh[E.o][E.t] = 0
        /\ xo' = [xo EXCEPT ![E.o] = T] /\ xd' = [xd EXCEPT ![E.o] = @ + 1]
        /\ UNCHANGED <<sh, cnt, used, evals, own>>
RelX == /\ K("rel") /\ E.a = 1 /\ HoldsX(E.o)
        /\ xd' = [xd EXCEPT ![E.o] = @ - 1]
        /\ xo' = [xo EXCEPT ![E.o] = IF xd[E.o] = 1 THEN 0 ELSE T]
        /\ UNCHANGED <<sh, cnt, used, evals, own>>
AcqS == /\ K("acq") /\ E.a = 0 /\ xo[E.o] = 0
        /\ sh' = [sh EXCEPT ![E.o][E.t] = @ + 1]
        /\ UNCHANGED <<xo, xd, cnt, used, evals, own>>
RelS == /\ K("rel") /\ E.a = 0 /\ HoldsS(E.o)
        /\ sh' = [sh EXCEPT ![E.o][E.t] = @ - 1]
        /\ UNCHANGED <<xo, xd, cnt, used, evals, own>>
Acc == /\ K("acc")
       /\ IF E.a = 1 THEN HoldsX(E.o) ELSE (HoldsX(E.o) \/ HoldsS(E.o))
       /\ UNCHANGED <<xo, xd, sh, cnt, used, evals, own>>
Reg == /\ K("reg") /\ HoldsX(E.o)
       /\ (cnt[E.n] = -1 \/ E.a = cnt[E.n] + 1)
       /\ E.a >= 1
       /\ cnt' = [cnt EXCEPT ![E.n] = E.a]
       /\ UNCHANGED <<xo, xd, sh, used, evals, own>>
UseTest == /\ K("use?") /\ HoldsX(E.o)
           /\ (E.a = 1) = (E.n \in used)
           /\ UNCHANGED <<xo, xd, sh, cnt, used, evals, own>>
UseEval == /\ K("use!") /\ HoldsX(E.o) /\ E.n \notin used /\ evals[E.n] = 0
           /\ evals' = [evals EXCEPT ![E.n] = 1]
           /\ UNCHANGED <<xo, xd, sh, cnt, used, own>>
UseMark == /\ K("use=") /\ HoldsX(E.o) /\ evals[E.n] = 1
           /\ used' = used \cup {E.n}
           /\ UNCHANGED <<xo, xd, sh, cnt, evals, own>>

Stk == /\ K("stk") /\ (own[E.o] = 0 \/ own[E.o] = T)
       /\ own' = [own EXCEPT ![E.o] = T]
       /\ UNCHANGED <<xo, xd, sh, cnt, used, evals>>

\* a thread that ends gives its holders back (its thread-local storage dies; the address may serve a thread started later)
TEnd == /\ K("tend")
        /\ own' = [m \in Mx |-> IF own[m] = T THEN 0 ELSE own[m]]
        /\ UNCHANGED <<xo, xd, sh, cnt, used, evals>>

Next == AcqX \/ RelX \/ AcqS \/ RelS \/ Acc \/ Reg \/ UseTest \/ UseEval \/ UseMark \/ Stk \/ TEnd
TraceSpec == Init /\ [][Next]_vars

MutualExclusion == \A m \in Mx : xo[m] # 0 => \A t \in Th : (t + 1000 # xo[m]) => sh[m][t] = 0

TraceAccepted == LET d == TLCGet("stats").diameter - 1 IN
                 IF d = Len(Tr) THEN TRUE
                 ELSE /\ PrintT(<<"REJECTED_AT", d + 1, Tr[d + 1]>>)
                      /\ FALSE
=============================================================================
