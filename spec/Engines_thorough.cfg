SPECIFICATION Spec
CONSTANTS
  KeyMode = "unique"
  MaxOps = 8
INVARIANT Isolated
VIEW StateView
CHECK_DEADLOCK FALSE
