SPECIFICATION Spec
CONSTANTS
  KeyIsAddress = FALSE
  MaxOps = 8
INVARIANT Isolated
VIEW StateView
CHECK_DEADLOCK FALSE
