SPECIFICATION Spec
CONSTANTS
  Names = {"a", "h"}
  Sites = {1, 2}
  SiteName <- SiteNameDef
  Prologues <- ProloguesDef
  MaxGuards = 3
  MaxSlots = 3
  MaxFrames = 2
  HintPolicy = "validated"
  ClearSaves = TRUE
  Features = {}
INVARIANTS TypeOK ShapeMatchesGuards CacheInvisible
CHECK_DEADLOCK FALSE
