INIT Init
NEXT Next
