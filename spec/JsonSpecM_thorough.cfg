INIT Init
NEXT Next
CONSTANTS
  MaxTextLen = 5
  MaxDepth = 6
