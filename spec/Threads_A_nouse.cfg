SPECIFICATION Spec
CONSTANTS
  Thr = {1, 2}
  Script <- ScriptA
  LockAdd = TRUE
  UseOuter = FALSE
  CacheLocked = TRUE
INVARIANTS NoConflictingOverlap AllRegistrationsRetained VisibleAfterReturn UsedOnce CacheNeverAhead LockSanity
