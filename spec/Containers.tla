---------------------------- MODULE Containers ----------------------------
(* C12: models of the built-in Vector, string, Map and their Bidir_Range views as the     *)
(* script sees them (include/chaiscript/dispatchkit/bootstrap_stl.hpp), with the std::     *)
(* preconditions made explicit.  Every operation is a total function                       *)
(*        Apply(kind, state, op) = [res, st]                                               *)
(* where res is the std:: result or "throw" when an index, position or emptiness           *)
(* precondition is violated - there is no third possibility (WithinModel).  TLC explores    *)
(* the state graph (Spec) and, for mode G, writes one record per transition; the driver     *)
(* rebuilds each source state, applies the operation through the script API under ASan and  *)
(* compares result and contents.                                                            *)
EXTENDS Integers, Sequences, FiniteSets, TLC, Json, IOUtils, SequencesExt

CONSTANTS MaxLen,     \* longest vector / string explored
          Huge,       \* stands for an index far beyond any size (2^30 in the driver)
          Which       \* SUBSET {"vec","str","map","rng"}: the containers a configuration explores (they are independent)

Vals == {1, 2}                      \* vector element values; 0 is a default-constructed (undefined) element
Chars == {"a", "b"}
Keys == {"a", "b"}

Res(t, i, q) == [t |-> t, i |-> i, q |-> q]
Void == Res("void", 0, <<>>)
Throw == Res("throw", 0, <<>>)
IntR(i) == Res("int", i, <<>>)
SizeR(i) == Res("size", i, <<>>)       \* a size_t result
BoolR(b) == Res("bool", IF b THEN 1 ELSE 0, <<>>)
ElemR(v) == IF v = 0 THEN Res("undef", 0, <<>>) ELSE IntR(v)
CharR(c) == Res("char", 0, <<c>>)
StrR(s) == Res("str", 0, s)
Npos == Res("npos", 0, <<>>)

Op(n, a, b) == [n |-> n, a |-> a, b |-> b, s |-> <<>>]
OpS(n, a, s) == [n |-> n, a |-> a, b |-> 0, s |-> s]

Min2(a, b) == IF a < b THEN a ELSE b
InsAt(s, pos, x) == SubSeq(s, 1, pos) \o <<x>> \o SubSeq(s, pos + 1, Len(s))      \* 0-based pos
EraseAt(s, pos) == SubSeq(s, 1, pos) \o SubSeq(s, pos + 2, Len(s))
Fill(n, x) == [i \in 1..n |-> x]

\* index classes of the property: negative, 0, size-1, size, size+1, huge
IdxClasses(n) == {-1, 0, n - 1, n, n + 1, Huge}
\* the index may arrive in any arithmetic type (b = 1 size_t, 2 long, 3 unsigned int; plain "idx" is an int literal): the bounds rule is the same
IdxTypes == {1, 2, 3}

-----------------------------------------------------------------------------
(* Vector<Boxed_Value> holding ints *)
VecOps(s) ==
   {Op("idx", i, 0) : i \in IdxClasses(Len(s))} \cup {Op("idx_t", i, t) : i \in IdxClasses(Len(s)), t \in IdxTypes}
   \cup {Op("front", 0, 0), Op("back", 0, 0), Op("pop_back", 0, 0),
    Op("clear", 0, 0), Op("size", 0, 0), Op("empty", 0, 0)}
   \cup {Op("push_back", v, 0) : v \in Vals}
   \cup {Op("insert_at", i, 1) : i \in IdxClasses(Len(s))}
   \cup {Op("erase_at", i, 0) : i \in IdxClasses(Len(s))}
   \cup {Op("resize", i, 0) : i \in IdxClasses(Len(s)) \ {Huge}}      \* -1 is the huge size_type; 2^30 elements could really be allocated
   \cup {Op("resize2", i, 2) : i \in IdxClasses(Len(s)) \ {Huge}}
   \cup {Op("reserve", i, 0) : i \in {0, Len(s) + 1}}

ApplyVec(s, op) ==
  LET n == Len(s) IN
  CASE op.n \in {"idx", "idx_t"} -> (IF op.a >= 0 /\ op.a < n THEN [res |-> ElemR(s[op.a + 1]), st |-> s] ELSE [res |-> Throw, st |-> s])
    [] op.n = "front"     -> (IF n = 0 THEN [res |-> Throw, st |-> s] ELSE [res |-> ElemR(s[1]), st |-> s])
    [] op.n = "back"      -> (IF n = 0 THEN [res |-> Throw, st |-> s] ELSE [res |-> ElemR(s[n]), st |-> s])
    [] op.n = "pop_back"  -> (IF n = 0 THEN [res |-> Throw, st |-> s] ELSE [res |-> Void, st |-> SubSeq(s, 1, n - 1)])
    [] op.n = "push_back" -> [res |-> Void, st |-> Append(s, op.a)]
    [] op.n = "insert_at" -> (IF op.a < 0 \/ op.a > n THEN [res |-> Throw, st |-> s] ELSE [res |-> Void, st |-> InsAt(s, op.a, op.b)])
    [] op.n = "erase_at"  -> (IF op.a < 0 \/ op.a >= n THEN [res |-> Throw, st |-> s] ELSE [res |-> Void, st |-> EraseAt(s, op.a)])
    \* a negative int converts to a huge size_type: std::length_error / bad_alloc
    [] op.n = "resize"    -> (IF op.a < 0 \/ op.a >= Huge THEN [res |-> Throw, st |-> s]
                              ELSE [res |-> Void, st |-> IF op.a <= n THEN SubSeq(s, 1, op.a) ELSE s \o Fill(op.a - n, 0)])
    [] op.n = "resize2"   -> (IF op.a < 0 \/ op.a >= Huge THEN [res |-> Throw, st |-> s]
                              ELSE [res |-> Void, st |-> IF op.a <= n THEN SubSeq(s, 1, op.a) ELSE s \o Fill(op.a - n, op.b)])
    [] op.n = "reserve"   -> [res |-> Void, st |-> s]
    [] op.n = "clear"     -> [res |-> Void, st |-> <<>>]
    [] op.n = "size"      -> [res |-> SizeR(n), st |-> s]
    [] op.n = "empty"     -> [res |-> BoolR(n = 0), st |-> s]

-----------------------------------------------------------------------------
(* std::string over {a, b}; a string is a sequence of one-character strings *)
MatchAt(s, sub, i) == \* does sub occur in s at 0-based offset i
   i + Len(sub) <= Len(s) /\ \A k \in 1..Len(sub) : s[i + k] = sub[k]
InSet(c, set) == \E k \in 1..Len(set) : set[k] = c

FindFrom(s, sub, pos) ==   \* std::string::find
   LET cands == {i \in 0..Len(s) : i >= pos /\ MatchAt(s, sub, i)} IN
   IF cands = {} THEN -1 ELSE CHOOSE i \in cands : \A j \in cands : i <= j
RFindFrom(s, sub, pos) ==  \* std::string::rfind: last occurrence starting at or before pos
   LET cands == {i \in 0..Len(s) : i <= pos /\ MatchAt(s, sub, i)} IN
   IF cands = {} THEN -1 ELSE CHOOSE i \in cands : \A j \in cands : i >= j
FirstOf(s, set, pos, want) ==  \* find_first_of (want = TRUE) / find_first_not_of (want = FALSE)
   LET cands == {i \in 0..(Len(s) - 1) : i >= pos /\ (InSet(s[i + 1], set) = want)} IN
   IF cands = {} THEN -1 ELSE CHOOSE i \in cands : \A j \in cands : i <= j
LastOf(s, set, pos, want) ==
   LET cands == {i \in 0..(Len(s) - 1) : i <= pos /\ (InSet(s[i + 1], set) = want)} IN
   IF cands = {} THEN -1 ELSE CHOOSE i \in cands : \A j \in cands : i >= j
Pos(r) == IF r < 0 THEN Npos ELSE SizeR(r)

Subs == {<<>>, <<"a">>, <<"b">>, <<"a", "b">>}
\* size_t parameters: a negative script int cannot convert silently; positions are 0, size-1, size, size+1, huge
PosClasses(n) == {0, n, n + 1, Huge} \cup (IF n > 0 THEN {n - 1} ELSE {})

StrOps(s) ==
   {Op("idx", i, 0) : i \in IdxClasses(Len(s))} \cup {Op("idx_t", i, t) : i \in IdxClasses(Len(s)), t \in IdxTypes}
   \cup {Op("clear", 0, 0), Op("size", 0, 0), Op("empty", 0, 0)}
   \cup {OpS("push_back", 0, <<c>>) : c \in Chars}
   \cup {OpS("append", 0, sub) : sub \in {<<>>, <<"a", "b">>}}
   \* -1 is the size_type maximum (npos): as a length it is the "to the end" idiom and pos + len wraps around; as a position it is beyond any size
   \cup {Op("substr", p, l) : p \in PosClasses(Len(s)) \cup {-1}, l \in {0, 1, Huge, -1, -2}}
   \cup {OpS(f, p, sub) : f \in {"find", "rfind", "find_first_of", "find_last_of", "find_first_not_of", "find_last_not_of"},
                          p \in PosClasses(Len(s)), sub \in Subs}
   \cup {Op("insert_at", i, 0) : i \in IdxClasses(Len(s))}
   \cup {Op("erase_at", i, 0) : i \in IdxClasses(Len(s))}

ApplyStr(s, op) ==
  LET n == Len(s) IN
  CASE op.n \in {"idx", "idx_t"} -> (IF op.a >= 0 /\ op.a < n THEN [res |-> CharR(s[op.a + 1]), st |-> s] ELSE [res |-> Throw, st |-> s])
    [] op.n = "clear"     -> [res |-> Void, st |-> <<>>]
    [] op.n = "size"      -> [res |-> SizeR(n), st |-> s]
    [] op.n = "empty"     -> [res |-> BoolR(n = 0), st |-> s]
    [] op.n = "push_back" -> [res |-> Void, st |-> s \o op.s]
    [] op.n = "append"    -> [res |-> StrR(s \o op.s), st |-> s \o op.s]       \* s += t returns the string
    [] op.n = "substr"    -> (IF op.a < 0 \/ op.a > n THEN [res |-> Throw, st |-> s]
                              ELSE [res |-> StrR(SubSeq(s, op.a + 1, IF op.b < 0 THEN n ELSE Min2(n, op.a + op.b))), st |-> s])
    [] op.n = "find"      -> [res |-> Pos(FindFrom(s, op.s, op.a)), st |-> s]
    [] op.n = "rfind"     -> [res |-> Pos(RFindFrom(s, op.s, op.a)), st |-> s]
    [] op.n = "find_first_of"     -> [res |-> Pos(FirstOf(s, op.s, op.a, TRUE)), st |-> s]
    [] op.n = "find_first_not_of" -> [res |-> Pos(FirstOf(s, op.s, op.a, FALSE)), st |-> s]
    [] op.n = "find_last_of"      -> [res |-> Pos(LastOf(s, op.s, op.a, TRUE)), st |-> s]
    [] op.n = "find_last_not_of"  -> [res |-> Pos(LastOf(s, op.s, op.a, FALSE)), st |-> s]
    [] op.n = "insert_at" -> (IF op.a < 0 \/ op.a > n THEN [res |-> Throw, st |-> s] ELSE [res |-> Void, st |-> InsAt(s, op.a, "b")])
    [] op.n = "erase_at"  -> (IF op.a < 0 \/ op.a >= n THEN [res |-> Throw, st |-> s] ELSE [res |-> Void, st |-> EraseAt(s, op.a)])

-----------------------------------------------------------------------------
(* Map<string, Boxed_Value>: a function from a subset of Keys to values (0 = undefined element) *)
MapStates == UNION {[ks -> Vals \cup {0}] : ks \in SUBSET Keys}
MapOps(m) == {OpS(f, 0, <<k>>) : f \in {"idx", "at", "count", "erase"}, k \in Keys \cup {"z"}}
             \cup {Op("size", 0, 0), Op("empty", 0, 0), Op("clear", 0, 0)}
             \cup {OpS("set", v, <<k>>) : v \in Vals, k \in Keys}
Without(m, k) == [x \in (DOMAIN m) \ {k} |-> m[x]]
With(m, k, v) == [x \in (DOMAIN m) \cup {k} |-> IF x = k THEN v ELSE m[x]]
\* "z" is a key no state contains: m["z"] inserts an undefined element (the state machine does not follow that edge, mode G replays it)
ApplyMap(m, op) ==
  LET k == IF op.s = <<>> THEN "" ELSE op.s[1] IN
  CASE op.n = "idx"   -> (IF k \in DOMAIN m THEN [res |-> ElemR(m[k]), st |-> m]
                          ELSE [res |-> ElemR(0), st |-> With(m, k, 0)])                \* operator[] inserts
    [] op.n = "at"    -> (IF k \in DOMAIN m THEN [res |-> ElemR(m[k]), st |-> m] ELSE [res |-> Throw, st |-> m])
    [] op.n = "count" -> [res |-> SizeR(IF k \in DOMAIN m THEN 1 ELSE 0), st |-> m]
    [] op.n = "erase" -> [res |-> SizeR(IF k \in DOMAIN m THEN 1 ELSE 0), st |-> Without(m, k)]
    [] op.n = "set"   -> [res |-> Void, st |-> With(m, k, op.a)]                  \* m[k] = v
    [] op.n = "size"  -> [res |-> SizeR(Cardinality(DOMAIN m)), st |-> m]
    [] op.n = "empty" -> [res |-> BoolR(DOMAIN m = {}), st |-> m]
    [] op.n = "clear" -> [res |-> Void, st |-> [x \in {} |-> 0]]

-----------------------------------------------------------------------------
(* Bidir_Range over a vector that is not structurally modified: (contents, b, e), the view is s[b+1..e] *)
RangeOps == {Op(f, 0, 0) : f \in {"empty", "front", "back", "pop_front", "pop_back"}}
ApplyRange(r, op) ==
  LET em == r.b = r.e IN
  CASE op.n = "empty"     -> [res |-> BoolR(em), st |-> r]
    [] op.n = "front"     -> (IF em THEN [res |-> Throw, st |-> r] ELSE [res |-> ElemR(r.s[r.b + 1]), st |-> r])
    [] op.n = "back"      -> (IF em THEN [res |-> Throw, st |-> r] ELSE [res |-> ElemR(r.s[r.e]), st |-> r])
    [] op.n = "pop_front" -> (IF em THEN [res |-> Throw, st |-> r] ELSE [res |-> Void, st |-> [r EXCEPT !.b = @ + 1]])
    [] op.n = "pop_back"  -> (IF em THEN [res |-> Throw, st |-> r] ELSE [res |-> Void, st |-> [r EXCEPT !.e = @ - 1]])

-----------------------------------------------------------------------------
(* state machine for TLC: one container of each kind, any operation at any time *)
VARIABLES vec, str, map, rng
vars == <<vec, str, map, rng>>

Bounded(seq) == Len(seq) <= MaxLen
Init == vec = <<>> /\ str = <<>> /\ map = [x \in {} |-> 0] /\ rng = [s |-> <<>>, b |-> 0, e |-> 0]

VecStep == \E op \in VecOps(vec) : LET r == ApplyVec(vec, op) IN Bounded(r.st) /\ vec' = r.st /\ UNCHANGED <<str, map, rng>>
StrStep == \E op \in StrOps(str) : LET r == ApplyStr(str, op) IN Bounded(r.st) /\ str' = r.st /\ UNCHANGED <<vec, map, rng>>
MapStep == \E op \in MapOps(map) : LET r == ApplyMap(map, op) IN DOMAIN r.st \subseteq Keys /\ map' = r.st /\ UNCHANGED <<vec, str, rng>>
RngStep == \/ \E op \in RangeOps : rng' = ApplyRange(rng, op).st /\ UNCHANGED <<vec, str, map>>
           \/ rng' = [s |-> vec, b |-> 0, e |-> Len(vec)] /\ UNCHANGED <<vec, str, map>>       \* range(vec)
Next == \/ "vec" \in Which /\ VecStep
        \/ "str" \in Which /\ StrStep
        \/ "map" \in Which /\ MapStep
        \/ "rng" \in Which /\ (RngStep \/ VecStep)
Spec == Init /\ [][Next]_vars

\* C12 as invariants of the model: contents stay inside the element alphabet, views stay inside their container
WithinModel == /\ \A i \in 1..Len(vec) : vec[i] \in Vals \cup {0}
               /\ \A i \in 1..Len(str) : str[i] \in Chars
               /\ DOMAIN map \subseteq Keys
               /\ 0 <= rng.b /\ rng.b <= rng.e /\ rng.e <= Len(rng.s)
\* every operation is total: result is a value or Throw, never undefined (evaluated on every reachable state)
Total == /\ \A op \in VecOps(vec) : ApplyVec(vec, op).res.t \in {"void", "int", "undef", "size", "bool", "throw"}
         /\ \A op \in StrOps(str) : ApplyStr(str, op).res.t \in {"void", "char", "str", "size", "bool", "npos", "throw"}
         /\ \A op \in MapOps(map) : ApplyMap(map, op).res.t \in {"void", "int", "undef", "size", "bool", "throw"}
         /\ \A op \in RangeOps : ApplyRange(rng, op).res.t \in {"void", "int", "undef", "bool", "throw"}

-----------------------------------------------------------------------------
(* mode G: one record per transition of the state graph *)
AllSeqs(S, n) == UNION {[1..k -> S] : k \in 0..n}
VecStates == AllSeqs(Vals, MaxLen) \cup {<<0>>, <<1, 0>>}
StrStates == AllSeqs(Chars, MaxLen)
RngStates == {[s |-> s, b |-> b, e |-> e] : s \in AllSeqs(Vals, Min2(MaxLen, 3)), b \in 0..3, e \in 0..3}

Rec(kind, s, op, r) == [kind |-> kind, st |-> s, op |-> op, res |-> r.res, st2 |-> r.st]
MapSeq(m) == LET ks == SelectSeq(<<"a", "b", "z">>, LAMBDA k : k \in DOMAIN m) IN [i \in 1..Len(ks) |-> <<ks[i], m[ks[i]]>>]
RecM(m, op, r) == [kind |-> "map", st |-> MapSeq(m), op |-> op, res |-> r.res, st2 |-> MapSeq(r.st)]
RecR(rg, op, r) == [kind |-> "range", st |-> <<rg.s, rg.b, rg.e>>, op |-> op, res |-> r.res, st2 |-> <<r.st.s, r.st.b, r.st.e>>]

TransVec == UNION {{Rec("vec", s, op, ApplyVec(s, op)) : op \in VecOps(s)} : s \in VecStates}
TransStr == UNION {{Rec("str", s, op, ApplyStr(s, op)) : op \in StrOps(s)} : s \in StrStates}
TransMap == UNION {{RecM(m, op, ApplyMap(m, op)) : op \in MapOps(m)} : m \in MapStates}
TransRng == UNION {{RecR(r, op, ApplyRange(r, op)) : op \in RangeOps} : r \in {x \in RngStates : x.b <= x.e /\ x.e <= Len(x.s)}}

ExportAll == ndJsonSerialize(IOEnv.OUT, SetToSeq(TransVec) \o SetToSeq(TransStr) \o SetToSeq(TransMap) \o SetToSeq(TransRng))
=============================================================================
