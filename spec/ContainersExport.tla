------------------------- MODULE ContainersExport -------------------------
(* mode G export of Containers: evaluating this module writes the transition table *)
EXTENDS Containers
ASSUME ExportAll
=============================================================================
