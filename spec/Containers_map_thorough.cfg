SPECIFICATION Spec
CONSTANTS
  MaxLen = 4
  Huge = 1073741824
  Which = {"map"}
INVARIANTS WithinModel Total
CHECK_DEADLOCK FALSE
