SPECIFICATION Spec
CONSTANTS
  Names = {"a"}
  Sites = {}
  SiteName <- SiteNameDef
  Prologues <- ProloguesC09
  MaxGuards = 5
  MaxSlots = 1
  MaxFrames = 3
  HintPolicy = "validated"
  ClearSaves = FALSE
  Features = {"calls", "throw"}
INVARIANTS TypeOK ShapeMatchesGuards RestoredAtTop TopLevelDeclsSurvive
CHECK_DEADLOCK FALSE
