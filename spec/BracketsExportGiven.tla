-------------------------- MODULE BracketsExportGiven --------------------------
EXTENDS Brackets
ASSUME ExportGiven
=============================================================================
