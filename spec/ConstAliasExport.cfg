INIT Init
NEXT Next
CONSTANTS
  MaxRoutes = 2
  DropOnBind = FALSE
  ShardK = 0
  ShardN = 1
