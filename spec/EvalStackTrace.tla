------------------------- MODULE EvalStackTrace -------------------------
(* Mode V for C04 / C09: validates an execution recorded from the real engine (hooks H2 in   *)
(* dispatchkit.hpp behind CHAISCRIPT_VERIF, driver brackets ev+/ev- around every eval())     *)
(* against the ChaiState transitions.  One action per event kind; every event must be        *)
(* explained by the corresponding primitive applied to the context of the emitting thread,   *)
(* and the fields it carries must equal what the specification computes:                     *)
(*   get   the resolution the engine took (first search / positional hint / non-local) must  *)
(*         equal by-name resolution in the reconstructed stack  (C04: caches are invisible)  *)
(*   fc+/fc-/sp  depth, call_params sizes and conversion-save state must equal the model's   *)
(*   ev+/ev-     the shape the engine reports must equal the reconstructed one, and at ev-   *)
(*               it must be the base shape again whatever the outcome  (C09)                 *)
(* A trace is accepted iff every line is consumed (POSTCONDITION TraceAccepted).             *)
EXTENDS ChaiState, TLC, Json, IOUtils

CONSTANT ClearSaves

Tr == ndJsonDeserialize(IOEnv.TRACE)

VARIABLES l,      \* next line of the trace
          ctxs,   \* [thread -> ctx]
          inEval  \* [thread -> BOOLEAN] between ev+ and ev-
vars == <<l, ctxs, inEval>>

Threads == {Tr[i].t : i \in 1..Len(Tr)}
Init == l = 1 /\ ctxs = [t \in Threads |-> BaseCtx] /\ inEval = [t \in Threads |-> FALSE]

E == Tr[l]
T == E.t
C == ctxs[T]
K(k) == l <= Len(Tr) /\ E.e = k /\ l' = l + 1
Upd(c) == ctxs' = [ctxs EXCEPT ![T] = c]

\* decoding of the packed shape fields written by the driver (vdrive.cpp trace_shape)
ShapeFromEvent == <<E.a \div 1000, E.a % 1000, E.b \div 1000, E.b % 1000, E.c \div 1000,
                    ((E.c % 1000) \div 100) = 1, E.c % 100>>

Reset == K("reset") /\ ctxs' = [t \in Threads |-> BaseCtx] /\ inEval' = [t \in Threads |-> FALSE]

EvBegin == /\ K("ev+")
           /\ ~inEval[T]
           /\ ShapeFromEvent = ShapeOf(C)          \* what the engine reports is what the model reconstructed
           /\ inEval' = [inEval EXCEPT ![T] = TRUE]
           /\ UNCHANGED ctxs

EvEnd == /\ K("ev-")
         /\ inEval[T]
         /\ ShapeFromEvent = ShapeOf(C)
         /\ ShapeOf(C) = BaseShape                 \* C09: back to the pre-call shape, whatever the outcome (E.n)
         /\ inEval' = [inEval EXCEPT ![T] = FALSE]
         /\ UNCHANGED ctxs

NS  == K("ns")  /\ Upd(PushScope(C)) /\ UNCHANGED inEval
PS  == K("ps")  /\ Len(TopStack(C)) > 1 /\ Upd(PopScope(C)) /\ UNCHANGED inEval
NST == K("nst") /\ Upd(PushFrame(C, <<>>)) /\ UNCHANGED inEval
PST == K("pst") /\ Len(C.frames) > 1 /\ Upd(PopFrame(C)) /\ UNCHANGED inEval
Add == K("add") /\ ~Declared(C, E.n) /\ Upd(AddObject(C, E.n)) /\ UNCHANGED inEval

\* E.a: 0 found by the first (by-name) search, 1 positional read through the hint, 2 global, 3 function table
Get == /\ K("get")
       /\ LET r == FindLocal(C, E.n) IN
          CASE E.a = 0 -> r = <<E.b, E.c>> /\ E.m = E.n
            [] E.a = 1 -> r = <<E.b, E.c>> /\ E.m = E.n      \* in range, same name, innermost binding
            [] OTHER   -> r = <<-1, -1>>                      \* only names with no live local may go global
       /\ UNCHANGED <<ctxs, inEval>>

FCp == /\ K("fc+")
       /\ LET c2 == FCallEnter(C) IN
          /\ E.a = c2.depth
          /\ E.b = c2.cparams[Len(c2.cparams)]
          /\ E.c = 1                                          \* saves enabled, none pending
          /\ Upd(c2)
       /\ UNCHANGED inEval

FCm == /\ K("fc-")
       /\ C.depth > 0
       /\ LET pending == E.c \div 2
              c1 == [C EXCEPT !.saves = pending]             \* unlogged Convert steps since the last boundary
              c2 == FCallExit(c1, ClearSaves) IN
          /\ E.a = c2.depth
          /\ E.b = c2.cparams[Len(c2.cparams)]
          /\ (E.c % 2 = 1) = c2.savesOn
          /\ E.c \div 2 = c2.saves                           \* at depth 0: nothing is left behind
          /\ Upd(c2)
       /\ UNCHANGED inEval

\* save_function_params: a = number of call_params lists, b = size of the last one after the insertion
SP == /\ K("sp")
      /\ E.a = Len(C.cparams)
      /\ E.b >= C.cparams[Len(C.cparams)]
      /\ Upd([C EXCEPT !.cparams[Len(C.cparams)] = E.b, !.saves = 0])
      /\ UNCHANGED inEval

SetL0 == K("setl0") /\ Upd([C EXCEPT !.frames[Len(C.frames)][1] = <<>>]) /\ UNCHANGED inEval
SetL  == K("setl")  /\ Upd([C EXCEPT !.frames[Len(C.frames)][1] = Append(@, E.n)]) /\ UNCHANGED inEval

Next == Reset \/ EvBegin \/ EvEnd \/ NS \/ PS \/ NST \/ PST \/ Add \/ Get \/ FCp \/ FCm \/ SP \/ SetL0 \/ SetL
Spec == Init /\ [][Next]_vars

\* checked in every state of the (single) behaviour: C09's structural invariant on the real execution
ShapeInv == \A t \in Threads : LET c == ctxs[t] IN
               /\ Len(c.frames) >= 1
               /\ \A i \in 1..Len(c.frames) : Len(c.frames[i]) >= 1
               /\ Len(c.cparams) = 1 + TotalScopesOf(c) - Len(c.frames)

\* top-level locals as the embedding API reports them after an eval (driver events lv / lvend)
LV == /\ K("lv")
      /\ \E i \in 1..Len(C.frames[1][1]) : C.frames[1][1][i] = E.n
      /\ UNCHANGED <<ctxs, inEval>>
LVEnd == K("lvend") /\ E.a = Len(C.frames[1][1]) /\ UNCHANGED <<ctxs, inEval>>

TraceNext == Next \/ LV \/ LVEnd
TraceSpec == Init /\ [][TraceNext]_vars

TraceAccepted == LET d == TLCGet("stats").diameter - 1 IN
                 IF d = Len(Tr) THEN TRUE
                 ELSE /\ PrintT(<<"REJECTED_AT", d + 1, Tr[d + 1]>>)
                      /\ FALSE
=============================================================================
