SPECIFICATION Spec
CONSTANTS
  KeyIsAddress = TRUE
  MaxOps = 6
INVARIANT Isolated
VIEW StateView
CHECK_DEADLOCK FALSE
