INIT Init
NEXT Next
CONSTANTS
  RethrowUnmatched = TRUE
  FinallyAlways = TRUE
  ObjectMatch = TRUE
  ObjectMatchValues = TRUE
  ShardK = 0
  ShardN = 1
