SPECIFICATION TraceSpec
CONSTANT ClearSaves = TRUE
INVARIANT ShapeInv
POSTCONDITION TraceAccepted
CHECK_DEADLOCK FALSE
