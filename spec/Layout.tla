------------------------------ MODULE Layout ------------------------------
(* Mode G for C04.  "Layout programs": one lambda whose body is evaluated several times    *)
(* under different arrangements of local variables (conditional dynamic declarations via   *)
(* eval(), called free or as an object attribute, with or without captures / parameters,   *)
(* with or without same-named globals).  The reference semantics below is BY-NAME lookup   *)
(* (innermost live binding of the current frame, else the global, else an error) - it has  *)
(* no notion of a cache, so it is the behaviour C04 demands.  TLC enumerates the family     *)
(* and writes case -> expected output; the driver replays every case into the real engine *)
(* with lookup hints enabled and with hints disabled (hook H2) and both must equal it.      *)
(*                                                                                          *)
(* Concrete syntax (gen/checks/c04.py prints it):                                           *)
(*   D(n)    var n = <val>                                 static declaration               *)
(*   Y(f,n)  F<f> && eval("var n = <val>; true")           dynamic declaration if flag f    *)
(*   S(n)    out(n)                                         lookup site                      *)
(*   B(seq)  { var z<k> = 0; seq }                          nested scope                     *)
(* every value is unique to its declaration so the output tells which binding was reached.  *)
(* Family "tiers": the three tiers a name can live in - local, global, function - with       *)
(* globals that APPEAR between two calls of the same body (`global a = ...` while `a` is     *)
(* also a function): by name, a global hides a function of the same name from then on.       *)
EXTENDS Integers, Sequences, FiniteSets, TLC, Json, IOUtils, SequencesExt

Names == {"a", "h"}
Flags == {1, 2}

D(n) == [k |-> "D", n |-> n, f |-> 0, b |-> <<>>]
Y(f, n) == [k |-> "Y", n |-> n, f |-> f, b |-> <<>>]
S(n) == [k |-> "S", n |-> n, f |-> 0, b |-> <<>>]
Blk(seq) == [k |-> "B", n |-> "", f |-> 0, b |-> seq]

Simple == {D(n) : n \in Names} \cup {Y(1, "a"), Y(2, "h"), Y(1, "h")} \cup {S(n) : n \in Names}

\* ---------------------------------------------------------------- reference semantics (by name)
\* machine: [fr: Seq(scope), scope = Seq(<<name, val>>); out: Seq(Int); ok: BOOLEAN]
ValOfDecl(path) == 10 + path                   \* unique value per declaration position (path < 90)
GlobalVal(n) == IF n = "a" THEN 901 ELSE 902
FunVal(n) == IF n = "a" THEN 801 ELSE 802        \* what a lookup site prints when the name resolves to a function
CapVal(n) == IF n = "a" THEN 701 ELSE 702
ParamVal == 555
ThisVal == 333

InScope(sc, n) == \E i \in 1..Len(sc) : sc[i][1] = n

RECURSIVE Resolve(_, _, _)
Resolve(fr, n, d) == IF d >= Len(fr) THEN -1
                     ELSE LET sc == fr[Len(fr) - d]
                              i == SelectInSeq(sc, LAMBDA x : x[1] = n)
                          IN IF i # 0 THEN sc[i][2] ELSE Resolve(fr, n, d + 1)

Declare(m, n, v) == LET top == m.fr[Len(m.fr)] IN
                    IF InScope(top, n) THEN [m EXCEPT !.ok = FALSE]      \* "Variable redefined": aborts the call
                    ELSE [m EXCEPT !.fr[Len(m.fr)] = Append(@, <<n, v>>)]

RECURSIVE Exec(_, _, _, _, _)
\* executes statements seq[i..] ; path numbers declarations for unique values
Exec(seq, i, m, env, path) ==
  IF i > Len(seq) \/ ~m.ok THEN m
  ELSE LET st == seq[i] IN
       LET m2 ==
         CASE st.k = "D" -> Declare(m, st.n, ValOfDecl(path + i))
           [] st.k = "Y" -> IF st.f \in env.flags THEN Declare(m, st.n, ValOfDecl(path + i)) ELSE m
           [] st.k = "S" -> (LET v == Resolve(m.fr, st.n, 0) IN
                             IF v >= 0 THEN [m EXCEPT !.out = Append(@, v)]
                             ELSE IF st.n \in env.globals THEN [m EXCEPT !.out = Append(@, GlobalVal(st.n))]
                             ELSE IF st.n \in env.funs THEN [m EXCEPT !.out = Append(@, FunVal(st.n))]     \* last tier: the functions of that name
                             ELSE [m EXCEPT !.ok = FALSE])                 \* "Can not find object"
           [] st.k = "B" -> (LET inner == Exec(st.b, 1, [m EXCEPT !.fr = Append(@, << <<"z", 0>> >>)], env, path + 10 * i) IN
                             [inner EXCEPT !.fr = IF Len(inner.fr) > Len(m.fr) THEN SubSeq(inner.fr, 1, Len(m.fr)) ELSE inner.fr])
       IN Exec(seq, i + 1, m2, env, path)

\* eval_function prologue: this (iff attribute call or a first argument exists), captures in map order, parameters
Prologue(prog, call) ==
   (IF call.kind = "attr" \/ prog.nparams > 0 THEN << <<"this", ThisVal>> >> ELSE <<>>)
   \o (IF "a" \in prog.caps THEN << <<"a", CapVal("a")>> >> ELSE <<>>)
   \o (IF "h" \in prog.caps THEN << <<"h", CapVal("h")>> >> ELSE <<>>)
   \o (IF prog.nparams > 0 THEN << <<"p", ParamVal>> >> ELSE <<>>)

RunCall(prog, call, globals) ==
   LET m0 == [fr |-> << Prologue(prog, call), << <<"z", 0>> >> >>, out |-> <<>>, ok |-> TRUE]
       m == Exec(prog.body, 1, m0, [flags |-> call.flags, globals |-> globals, funs |-> prog.funs], 0)
   IN [out |-> m.out, ok |-> m.ok]

\* globals made right before call j stay for every later call
\* (a restore takes the globals made since the snapshot away again)
LastRedef(calls, i) == LET s == {j \in 1..i : calls[j].redef} IN IF s = {} THEN 0 ELSE CHOOSE j \in s : \A k \in s : k <= j
GlobalsAt(prog, calls, i) == prog.globals \cup UNION {calls[j].mk : j \in (LastRedef(calls, i) + 1)..i} \cup (IF LastRedef(calls, i) > 0 THEN calls[LastRedef(calls, i)].mk ELSE {})
Expect(prog, calls) == [i \in 1..Len(calls) |-> RunCall(prog, calls[i], GlobalsAt(prog, calls, i))]

\* ---------------------------------------------------------------- the enumerated family
CONSTANTS Family,      \* "small" (exhaustive) | "random"
          NRandom      \* number of random cases

Calls == [kind : {"free", "attr"}, flags : SUBSET Flags, mk : {{}}, redef : {FALSE}]

SmallBodies == {<<s1, s2>> : s1 \in Simple, s2 \in Simple}
               \cup {<<s1, s2, Blk(<<s3>>)>> : s1 \in Simple, s2 \in Simple, s3 \in Simple}
               \cup {<<s1, Blk(<<s3>>), s2>> : s1 \in Simple, s2 \in {S("a"), S("h")}, s3 \in Simple}
SmallProgs == [body : SmallBodies, globals : {{}, {"a"}}, caps : {{}}, nparams : {0}, funs : {{}}]
SmallCases == {[prog |-> p, calls |-> <<c1, c2>>] : p \in SmallProgs, c1 \in Calls, c2 \in Calls}

BigBodies == {<<s1, s2, s3>> : s1 \in Simple, s2 \in Simple, s3 \in Simple}
             \cup {<<s1, s2, Blk(<<s3, s4>>), s5>> : s1 \in Simple, s2 \in Simple, s3 \in Simple, s4 \in Simple, s5 \in {S("a"), S("h")}}
RandomCase(i) == LET body == RandomElement(BigBodies)
                     gl == RandomElement(SUBSET Names)
                     caps == RandomElement({{}, {"a"}, {"h"}})
                 IN [prog |-> [body |-> body, globals |-> gl \ caps, caps |-> caps, nparams |-> RandomElement({0, 1}), funs |-> {}],
                     calls |-> <<RandomElement(Calls), RandomElement(Calls), RandomElement(Calls)>>]

\* tiers: names that are functions from the start, globals of the same name created between the calls
TierBodies == {<<S(n)>> : n \in Names} \cup {<<S(n), Blk(<<S(n)>>)>> : n \in Names} \cup {<<S("a"), S("h")>>}
              \cup {<<S(n), Blk(<<D(n), S(n)>>), S(n)>> : n \in Names} \cup {<<Y(1, "a"), S("a")>>}
\* redef: before the call the engine is taken back to a snapshot from before the functions existed (set_state) and the functions
\* are defined again in the OPPOSITE order - by name nothing changes, but every position in the function tables does
TierCalls == [kind : {"free", "attr"}, flags : {{}, {1}}, mk : {{}, {"a"}, {"h"}}, redef : BOOLEAN]
TierProgs == [body : TierBodies, globals : {{}}, caps : {{}}, nparams : {0}, funs : {{"a"}, {"a", "h"}}]
TierCases == {[prog |-> p, calls |-> <<c1, c2, c3>>] : p \in TierProgs, c1 \in {c \in TierCalls : c.mk = {} /\ ~c.redef},
                                                           c2 \in {c \in TierCalls : c.redef => c.mk = {}}, c3 \in {c \in TierCalls : c.flags = {} /\ ~c.redef}}

Record(i, c) == [id |-> i, prog |-> c.prog, calls |-> c.calls, expect |-> Expect(c.prog, c.calls)]

\* the exhaustive family is sharded by index (this evaluation is single-threaded); the random one by seed
CONSTANTS ShardK, ShardN
Out == IF Family \in {"small", "tiers"}
       THEN LET cs == SetToSeq(IF Family = "small" THEN SmallCases ELSE TierCases)
                idx == SelectSeq([i \in 1..Len(cs) |-> i], LAMBDA i : i % ShardN = ShardK)
            IN [j \in 1..Len(idx) |-> Record(idx[j], cs[idx[j]])]
       ELSE [i \in 1..NRandom |-> Record((ShardK + 1) * 1000000 + i, RandomCase(i))]

ASSUME ndJsonSerialize(IOEnv.OUT, Out)

\* properties of the reference itself, checked on every exported case
ASSUME PrintT(<<"cases", Len(Out)>>)

VARIABLE dummy
Init == dummy = 0
Next == UNCHANGED dummy
=============================================================================
