---------------------------- MODULE EngineState ----------------------------
(* C15 (and the use()/used-files part of C19): the global environment of one engine and   *)
(* get_state / set_state.                                                                  *)
(*                                                                                          *)
(* Two layers.                                                                              *)
(*  Abstract: Env = [fn: (name, sig) -> serial of the defining body (0 = absent),           *)
(*                   gl: global name -> value (0 = absent), ty: set of type names,          *)
(*                   used: set of files].  Step(env, op) is a pure function; a snapshot is  *)
(*            a copy of Env; set_state replaces Env by the copy.  This is the dictionary    *)
(*            model the property speaks about, used as executable reference in mode G.      *)
(*            ty is observed in both directions: name -> type (type("TA")) and object ->    *)
(*            name (type_name(obj), obj.is_type("TA")) for objects made before any snapshot. *)
(*  Implementation-shaped (mode M): Dispatch_Engine::State keeps THREE function tables       *)
(*            (m_functions: name -> shared pointer to an overload vector, m_function_objects *)
(*            and m_boxed_functions: name -> own copy), snapshots copy the pointers, and     *)
(*            add_function publishes a NEW vector (copy-on-write) - or, with CopyOnWrite =   *)
(*            FALSE, pushes into the shared one.  Invariants: the three tables agree         *)
(*            (TablesInStep), stored snapshots never change (SnapshotsImmutable), and the    *)
(*            live tables always equal the abstract Env (Refines).                          *)
EXTENDS Integers, Sequences, FiniteSets, TLC, Json, IOUtils, SequencesExt

CONSTANTS FNames,     \* function names            {"f", "g"}
          Sigs,       \* {"int", "str", "cpp"}: def f(int), def f(string), C++ function f() added through the API
          GNames,     \* global names              {"ga", "gb"}
          TNames,     \* type names                {"TA", "TB"}
          Files,      \* files for use()           {"u1", "u2"}
          MaxSnaps

SnapNames == IF MaxSnaps >= 3 THEN {"1", "2", "3"} ELSE IF MaxSnaps = 2 THEN {"1", "2"} ELSE {"1"}
Op(k, n, s) == [k |-> k, n |-> n, s |-> s]
Ops == {Op("def", n, s) : n \in FNames, s \in Sigs} \cup {Op("global", g, "") : g \in GNames}
       \cup {Op("type", t, "") : t \in TNames} \cup {Op("use", u, "") : u \in Files}
       \cup {Op("get", "", "")} \cup {Op("set", "", i) : i \in {"1", "2", "3"} \cap SnapNames}
       \cup {Op("class", "K", "")}

EmptyEnv == [fn |-> [p \in FNames \X Sigs |-> 0], gl |-> [g \in GNames |-> 0], ty |-> {}, used |-> {}, cls |-> 0]

SnapIdx(op) == IF op.s = "1" THEN 1 ELSE IF op.s = "2" THEN 2 ELSE 3

\* machine of the abstract layer: [env, snaps, serial]; result res \in {"ok", "conflict", "nosnap"} and, for use, whether the file ran
StepAbs(m, op) ==
  LET e == m.env  k == m.serial + 1 IN
  CASE op.k = "def" ->
         (IF e.fn[<<op.n, op.s>>] # 0 THEN [m EXCEPT !.res = "conflict"]                       \* Function redefined / name_conflict_error
          ELSE [m EXCEPT !.env.fn[<<op.n, op.s>>] = k, !.serial = k, !.res = "ok"])
    \* `global g = k`: creates the variable, or ASSIGNS to the existing object.  A snapshot holds the binding
    \* name -> object (a copy of the map of Boxed_Values), not a copy of the object, so the value written here
    \* is seen through every snapshot that contains the same object: cells are not part of Env.
    [] op.k = "global" ->
         (IF e.gl[op.n] # 0 THEN [m EXCEPT !.cells[e.gl[op.n]] = k, !.serial = k, !.res = "ok"]
          ELSE [m EXCEPT !.cells = Append(@, k), !.env.gl[op.n] = Len(m.cells) + 1, !.serial = k, !.res = "ok"])
    [] op.k = "type" ->
         (IF op.n \in e.ty THEN [m EXCEPT !.res = "conflict"] ELSE [m EXCEPT !.env.ty = @ \cup {op.n}, !.res = "ok"])
    [] op.k = "class" ->
         (IF e.cls # 0 THEN [m EXCEPT !.res = "conflict"] ELSE [m EXCEPT !.env.cls = k, !.serial = k, !.res = "ok"])
    [] op.k = "use" ->
         (IF op.n \in e.used THEN [m EXCEPT !.res = "skipped"] ELSE [m EXCEPT !.env.used = @ \cup {op.n}, !.res = "ran"])
    [] op.k = "get" ->
         (IF Len(m.snaps) >= MaxSnaps THEN [m EXCEPT !.res = "full"] ELSE [m EXCEPT !.snaps = Append(@, e), !.res = "ok"])
    [] op.k = "set" ->
         (IF SnapIdx(op) > Len(m.snaps) THEN [m EXCEPT !.res = "nosnap"] ELSE [m EXCEPT !.env = m.snaps[SnapIdx(op)], !.res = "ok"])

Machine0 == [env |-> EmptyEnv, snaps |-> <<>>, serial |-> 0, res |-> "ok", cells |-> <<>>]

\* what a script can see of an environment (compared with the engine after every step)
Project(e, cells) == [fn |-> [n \in FNames |-> [s \in Sigs |-> e.fn[<<n, s>>]]],
               gl |-> [g \in GNames |-> IF e.gl[g] = 0 THEN 0 ELSE cells[e.gl[g]]],
               ty |-> [t \in TNames |-> t \in e.ty], cls |-> e.cls]

RECURSIVE RunFrom(_, _, _)
RunFrom(m, ops, i) == IF i > Len(ops) THEN <<>>
                      ELSE LET m2 == StepAbs(m, ops[i]) IN
                           << [res |-> m2.res, view |-> Project(m2.env, m2.cells)] >> \o RunFrom(m2, ops, i + 1)
Run(ops) == RunFrom(Machine0, ops, 1)

-----------------------------------------------------------------------------
(* implementation-shaped layer *)
CONSTANT CopyOnWrite

VARIABLES heap,     \* [ptr -> set of (sig, serial)]: the overload vectors (shared_ptr<vector<Proxy_Function>>)
          fptr,     \* live m_functions: name -> ptr (0 = absent)
          fobj,     \* live m_function_objects: name -> set of (sig, serial)   (own copy)
          fbox,     \* live m_boxed_functions: same content, third table
          glob, typ, used, cls,
          snaps,    \* Seq of [fptr, fobj, fbox, glob, typ, used, cls]: copies that share the heap
          ghost,    \* the abstract machine run in lock-step
          ghostSnaps \* what each snapshot looked like (as an abstract Env) when it was taken
vars == <<heap, fptr, fobj, fbox, glob, typ, used, cls, snaps, ghost, ghostSnaps>>

Init == /\ heap = <<>> /\ fptr = [n \in FNames |-> 0] /\ fobj = [n \in FNames |-> {}] /\ fbox = [n \in FNames |-> {}]
        /\ glob = [g \in GNames |-> 0] /\ typ = {} /\ used = {} /\ cls = 0
        /\ snaps = <<>> /\ ghost = Machine0 /\ ghostSnaps = <<>>

Vec(n) == IF fptr[n] = 0 THEN {} ELSE heap[fptr[n]]
Has(vecset, s) == \E p \in vecset : p[1] = s

\* Dispatch_Engine::add_function
AddFunction(n, s) ==
  LET k == ghost.serial + 1 IN
  /\ ~Has(Vec(n), s)
  /\ IF fptr[n] = 0 \/ CopyOnWrite
       THEN /\ heap' = Append(heap, Vec(n) \cup {<<s, k>>})           \* make_shared<vector>(copy + new)
            /\ fptr' = [fptr EXCEPT ![n] = Len(heap) + 1]
       ELSE /\ heap' = [heap EXCEPT ![fptr[n]] = @ \cup {<<s, k>>}]    \* push_back into the published vector
            /\ fptr' = fptr
  /\ fobj' = [fobj EXCEPT ![n] = @ \cup {<<s, k>>}]
  /\ fbox' = [fbox EXCEPT ![n] = @ \cup {<<s, k>>}]
  /\ UNCHANGED <<glob, typ, used, cls, snaps, ghostSnaps>>

DoOp(op) ==
  /\ ghost' = StepAbs(ghost, op)
  /\ CASE op.k = "def" ->
            (IF Has(Vec(op.n), op.s)
               THEN UNCHANGED <<heap, fptr, fobj, fbox, glob, typ, used, cls, snaps, ghostSnaps>>
               ELSE AddFunction(op.n, op.s))
       \* m_global_objects: name -> Boxed_Value; the model keeps the object's identity (index into ghost.cells)
       [] op.k = "global" -> glob' = [glob EXCEPT ![op.n] = IF @ # 0 THEN @ ELSE Len(ghost.cells) + 1]
                             /\ UNCHANGED <<heap, fptr, fobj, fbox, typ, used, cls, snaps, ghostSnaps>>
       [] op.k = "type" -> typ' = typ \cup {op.n} /\ UNCHANGED <<heap, fptr, fobj, fbox, glob, used, cls, snaps, ghostSnaps>>
       [] op.k = "class" -> cls' = (IF cls # 0 THEN cls ELSE ghost.serial + 1) /\ UNCHANGED <<heap, fptr, fobj, fbox, glob, typ, used, snaps, ghostSnaps>>
       [] op.k = "use" -> used' = used \cup {op.n} /\ UNCHANGED <<heap, fptr, fobj, fbox, glob, typ, cls, snaps, ghostSnaps>>
       [] op.k = "get" ->
            (IF Len(snaps) >= MaxSnaps THEN UNCHANGED <<heap, fptr, fobj, fbox, glob, typ, used, cls, snaps, ghostSnaps>>
             ELSE /\ snaps' = Append(snaps, [fptr |-> fptr, fobj |-> fobj, fbox |-> fbox, glob |-> glob, typ |-> typ, used |-> used, cls |-> cls])
                  /\ ghostSnaps' = Append(ghostSnaps, ghost.env)
                  /\ UNCHANGED <<heap, fptr, fobj, fbox, glob, typ, used, cls>>)
       [] op.k = "set" ->
            (IF SnapIdx(op) > Len(snaps) THEN UNCHANGED <<heap, fptr, fobj, fbox, glob, typ, used, cls, snaps, ghostSnaps>>
             ELSE LET sn == snaps[SnapIdx(op)] IN
                  /\ fptr' = sn.fptr /\ fobj' = sn.fobj /\ fbox' = sn.fbox /\ glob' = sn.glob /\ typ' = sn.typ /\ used' = sn.used /\ cls' = sn.cls
                  /\ UNCHANGED <<heap, snaps, ghostSnaps>>)

CONSTANT MaxSerial
Next == \E op \in Ops : ghost.serial < MaxSerial /\ DoOp(op)
Spec == Init /\ [][Next]_vars

\* the abstract view of a set of tables
AbsFn(fp, hp) == [p \in FNames \X Sigs |->
                    LET v == IF fp[p[1]] = 0 THEN {} ELSE hp[fp[p[1]]] IN
                    IF Has(v, p[2]) THEN (CHOOSE x \in v : x[1] = p[2])[2] ELSE 0]
AbsOf(fp, gl, ty, us, cl) == [fn |-> AbsFn(fp, heap), gl |-> gl, ty |-> ty, used |-> us, cls |-> cl]

TablesInStep == \A n \in FNames : Vec(n) = fobj[n] /\ fobj[n] = fbox[n]
Refines == AbsOf(fptr, glob, typ, used, cls) = ghost.env
SnapshotsImmutable == \A i \in 1..Len(snaps) :
                         /\ AbsOf(snaps[i].fptr, snaps[i].glob, snaps[i].typ, snaps[i].used, snaps[i].cls) = ghostSnaps[i]
                         /\ \A n \in FNames : (IF snaps[i].fptr[n] = 0 THEN {} ELSE heap[snaps[i].fptr[n]]) = snaps[i].fobj[n]
\* RestoreExact is Refines evaluated in the state after a "set": the live environment equals the recorded one

-----------------------------------------------------------------------------
(* mode G export: histories with the expected result and visible environment after every step *)
CONSTANTS Family, NRandom, ShardK, ShardN, HistLen
OpSeq == SetToSeq(Ops)
RandomHist(i) == [j \in 1..HistLen |-> RandomElement(Ops)]
SmallHists == {<<a, b, c>> : a \in Ops, b \in Ops, c \in Ops}
\* diverged timelines: define, go back to an earlier snapshot, define something else (or the same in another order) - the tables
\* shrink and grow again, so whatever position a call site remembered now belongs to another name
ScriptDefs == {Op("def", n, sg) : n \in FNames, sg \in Sigs \ {"cpp"}}
Timelines == {<<Op("get", "", ""), a, Op("set", "", "1"), b>> : a \in ScriptDefs, b \in ScriptDefs}
             \cup {<<Op("get", "", ""), a1, a2, Op("set", "", "1"), b1, b2>> : a1 \in ScriptDefs, a2 \in ScriptDefs, b1 \in ScriptDefs, b2 \in ScriptDefs}
             \cup {<<a0, Op("get", "", ""), a1, Op("get", "", ""), Op("set", "", "1"), b1, Op("set", "", "2"), b2>> :
                       a0 \in ScriptDefs, a1 \in ScriptDefs, b1 \in ScriptDefs, b2 \in ScriptDefs}
HRecord(id, ops) == [id |-> id, ops |-> ops, expect |-> Run(ops)]
Histories == IF Family \in {"small", "timelines"}
             THEN LET hs == SetToSeq(IF Family = "small" THEN SmallHists ELSE Timelines)
                      idx == SelectSeq([i \in 1..Len(hs) |-> i], LAMBDA i : i % ShardN = ShardK)
                  IN [j \in 1..Len(idx) |-> HRecord(idx[j], hs[idx[j]])]
             ELSE [i \in 1..NRandom |-> HRecord((ShardK + 1) * 1000000 + i, RandomHist(i))]
Export == ndJsonSerialize(IOEnv.OUT, Histories)
DummyInit == heap = <<>> /\ fptr = 0 /\ fobj = 0 /\ fbox = 0 /\ glob = 0 /\ typ = 0 /\ used = 0 /\ cls = 0 /\ snaps = 0 /\ ghost = 0 /\ ghostSnaps = 0
DummyNext == UNCHANGED vars
=============================================================================
