SPECIFICATION Spec
INVARIANTS ConstObjectsUnchanged ConstFlagSurvives
PROPERTY FailedAttemptsLeaveNoTrace
CONSTANTS
  MaxRoutes = 4
  DropOnBind = FALSE
  ShardK = 0
  ShardN = 1
CHECK_DEADLOCK FALSE
