SPECIFICATION Spec
CONSTANTS
  FNames = {"f"}
  Sigs = {"int", "str", "cpp"}
  GNames = {"ga"}
  TNames = {"TA"}
  Files = {"u1"}
  MaxSnaps = 2
  CopyOnWrite = FALSE
  MaxSerial = 4
  Family = "none"
  NRandom = 0
  ShardK = 0
  ShardN = 1
  HistLen = 0
INVARIANTS TablesInStep Refines SnapshotsImmutable
CHECK_DEADLOCK FALSE
