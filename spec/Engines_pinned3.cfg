SPECIFICATION Spec
CONSTANTS
  KeyMode = "unique"
  CacheShared = TRUE
  WithConvs = TRUE
  MaxOps = 6
INVARIANTS Isolated ConvIsolated
VIEW StateView
CHECK_DEADLOCK FALSE
