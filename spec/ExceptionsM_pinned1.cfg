INIT Init
NEXT Next
CONSTANTS
  RethrowUnmatched = FALSE
  FinallyAlways = TRUE
  ObjectMatch = TRUE
  ObjectMatchValues = TRUE
  ShardK = 0
  ShardN = 1
