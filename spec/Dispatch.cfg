INIT Init
NEXT Next
