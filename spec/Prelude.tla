------------------------------ MODULE Prelude ------------------------------
(* C17: functional specification of the script-level library (chaiscript_prelude.hpp).      *)
(* Every function is defined by what its name says over sequences, together with the        *)
(* sequence of callback invocations it may make (once per element, in order, stopping where *)
(* the documentation allows it to stop).  For the loops where off-by-one edits are easy      *)
(* (take, drop, zip_with, reduce) an operational model over a range cursor is given too and *)
(* TLC checks that it refines the functional definition (LoopRefinesSpec).                  *)
(* Mode G: all cases inside the bound are exported with the expected result, callback trace *)
(* and (unchanged) input, and replayed through the real prelude.                            *)
EXTENDS Integers, Sequences, FiniteSets, TLC, Json, IOUtils, SequencesExt

CONSTANTS MaxLen, CloneRange
Vals == {-1, 0, 1, 2}
Vecs == UNION {[1..n -> Vals] : n \in 0..MaxLen}
SmallVecs == {<<>>, <<1>>, <<2, 0>>, <<-1, 1, 2>>}

\* ---------------------------------------------------------------- callbacks of the fixed menu
Preds == {"gt0", "true", "false", "odd"}
P(p, x) == CASE p = "gt0" -> x > 0 [] p = "true" -> TRUE [] p = "false" -> FALSE [] p = "odd" -> (x % 2 = 1)
F1s == {"inc", "neg"}
F1(f, x) == IF f = "inc" THEN x + 1 ELSE 0 - x
F2s == {"add", "sub", "first"}
F2(f, a, b) == CASE f = "add" -> a + b [] f = "sub" -> a - b [] f = "first" -> a

Min2(a, b) == IF a < b THEN a ELSE b
Max2(a, b) == IF a > b THEN a ELSE b
Clamp(n, len) == Min2(Max2(n, 0), len)
RECURSIVE SumSeq(_), ProdSeq(_)
SumSeq(s) == IF s = <<>> THEN 0 ELSE Head(s) + SumSeq(Tail(s))
ProdSeq(s) == IF s = <<>> THEN 1 ELSE Head(s) * ProdSeq(Tail(s))
\* length of the longest prefix whose elements all satisfy p
RECURSIVE PrefixLen(_, _, _)
PrefixLen(s, p, i) == IF i > Len(s) \/ ~P(p, s[i]) THEN i - 1 ELSE PrefixLen(s, p, i + 1)
Rev(s) == [i \in 1..Len(s) |-> s[Len(s) + 1 - i]]

\* ---------------------------------------------------------------- results (one record shape for every case)
\* t: kind of result; i: int / bool payload; s: vector of ints; p: vector of vectors; calls: callback arguments in order
R(t, i, s, p, calls) == [t |-> t, i |-> i, s |-> s, p |-> p, calls |-> calls]
One(x) == <<x>>
Unary(s) == [k \in 1..Len(s) |-> One(s[k])]
B(b) == IF b THEN 1 ELSE 0

RECURSIVE FoldCalls(_, _, _, _), FoldVal(_, _, _, _)
\* foldl calls func(element, accumulator)
FoldVal(s, f, acc, i) == IF i > Len(s) THEN acc ELSE FoldVal(s, f, F2(f, s[i], acc), i + 1)
FoldCalls(s, f, acc, i) == IF i > Len(s) THEN <<>> ELSE <<<<s[i], acc>>>> \o FoldCalls(s, f, F2(f, s[i], acc), i + 1)
RECURSIVE RedCalls(_, _, _, _), RedVal(_, _, _, _)
\* reduce calls func(accumulator, element) starting from the first two elements
RedVal(s, f, acc, i) == IF i > Len(s) THEN acc ELSE RedVal(s, f, F2(f, acc, s[i]), i + 1)
RedCalls(s, f, acc, i) == IF i > Len(s) THEN <<>> ELSE <<<<acc, s[i]>>>> \o RedCalls(s, f, F2(f, acc, s[i]), i + 1)

FirstTrue(s, p) == LET c == {i \in 1..Len(s) : P(p, s[i])} IN IF c = {} THEN 0 ELSE CHOOSE i \in c : \A j \in c : i <= j
FirstFalse(s, p) == LET c == {i \in 1..Len(s) : ~P(p, s[i])} IN IF c = {} THEN 0 ELSE CHOOSE i \in c : \A j \in c : i <= j

Spec(fn, a, b, n, cb) ==
  CASE fn = "for_each"   -> R("void", 0, <<>>, <<>>, Unary(a))
    [] fn = "map"        -> R("vec", 0, [k \in 1..Len(a) |-> F1(cb, a[k])], <<>>, Unary(a))
    [] fn = "filter"     -> R("vec", 0, SelectSeq(a, LAMBDA x : P(cb, x)), <<>>, Unary(a))
    [] fn = "foldl"      -> R("int", FoldVal(a, cb, n, 1), <<>>, <<>>, FoldCalls(a, cb, n, 1))
    [] fn = "reduce"     -> (IF Len(a) < 2 THEN R("throw", 0, <<>>, <<>>, <<>>)
                             ELSE R("int", RedVal(a, cb, a[1], 2), <<>>, <<>>, RedCalls(a, cb, a[1], 2)))
    [] fn = "sum"        -> R("double", SumSeq(a), <<>>, <<>>, <<>>)
    [] fn = "product"    -> R("double", ProdSeq(a), <<>>, <<>>, <<>>)
    [] fn = "any_of"     -> (LET k == FirstTrue(a, cb) IN R("bool", B(k # 0), <<>>, <<>>, Unary(SubSeq(a, 1, IF k = 0 THEN Len(a) ELSE k))))
    [] fn = "all_of"     -> (LET k == FirstFalse(a, cb) IN R("bool", B(k = 0), <<>>, <<>>, Unary(SubSeq(a, 1, IF k = 0 THEN Len(a) ELSE k))))
    [] fn = "contains"   -> R("bool", B(\E k \in 1..Len(a) : a[k] = n), <<>>, <<>>, <<>>)
    [] fn = "take"       -> R("vec", 0, SubSeq(a, 1, Clamp(n, Len(a))), <<>>, <<>>)
    [] fn = "drop"       -> R("vec", 0, SubSeq(a, Clamp(n, Len(a)) + 1, Len(a)), <<>>, <<>>)
    [] fn = "take_while" -> (LET k == PrefixLen(a, cb, 1) IN R("vec", 0, SubSeq(a, 1, k), <<>>, Unary(SubSeq(a, 1, Min2(k + 1, Len(a))))))
    [] fn = "drop_while" -> (LET k == PrefixLen(a, cb, 1) IN R("vec", 0, SubSeq(a, k + 1, Len(a)), <<>>, Unary(SubSeq(a, 1, Min2(k + 1, Len(a))))))
    [] fn = "concat"     -> R("vec", 0, a \o b, <<>>, <<>>)
    [] fn = "reverse"    -> R("vec", 0, Rev(a), <<>>, <<>>)
    [] fn = "zip"        -> R("vecs", 0, <<>>, [k \in 1..Min2(Len(a), Len(b)) |-> <<a[k], b[k]>>], <<>>)
    [] fn = "zip_with"   -> R("vec", 0, [k \in 1..Min2(Len(a), Len(b)) |-> F2(cb, a[k], b[k])], <<>>,
                              [k \in 1..Min2(Len(a), Len(b)) |-> <<a[k], b[k]>>])
    [] fn = "join"       -> R("join", 0, a, <<>>, <<>>)                       \* rendered by the driver: elements separated by the delimiter
    [] fn = "to_string"  -> R("tostr", 0, a, <<>>, <<>>)                      \* "[1, 2]"
    [] fn = "generate_range" -> R("vec", 0, IF n > cb THEN <<>> ELSE [k \in 1..(cb - n + 1) |-> n + k - 1], <<>>, <<>>)   \* n..cb inclusive
    [] fn = "min"        -> R("int", Min2(n, cb), <<>>, <<>>, <<>>)
    [] fn = "max"        -> R("int", Max2(n, cb), <<>>, <<>>, <<>>)
    [] fn = "odd"        -> R("bool", B((n % 2) = 1), <<>>, <<>>, <<>>)       \* TLA+ % is the mathematical modulus: -3 % 2 = 1
    [] fn = "even"       -> R("bool", B((n % 2) = 0), <<>>, <<>>, <<>>)

Case(fn, a, b, n, cb) == [fn |-> fn, a |-> a, b |-> b, n |-> n, cb |-> cb, exp |-> Spec(fn, a, b, n, cb)]
NumArgs(a) == {-1, 0, 1, Len(a), Len(a) + 1}

CasesVec ==
   {Case("for_each", a, <<>>, 0, "") : a \in Vecs} \cup {Case("reverse", a, <<>>, 0, "") : a \in Vecs}
   \cup {Case("sum", a, <<>>, 0, "") : a \in Vecs} \cup {Case("product", a, <<>>, 0, "") : a \in Vecs}
   \cup {Case("to_string", a, <<>>, 0, "") : a \in Vecs} \cup {Case("join", a, <<>>, 0, "") : a \in Vecs}
   \cup {Case("map", a, <<>>, 0, f) : a \in Vecs, f \in F1s}
   \cup {Case(fn, a, <<>>, 0, p) : fn \in {"filter", "any_of", "all_of", "take_while", "drop_while"}, a \in Vecs, p \in Preds}
   \cup {Case("foldl", a, <<>>, n, f) : a \in Vecs, n \in {0, 2}, f \in F2s}
   \cup {Case("reduce", a, <<>>, 0, f) : a \in Vecs, f \in F2s}
   \cup {Case("contains", a, <<>>, n, "") : a \in Vecs, n \in {-1, 2, 5}}
   \cup {Case(fn, a, <<>>, n, "") : fn \in {"take", "drop"}, a \in Vecs, n \in UNION {NumArgs(x) : x \in Vecs}}
   \cup {Case(fn, a, b, 0, "") : fn \in {"concat", "zip"}, a \in Vecs, b \in SmallVecs}
   \cup {Case("zip_with", a, b, 0, f) : a \in Vecs, b \in SmallVecs, f \in F2s}
\* scalar cases carry ints in n and cb
ScalarCase(fn, x, y) == [fn |-> fn, a |-> <<>>, b |-> <<>>, n |-> x, cb |-> y, exp |-> Spec(fn, <<>>, <<>>, x, y)]
CasesScalar ==
   {ScalarCase(fn, x, y) : fn \in {"generate_range", "min", "max"}, x \in -2..3, y \in -2..3}
   \cup {ScalarCase(fn, x, 0) : fn \in {"odd", "even"}, x \in -5..5}

-----------------------------------------------------------------------------
(* operational models of the loops over a range cursor, as the prelude writes them *)
RECURSIVE TakeLoop(_, _, _, _), DropSkip(_, _, _), ZipLoop(_, _, _, _, _)
TakeLoop(a, pos, i, acc) == IF i > 0 /\ pos <= Len(a) THEN TakeLoop(a, pos + 1, i - 1, Append(acc, a[pos])) ELSE acc
DropSkip(a, pos, i) == IF i > 0 /\ pos <= Len(a) THEN DropSkip(a, pos + 1, i - 1) ELSE pos
DropLoop(a, n) == SubSeq(a, DropSkip(a, 1, n), Len(a))
ZipLoop(a, b, pa, f, acc) == IF pa <= Len(a) /\ pa <= Len(b) THEN ZipLoop(a, b, pa + 1, f, Append(acc, F2(f, a[pa], b[pa]))) ELSE acc
LoopRefinesSpec ==
   /\ \A a \in Vecs : \A n \in -1..(MaxLen + 1) : TakeLoop(a, 1, n, <<>>) = Spec("take", a, <<>>, n, "").s
   /\ \A a \in Vecs : \A n \in -1..(MaxLen + 1) : DropLoop(a, n) = Spec("drop", a, <<>>, n, "").s
   /\ \A a \in Vecs : \A b \in SmallVecs : \A f \in F2s : ZipLoop(a, b, 1, f, <<>>) = Spec("zip_with", a, b, 0, f).s
\* laws relating the functions to each other (sanity of the specification itself)
Laws == /\ \A a \in Vecs : \A n \in -1..(MaxLen + 1) : Spec("take", a, <<>>, n, "").s \o Spec("drop", a, <<>>, n, "").s = a
        /\ \A a \in Vecs : \A p \in Preds : Spec("take_while", a, <<>>, 0, p).s \o Spec("drop_while", a, <<>>, 0, p).s = a
        /\ \A a \in Vecs : Spec("reverse", Spec("reverse", a, <<>>, 0, "").s, <<>>, 0, "").s = a
        /\ \A a \in Vecs : \A p \in Preds : (Spec("any_of", a, <<>>, 0, p).i = 1) = (Spec("filter", a, <<>>, 0, p).s # <<>>)

\* ---------------------------------------------------------------- containers of strings: join and to_string as text
\* join(c, d): the elements' to_string separated by d - a separator between ANY two neighbours, also after an element whose text is empty
RECURSIVE JoinStrs(_, _, _)
JoinStrs(s, d, i) == IF i > Len(s) THEN "" ELSE (IF i > 1 THEN d ELSE "") \o s[i] \o JoinStrs(s, d, i + 1)
StrVals == {"", "a", "bc"}
StrVecs == UNION {[1..n -> StrVals] : n \in 0..MaxLen}
Delims == {"-", "", ", "}
CasesStr == {[fn |-> "join", a |-> a, d |-> d, exp |-> JoinStrs(a, d, 1)] : a \in StrVecs, d \in Delims}
            \cup {[fn |-> "to_string", a |-> a, d |-> "", exp |-> "[" \o JoinStrs(a, ", ", 1) \o "]"] : a \in StrVecs}
            \cup {[fn |-> "join_ints", a |-> [k \in 1..Len(v) |-> ToString(v[k])], d |-> d, exp |-> JoinStrs([k \in 1..Len(v) |-> ToString(v[k])], d, 1)] : v \in Vecs, d \in Delims}
\* law: joining with the empty delimiter concatenates, and the number of separators is Len - 1 whatever the elements are
JoinLaws == \A a \in StrVecs : /\ JoinStrs(a, "", 1) = JoinStrs(SelectSeq(a, LAMBDA x : x # ""), "", 1)
                               /\ (Len(a) > 0 => JoinStrs(a, "-", 1) = a[1] \o JoinStrs([k \in 1..(Len(a) - 1) |-> "-" \o a[k + 1]], "", 1))

\* ---------------------------------------------------------------- strings as containers of characters; range adaptors; find; collate; new
\* (elements are single-character strings; "T" stands for a TAB - the driver writes the real character)
Chars == {"a", "b", " ", "T"}
CharVecs == UNION {[1..n -> Chars] : n \in 0..MaxLen}
IsWs(c) == c \in {" ", "T"}
RECURSIVE LTrim(_), RTrim(_)
LTrim(s) == IF s # <<>> /\ IsWs(Head(s)) THEN LTrim(Tail(s)) ELSE s
RTrim(s) == IF s # <<>> /\ IsWs(s[Len(s)]) THEN RTrim(SubSeq(s, 1, Len(s) - 1)) ELSE s
RECURSIVE WsPrefix(_, _)
WsPrefix(s, i) == IF i > Len(s) \/ ~IsWs(s[i]) THEN i - 1 ELSE WsPrefix(s, i + 1)
SpecS(f, a, n) ==
  CASE f = "ltrim" -> LTrim(a) [] f = "rtrim" -> RTrim(a) [] f = "trim" -> LTrim(RTrim(a))
    [] f = "take" -> SubSeq(a, 1, Clamp(n, Len(a))) [] f = "drop" -> SubSeq(a, Clamp(n, Len(a)) + 1, Len(a))
    [] f = "reverse" -> Rev(a) [] f = "retro" -> Rev(a) [] f = "retro_retro" -> a
    [] f = "take_while_ws" -> SubSeq(a, 1, WsPrefix(a, 1)) [] f = "drop_while_ws" -> LTrim(a)
    [] f = "filter_nows" -> SelectSeq(a, LAMBDA c : ~IsWs(c)) [] f = "concat_self" -> a \o a [] f = "new" -> <<>>
CasesChr == {[fn |-> f, a |-> a, n |-> 0, exp |-> SpecS(f, a, 0)] :
                f \in {"ltrim", "rtrim", "trim", "reverse", "retro", "retro_retro", "take_while_ws", "drop_while_ws", "filter_nows", "concat_self", "new"}, a \in CharVecs}
            \cup {[fn |-> f, a |-> a, n |-> n, exp |-> SpecS(f, a, n)] : f \in {"take", "drop"}, a \in CharVecs, n \in {-1, 0, 1, 2, MaxLen + 1}}
\* trimming laws
TrimLaws == \A a \in CharVecs : /\ SpecS("trim", SpecS("trim", a, 0), 0) = SpecS("trim", a, 0)
                               /\ (SpecS("trim", a, 0) # <<>> => (~IsWs(Head(SpecS("trim", a, 0))) /\ ~IsWs(SpecS("trim", a, 0)[Len(SpecS("trim", a, 0))])))
                               /\ SpecS("filter_nows", SpecS("trim", a, 0), 0) = SpecS("filter_nows", a, 0)
\* on vectors of ints: retro, find (the rest of the range from the first match, empty if none), collate, new
FirstEq(s, x) == LET c == {i \in 1..Len(s) : s[i] = x} IN IF c = {} THEN Len(s) + 1 ELSE CHOOSE i \in c : \A j \in c : i <= j
CasesMisc == {[fn |-> "retro", a |-> a, n |-> 0, exp |-> Rev(a)] : a \in Vecs} \cup {[fn |-> "retro_retro", a |-> a, n |-> 0, exp |-> a] : a \in Vecs}
             \cup {[fn |-> "find", a |-> a, n |-> x, exp |-> SubSeq(a, FirstEq(a, x), Len(a))] : a \in Vecs, x \in Vals \cup {7}}
             \cup {[fn |-> "collate", a |-> <<x, y>>, n |-> 0, exp |-> <<x, y>>] : x \in Vals, y \in Vals}
             \cup {[fn |-> "new", a |-> a, n |-> 0, exp |-> <<>>] : a \in Vecs}

\* ---------------------------------------------------------------- range OBJECTS as inputs
\* An algorithm handed a range (or a reversed range) held in a variable works on its own copy of the cursor: it computes what it
\* computes for the elements the range spans, in the range's order, and the caller's range still spans all of them afterwards (rest).
ViewOf(form, a) == IF form = "retro" THEN Rev(a) ELSE a
\* every algorithm starts with `r := range(input)` and pops r as it goes.  For a container that builds a fresh cursor; for a range
\* object range() returns a COPY (CloneRange; FALSE is the modelled regression: the caller's own cursor is walked).
Popped(fn, v, b, n, cb) ==
  CASE fn \in {"for_each", "map", "foldl", "sum", "product", "join"} -> Len(v)
    [] fn = "any_of" -> (LET k == FirstTrue(v, cb) IN IF k = 0 THEN Len(v) ELSE k - 1)       \* returns before popping the match
    [] fn = "all_of" -> (LET k == FirstFalse(v, cb) IN IF k = 0 THEN Len(v) ELSE k - 1)
    [] fn = "contains" -> (LET c == {i \in 1..Len(v) : v[i] = n} IN IF c = {} THEN Len(v) ELSE (CHOOSE i \in c : \A j \in c : i <= j) - 1)
    [] fn \in {"zip", "zip_with"} -> Min2(Len(v), Len(b))
RestAfter(fn, form, a, b, n, cb) == LET v == ViewOf(form, a) IN IF CloneRange THEN v ELSE SubSeq(v, Popped(fn, v, b, n, cb) + 1, Len(v))
RangeCase(fn, form, a, b, n, cb) == [fn |-> fn, form |-> form, a |-> a, b |-> b, n |-> n, cb |-> cb,
                                     exp |-> Spec(fn, ViewOf(form, a), b, n, cb), rest |-> RestAfter(fn, form, a, b, n, cb)]
Forms == {"range", "retro", "range_of_range"}
CasesRange ==
   {RangeCase(fn, fm, a, <<>>, 0, "") : fn \in {"for_each", "sum", "product", "join"}, fm \in Forms, a \in Vecs}
   \cup {RangeCase("map", fm, a, <<>>, 0, f) : fm \in Forms, a \in Vecs, f \in F1s}
   \cup {RangeCase(fn, fm, a, <<>>, 0, p) : fn \in {"any_of", "all_of"}, fm \in Forms, a \in Vecs, p \in Preds}
   \cup {RangeCase("foldl", fm, a, <<>>, n, f) : fm \in Forms, a \in Vecs, n \in {0, 2}, f \in F2s}
   \cup {RangeCase("contains", fm, a, <<>>, n, "") : fm \in Forms, a \in Vecs, n \in {-1, 2, 5}}
   \cup {RangeCase("zip", fm, a, b, 0, "") : fm \in Forms, a \in Vecs, b \in SmallVecs}
   \cup {RangeCase("zip_with", fm, a, b, 0, f) : fm \in Forms, a \in Vecs, b \in SmallVecs, f \in F2s}
\* "leave their inputs unmodified": the caller's range spans afterwards what it spanned before
InputRangeKept == \A c \in CasesRange : c.rest = ViewOf(c.form, c.a)

Export == ndJsonSerialize(IOEnv.OUT6, SetToSeq(CasesRange)) /\ ndJsonSerialize(IOEnv.OUT4, SetToSeq(CasesChr)) /\ ndJsonSerialize(IOEnv.OUT5, SetToSeq(CasesMisc)) /\ ndJsonSerialize(IOEnv.OUT, SetToSeq(CasesVec)) /\ ndJsonSerialize(IOEnv.OUT2, SetToSeq(CasesScalar)) /\ ndJsonSerialize(IOEnv.OUT3, SetToSeq(CasesStr))

VARIABLE dummy
Init == dummy = 0
Next == UNCHANGED dummy
=============================================================================
