--------------------------- MODULE PreludePinned ---------------------------
(* sanity of InputRangeKept: checked alone, with CloneRange = FALSE it must fail *)
EXTENDS Prelude
ASSUME InputRangeKept
=============================================================================
