--------------------------- MODULE JsonSpecExport ---------------------------
EXTENDS JsonSpec
ASSUME ExportTexts
ASSUME ExportTrees
=============================================================================
