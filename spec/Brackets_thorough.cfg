SPECIFICATION Spec
INVARIANTS StackIsOpeners DepthBounded TriviaMeansNoBrackets
PROPERTY StrayIsFinal
CONSTANTS
  Alphabet = {"(", ")", "[", "]", "{", "}", "a", "sp", "nl", "sc", "dq", "sq", "bq", "sl", "st", "hs", "bs", "dl"}
  MaxLen = 5
  ShardK = 0
  ShardN = 1
CHECK_DEADLOCK FALSE
