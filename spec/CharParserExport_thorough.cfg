INIT Init
NEXT Next
CONSTANTS
  MaxLen = 5
  Repaired = TRUE
