------------------------------ MODULE Threads ------------------------------
(* C13: one engine used from several threads.  The shared state of an engine and the critical  *)
(* sections that touch it, one action per lock operation / access, so that TLC explores every  *)
(* interleaving at critical-section grain:                                                     *)
(*   eng   Dispatch_Engine::m_mutex (shared_mutex)    guards functions, globals, types          *)
(*   conv  Type_Conversions::m_mutex (shared_mutex)   guards conversions / convertable types    *)
(*   chai  ChaiScript_Basic::m_mutex (shared_mutex)   guards used_files (together with use)      *)
(*   use   ChaiScript_Basic::m_use_mutex (recursive)  serialises use(), get_state, set_state     *)
(* Operations (dispatchkit.hpp / type_conversions.hpp / chaiscript_engine.hpp):                 *)
(*   AddFn   add_function: unique(eng); copy the overload vector, push, publish a NEW vector    *)
(*   GetFn   get_function: shared(eng); copy the pointer; use it outside the lock               *)
(*   AddConv add_conversion: unique(conv); insert; m_num_types = size (atomic)                  *)
(*   Query   thread_cache(): atomic read of m_num_types; refresh under shared(conv) if stale    *)
(*   Use     use(): lock(use); unique(chai); test used_files; UNLOCK chai; evaluate; relock;     *)
(*           insert into used_files; unlock both                                                *)
(*   GetState get_state: lock(use); shared(chai); shared(eng); copy everything                  *)
(* Every access to a shared variable is a Begin/End pair so that overlap is observable.         *)
EXTENDS Integers, Sequences, FiniteSets, TLC

CONSTANTS Thr,          \* thread ids
          Script,       \* [Thr -> Seq of operations], operation = [k, x]
          LockAdd,      \* FALSE: add_function without its unique_lock        (sanity mutant)
          UseOuter,     \* FALSE: use() without the recursive use mutex        (sanity mutant)
          CacheLocked   \* FALSE: thread_cache() refresh without the shared lock (sanity mutant)

Mutexes == {"eng", "conv", "chai", "use"}
None == 0          \* thread ids are positive integers

VARIABLES pc,        \* [Thr -> label]
          ip,        \* [Thr -> index into Script[t]]
          lockX,     \* [Mutexes -> holder or None]
          depthX,    \* [Mutexes -> recursion depth of the exclusive holder] (only "use" exceeds 1)
          lockS,     \* [Mutexes -> set of shared holders]
          inAcc,     \* set of <<thread, variable, "R"|"W">> between Begin and End
          fnVec,     \* published overload table: the set of registered function ids
          tmpVec,    \* [Thr -> private copy being built by add_function]
          returned,  \* registrations whose add_function has returned
          seen,      \* [Thr -> set of ids the thread found in its last GetFn]
          convs,     \* set of conversions
          numTypes,  \* atomic counter published by add_conversion
          cache,     \* [Thr -> per-thread copy of the convertable types]
          used,      \* used_files
          evals,     \* [file -> number of times it was evaluated]
          mustSee    \* [Thr -> registrations that had returned when the thread's GetFn began]
vars == <<pc, ip, lockX, depthX, lockS, inAcc, fnVec, tmpVec, returned, seen, convs, numTypes, cache, used, evals, mustSee>>

Files == {op.x : op \in UNION {{Script[t][i] : i \in 1..Len(Script[t])} : t \in Thr}}

Init == /\ pc = [t \in Thr |-> "next"] /\ ip = [t \in Thr |-> 1]
        /\ lockX = [m \in Mutexes |-> None] /\ depthX = [m \in Mutexes |-> 0] /\ lockS = [m \in Mutexes |-> {}]
        /\ inAcc = {} /\ fnVec = {} /\ tmpVec = [t \in Thr |-> {}] /\ returned = {}
        /\ seen = [t \in Thr |-> {}] /\ convs = {} /\ numTypes = 0 /\ cache = [t \in Thr |-> {}]
        /\ used = {} /\ evals = [f \in Files |-> 0] /\ mustSee = [t \in Thr |-> {}]

CurOp(t) == Script[t][ip[t]]
Goto(t, l) == pc' = [pc EXCEPT ![t] = l]

\* lock primitives
CanX(t, m) == (lockX[m] = None \/ (m = "use" /\ lockX[m] = t)) /\ lockS[m] \subseteq {}
AcqX(t, m) == /\ CanX(t, m)
              /\ lockX' = [lockX EXCEPT ![m] = t] /\ depthX' = [depthX EXCEPT ![m] = @ + 1] /\ UNCHANGED lockS
RelX(t, m) == /\ lockX[m] = t
              /\ depthX' = [depthX EXCEPT ![m] = @ - 1]
              /\ lockX' = [lockX EXCEPT ![m] = IF depthX[m] = 1 THEN None ELSE t] /\ UNCHANGED lockS
AcqS(t, m) == /\ lockX[m] = None
              /\ lockS' = [lockS EXCEPT ![m] = @ \cup {t}] /\ UNCHANGED <<lockX, depthX>>
RelS(t, m) == /\ t \in lockS[m]
              /\ lockS' = [lockS EXCEPT ![m] = @ \ {t}] /\ UNCHANGED <<lockX, depthX>>
NoLock == UNCHANGED <<lockX, depthX, lockS>>
Begin(t, v, mode) == inAcc' = inAcc \cup {<<t, v, mode>>}
End(t, v, mode) == inAcc' = inAcc \ {<<t, v, mode>>}

-----------------------------------------------------------------------------
Dispatch(t) ==
  /\ pc[t] = "next" /\ ip[t] <= Len(Script[t])
  /\ LET k == CurOp(t).k IN
     Goto(t, CASE k = "addfn" -> "af_lock" [] k = "getfn" -> "gf_lock" [] k = "addconv" -> "ac_lock"
                [] k = "query" -> "q_read" [] k = "use" -> "u_lock" [] k = "getstate" -> "gs_lock")
  /\ mustSee' = [mustSee EXCEPT ![t] = returned]
  /\ UNCHANGED <<ip, lockX, depthX, lockS, inAcc, fnVec, tmpVec, returned, seen, convs, numTypes, cache, used, evals>>

Finish(t) == /\ ip' = [ip EXCEPT ![t] = @ + 1] /\ Goto(t, "next")

\* ---- add_function
AfLock(t) == /\ pc[t] = "af_lock" /\ (IF LockAdd THEN AcqX(t, "eng") ELSE NoLock) /\ Goto(t, "af_copy")
             /\ UNCHANGED <<ip, inAcc, fnVec, tmpVec, returned, seen, convs, numTypes, cache, used, evals, mustSee>>
AfCopy(t) == /\ pc[t] = "af_copy" /\ Begin(t, "functions", "W")
             /\ tmpVec' = [tmpVec EXCEPT ![t] = fnVec \cup {CurOp(t).x}] /\ Goto(t, "af_publish") /\ NoLock
             /\ UNCHANGED <<ip, fnVec, returned, seen, convs, numTypes, cache, used, evals, mustSee>>
AfPublish(t) == /\ pc[t] = "af_publish" /\ fnVec' = tmpVec[t] /\ End(t, "functions", "W") /\ Goto(t, "af_unlock") /\ NoLock
                /\ UNCHANGED <<ip, tmpVec, returned, seen, convs, numTypes, cache, used, evals, mustSee>>
AfUnlock(t) == /\ pc[t] = "af_unlock" /\ (IF LockAdd THEN RelX(t, "eng") ELSE NoLock)
               /\ returned' = returned \cup {CurOp(t).x} /\ Finish(t)
               /\ UNCHANGED <<inAcc, fnVec, tmpVec, seen, convs, numTypes, cache, used, evals, mustSee>>

\* ---- get_function
GfLock(t) == /\ pc[t] = "gf_lock" /\ AcqS(t, "eng") /\ Goto(t, "gf_read")
             /\ UNCHANGED <<ip, inAcc, fnVec, tmpVec, returned, seen, convs, numTypes, cache, used, evals, mustSee>>
GfRead(t) == /\ pc[t] = "gf_read" /\ Begin(t, "functions", "R") /\ seen' = [seen EXCEPT ![t] = fnVec] /\ Goto(t, "gf_unlock") /\ NoLock
             /\ UNCHANGED <<ip, fnVec, tmpVec, returned, convs, numTypes, cache, used, evals, mustSee>>
GfUnlock(t) == /\ pc[t] = "gf_unlock" /\ End(t, "functions", "R") /\ RelS(t, "eng") /\ Finish(t)
               /\ UNCHANGED <<fnVec, tmpVec, returned, seen, convs, numTypes, cache, used, evals, mustSee>>

\* ---- add_conversion
AcLock(t) == /\ pc[t] = "ac_lock" /\ AcqX(t, "conv") /\ Goto(t, "ac_write")
             /\ UNCHANGED <<ip, inAcc, fnVec, tmpVec, returned, seen, convs, numTypes, cache, used, evals, mustSee>>
AcWrite(t) == /\ pc[t] = "ac_write" /\ Begin(t, "convs", "W") /\ convs' = convs \cup {CurOp(t).x} /\ Goto(t, "ac_count") /\ NoLock
              /\ UNCHANGED <<ip, fnVec, tmpVec, returned, seen, numTypes, cache, used, evals, mustSee>>
AcCount(t) == /\ pc[t] = "ac_count" /\ numTypes' = Cardinality(convs) /\ End(t, "convs", "W") /\ Goto(t, "ac_unlock") /\ NoLock
              /\ UNCHANGED <<ip, fnVec, tmpVec, returned, seen, convs, cache, used, evals, mustSee>>
AcUnlock(t) == /\ pc[t] = "ac_unlock" /\ RelX(t, "conv") /\ Finish(t)
               /\ UNCHANGED <<inAcc, fnVec, tmpVec, returned, seen, convs, numTypes, cache, used, evals, mustSee>>

\* ---- thread_cache()
QRead(t) == /\ pc[t] = "q_read"
            /\ IF Cardinality(cache[t]) # numTypes THEN Goto(t, "q_lock") /\ UNCHANGED ip ELSE Finish(t)
            /\ NoLock /\ UNCHANGED <<inAcc, fnVec, tmpVec, returned, seen, convs, numTypes, cache, used, evals, mustSee>>
QLock(t) == /\ pc[t] = "q_lock" /\ (IF CacheLocked THEN AcqS(t, "conv") ELSE NoLock) /\ Goto(t, "q_copy")
            /\ UNCHANGED <<ip, inAcc, fnVec, tmpVec, returned, seen, convs, numTypes, cache, used, evals, mustSee>>
QCopy(t) == /\ pc[t] = "q_copy" /\ Begin(t, "convs", "R") /\ cache' = [cache EXCEPT ![t] = convs] /\ Goto(t, "q_unlock") /\ NoLock
            /\ UNCHANGED <<ip, fnVec, tmpVec, returned, seen, convs, numTypes, used, evals, mustSee>>
QUnlock(t) == /\ pc[t] = "q_unlock" /\ End(t, "convs", "R") /\ (IF CacheLocked THEN RelS(t, "conv") ELSE NoLock) /\ Finish(t)
              /\ UNCHANGED <<fnVec, tmpVec, returned, seen, convs, numTypes, cache, used, evals, mustSee>>

\* ---- use(file)
ULock(t) == /\ pc[t] = "u_lock" /\ (IF UseOuter THEN AcqX(t, "use") ELSE NoLock) /\ Goto(t, "u_lock2")
            /\ UNCHANGED <<ip, inAcc, fnVec, tmpVec, returned, seen, convs, numTypes, cache, used, evals, mustSee>>
ULock2(t) == /\ pc[t] = "u_lock2" /\ AcqX(t, "chai") /\ Goto(t, "u_test")
             /\ UNCHANGED <<ip, inAcc, fnVec, tmpVec, returned, seen, convs, numTypes, cache, used, evals, mustSee>>
UTest(t) == /\ pc[t] = "u_test"
            /\ IF CurOp(t).x \in used THEN Goto(t, "u_unlock") /\ NoLock
               ELSE RelX(t, "chai") /\ Goto(t, "u_eval")             \* l2.unlock() before evaluating the file
            /\ UNCHANGED <<ip, inAcc, fnVec, tmpVec, returned, seen, convs, numTypes, cache, used, evals, mustSee>>
UEval(t) == /\ pc[t] = "u_eval" /\ evals' = [evals EXCEPT ![CurOp(t).x] = @ + 1] /\ Goto(t, "u_relock") /\ NoLock
            /\ UNCHANGED <<ip, inAcc, fnVec, tmpVec, returned, seen, convs, numTypes, cache, used, mustSee>>
URelock(t) == /\ pc[t] = "u_relock" /\ AcqX(t, "chai") /\ Goto(t, "u_mark")
              /\ UNCHANGED <<ip, inAcc, fnVec, tmpVec, returned, seen, convs, numTypes, cache, used, evals, mustSee>>
UMark(t) == /\ pc[t] = "u_mark" /\ used' = used \cup {CurOp(t).x} /\ Goto(t, "u_unlock") /\ NoLock
            /\ UNCHANGED <<ip, inAcc, fnVec, tmpVec, returned, seen, convs, numTypes, cache, evals, mustSee>>
UUnlock(t) == /\ pc[t] = "u_unlock" /\ RelX(t, "chai") /\ Goto(t, "u_unlock2")
              /\ UNCHANGED <<ip, inAcc, fnVec, tmpVec, returned, seen, convs, numTypes, cache, used, evals, mustSee>>
UUnlock2(t) == /\ pc[t] = "u_unlock2" /\ (IF UseOuter THEN RelX(t, "use") ELSE NoLock) /\ Finish(t)
               /\ UNCHANGED <<inAcc, fnVec, tmpVec, returned, seen, convs, numTypes, cache, used, evals, mustSee>>

\* ---- get_state
GsLock(t) == /\ pc[t] = "gs_lock" /\ AcqX(t, "use") /\ Goto(t, "gs_lock2")
             /\ UNCHANGED <<ip, inAcc, fnVec, tmpVec, returned, seen, convs, numTypes, cache, used, evals, mustSee>>
GsLock2(t) == /\ pc[t] = "gs_lock2" /\ AcqS(t, "chai") /\ Goto(t, "gs_lock3")
              /\ UNCHANGED <<ip, inAcc, fnVec, tmpVec, returned, seen, convs, numTypes, cache, used, evals, mustSee>>
GsLock3(t) == /\ pc[t] = "gs_lock3" /\ AcqS(t, "eng") /\ Begin(t, "functions", "R") /\ seen' = [seen EXCEPT ![t] = fnVec] /\ Goto(t, "gs_unlock")
              /\ UNCHANGED <<ip, fnVec, tmpVec, returned, convs, numTypes, cache, used, evals, mustSee>>
GsUnlock(t) == /\ pc[t] = "gs_unlock" /\ End(t, "functions", "R") /\ RelS(t, "eng") /\ Goto(t, "gs_unlock2")
               /\ UNCHANGED <<ip, fnVec, tmpVec, returned, seen, convs, numTypes, cache, used, evals, mustSee>>
GsUnlock2(t) == /\ pc[t] = "gs_unlock2" /\ RelS(t, "chai") /\ Goto(t, "gs_unlock3")
                /\ UNCHANGED <<ip, inAcc, fnVec, tmpVec, returned, seen, convs, numTypes, cache, used, evals, mustSee>>
GsUnlock3(t) == /\ pc[t] = "gs_unlock3" /\ RelX(t, "use") /\ Finish(t)
                /\ UNCHANGED <<inAcc, fnVec, tmpVec, returned, seen, convs, numTypes, cache, used, evals, mustSee>>

Step(t) == \/ Dispatch(t) \/ AfLock(t) \/ AfCopy(t) \/ AfPublish(t) \/ AfUnlock(t)
           \/ GfLock(t) \/ GfRead(t) \/ GfUnlock(t)
           \/ AcLock(t) \/ AcWrite(t) \/ AcCount(t) \/ AcUnlock(t)
           \/ QRead(t) \/ QLock(t) \/ QCopy(t) \/ QUnlock(t)
           \/ ULock(t) \/ ULock2(t) \/ UTest(t) \/ UEval(t) \/ URelock(t) \/ UMark(t) \/ UUnlock(t) \/ UUnlock2(t)
           \/ GsLock(t) \/ GsLock2(t) \/ GsLock3(t) \/ GsUnlock(t) \/ GsUnlock2(t) \/ GsUnlock3(t)

AllDone == \A t \in Thr : pc[t] = "next" /\ ip[t] > Len(Script[t])
Next == (\E t \in Thr : Step(t)) \/ (AllDone /\ UNCHANGED vars)
Spec == Init /\ [][Next]_vars
FairSpec == Spec /\ \A t \in Thr : WF_vars(Step(t))

-----------------------------------------------------------------------------
\* data-race freedom at the grain of the model: overlapping accesses to one variable, one of them a write
NoConflictingOverlap == \A a, b \in inAcc : (a[1] # b[1] /\ a[2] = b[2]) => (a[3] = "R" /\ b[3] = "R")
\* every registration that has returned is in the published table (none lost, all visible)
AllRegistrationsRetained == returned \subseteq fnVec
\* a thread's lookup sees every registration that had returned before the lookup began
VisibleAfterReturn == \A t \in Thr : pc[t] \in {"gf_unlock", "gs_unlock"} => mustSee[t] \subseteq seen[t]
UsedOnce == \A f \in Files : evals[f] <= 1
CacheNeverAhead == \A t \in Thr : cache[t] \subseteq convs
LockSanity == \A m \in Mutexes : (lockX[m] # None => lockS[m] = {}) /\ (depthX[m] > 1 => m = "use")
Terminates == <>AllDone

(* scripts for the shipped configurations *)
O(k, x) == [k |-> k, x |-> x]
ScriptA == [t \in {1, 2} |-> IF t = 1 THEN <<O("addfn", "f1"), O("use", "u"), O("getfn", "-")>>
                                       ELSE <<O("use", "u"), O("addfn", "f2"), O("getstate", "-")>>]
ScriptB == [t \in {1, 2} |-> IF t = 1 THEN <<O("addconv", "c1"), O("query", "-"), O("addfn", "f1")>>
                                       ELSE <<O("query", "-"), O("addconv", "c2"), O("query", "-")>>]
ScriptC == [t \in {1, 2, 3} |-> IF t = 1 THEN <<O("addfn", "f1"), O("use", "u"), O("query", "-")>>
                                 ELSE IF t = 2 THEN <<O("use", "u"), O("addconv", "c1"), O("getfn", "-")>>
                                 ELSE <<O("getstate", "-"), O("addfn", "f3"), O("use", "u")>>]
ScriptD == [t \in {1, 2, 3} |-> IF t = 1 THEN <<O("addfn", "f1"), O("use", "u"), O("query", "-"), O("getstate", "-")>>
                                 ELSE IF t = 2 THEN <<O("use", "u"), O("addconv", "c1"), O("getfn", "-"), O("addfn", "f2")>>
                                 ELSE <<O("getstate", "-"), O("addfn", "f3"), O("use", "v"), O("addconv", "c2")>>]
=============================================================================
