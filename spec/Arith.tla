------------------------------- MODULE Arith -------------------------------
(* C05: script arithmetic is C++ arithmetic.                                                *)
(* The typing rules the engine must follow are those of C++ on the operand types: integral  *)
(* promotion, the usual arithmetic conversions, "comparison yields bool", "shift yields the *)
(* promoted left operand", "compound assignment keeps the left operand's type and updates   *)
(* it in place".  This module states them over the (width, signedness, floating) class of   *)
(* the 12 operand kinds, states which (operator, operand class, value class) cells TRAP on  *)
(* the CPU and must therefore raise an exception, and which the four evaluation routes      *)
(* (runtime node, parse-time fold, right-constant fold, operator called as a function)      *)
(* must agree on.  Values wider than 32 bits and floating values are NOT computed here: the *)
(* driver computes them natively with the compiler's own arithmetic on the predicted types, *)
(* and also checks this table against decltype (a wrong table fails there, not silently).   *)
EXTENDS Integers, Sequences, FiniteSets, TLC, Json, IOUtils, SequencesExt

Ty(w, s, f) == [w |-> w, s |-> s, f |-> f]             \* width in bits, signed?, floating?
Types == [ i8 |-> Ty(8, TRUE, FALSE), u8 |-> Ty(8, FALSE, FALSE), i16 |-> Ty(16, TRUE, FALSE), u16 |-> Ty(16, FALSE, FALSE),
           i32 |-> Ty(32, TRUE, FALSE), u32 |-> Ty(32, FALSE, FALSE), i64 |-> Ty(64, TRUE, FALSE), u64 |-> Ty(64, FALSE, FALSE),
           f32 |-> Ty(32, TRUE, TRUE), f64 |-> Ty(64, TRUE, TRUE), f80 |-> Ty(80, TRUE, TRUE), char |-> Ty(8, TRUE, FALSE) ]
TNames == DOMAIN Types
Int32 == Ty(32, TRUE, FALSE)

\* [conv.prom]: integer types narrower than int become int
Promote(t) == IF ~t.f /\ t.w < 32 THEN Int32 ELSE t
\* [expr.arith.conv] on promoted types
UAC(a0, b0) ==
  LET a == Promote(a0)  b == Promote(b0) IN
  IF a.f \/ b.f THEN (IF a.f /\ b.f THEN (IF a.w >= b.w THEN a ELSE b) ELSE IF a.f THEN a ELSE b)
  ELSE IF a.s = b.s THEN (IF a.w >= b.w THEN a ELSE b)
  ELSE LET u == IF a.s THEN b ELSE a   s == IF a.s THEN a ELSE b IN
       IF u.w >= s.w THEN u                          \* unsigned rank >= signed rank
       ELSE s                                        \* the signed type is wider and holds every value of the unsigned one

ArithOps == {"+", "-", "*", "/"}
IntOps == {"%", "&", "|", "^"}
ShiftOps == {"<<", ">>"}
CmpOps == {"==", "!=", "<", ">", "<=", ">="}
AssignOps == {"+=", "-=", "*=", "/=", "%=", "&=", "|=", "^=", "<<=", ">>="}
UnaryOps == {"neg", "pos", "not", "inc", "dec"}          \* -a +a ~a ++a --a
BinOps == ArithOps \cup IntOps \cup ShiftOps \cup CmpOps \cup AssignOps
Bool == [w |-> 1, s |-> FALSE, f |-> FALSE]
Invalid == [w |-> 0, s |-> FALSE, f |-> FALSE]          \* not an operation of C++ on these types: the script call must fail

IntOnly(op) == op \in IntOps \cup ShiftOps \cup {"%=", "&=", "|=", "^=", "<<=", ">>=", "not"}
ResultClass(op, l, r) ==
  IF op \in UnaryOps THEN
     (IF op = "not" /\ l.f THEN Invalid ELSE IF op \in {"inc", "dec"} THEN l ELSE Promote(l))
  ELSE IF IntOnly(op) /\ (l.f \/ r.f) THEN Invalid
  ELSE IF op \in CmpOps THEN Bool
  ELSE IF op \in AssignOps THEN l                                        \* in place, the left operand keeps its type
  ELSE IF op \in ShiftOps THEN Promote(l)
  ELSE UAC(l, r)
InPlace(op) == op \in AssignOps \cup {"inc", "dec"}

\* value classes of the property's boundary set
CONSTANT ValClasses      \* subset of {"zero", "one", "mone", "two", "min", "max", "minp1", "maxm1", "pow", "nan", "inf", "ninf"}
FloatOnly == {"nan", "inf", "ninf"}          \* value classes that exist for floating types only
HasVal(t, v) == v \notin FloatOnly \/ t.f
IsDiv(op) == op \in {"/", "%", "/=", "%="}
\* the operation is carried out in this type
WorkType(op, l, r) == IF op \in AssignOps THEN UAC(l, r) ELSE ResultClass(op, l, r)
\* cells that trap the CPU (SIGFPE on the reference platform) and must raise an exception instead
Traps(op, l, r, lv, rv) ==
  /\ IsDiv(op) /\ ~l.f /\ ~r.f
  /\ \/ rv = "zero" \/ (rv = "min" /\ ~r.s)                      \* the smallest value of an unsigned type is zero
     \/ (LET wt == WorkType(op, l, r) IN
         wt.s /\ rv = "mone" /\ r.s /\ lv = "min" /\ Promote(l) = wt /\ l.w = wt.w)    \* MIN / -1 in the working type

\* table laws (sanity of the rules themselves)
Laws == /\ \A a \in TNames : Promote(Promote(Types[a])) = Promote(Types[a])
        /\ \A a, b \in TNames : UAC(Types[a], Types[b]) = UAC(Types[b], Types[a])
        /\ \A a, b \in TNames : LET u == UAC(Types[a], Types[b]) IN u.w >= 32 /\ (u.f = (Types[a].f \/ Types[b].f))
        /\ \A a, b \in TNames : \A op \in BinOps : LET c == ResultClass(op, Types[a], Types[b]) IN
              c = Invalid \/ c = Bool \/ c.w \in {8, 16, 32, 64, 80}
        /\ \A a, b \in TNames : \A op \in AssignOps : LET c == ResultClass(op, Types[a], Types[b]) IN c = Invalid \/ c = Types[a]

Cls(c) == IF c = Invalid THEN "invalid" ELSE IF c = Bool THEN "bool" ELSE (IF c.f THEN "f" ELSE IF c.s THEN "i" ELSE "u") \o ToString(c.w)
BinCellsAll == {[op |-> op, lt |-> a, rt |-> b, lv |-> lv, rv |-> rv, cls |-> Cls(ResultClass(op, Types[a], Types[b])),
              inplace |-> InPlace(op), trap |-> Traps(op, Types[a], Types[b], lv, rv)] :
                op \in BinOps, a \in TNames, b \in TNames, lv \in ValClasses, rv \in ValClasses}
UnCellsAll == {[op |-> op, lt |-> a, rt |-> a, lv |-> lv, rv |-> "zero", cls |-> Cls(ResultClass(op, Types[a], Types[a])),
             inplace |-> InPlace(op), trap |-> FALSE] : op \in UnaryOps, a \in TNames, lv \in ValClasses}
\* shift counts: a shift is carried out in the PROMOTED type of its left operand, so 8 and 16 are valid counts for 8- and 16-bit left
\* operands too (uint8_t(1) << 8 is the int 256); 31 is the last valid count of a 32-bit working type
ShiftCounts == {"eight", "sixt", "tone"}
AllShiftOps == ShiftOps \cup {"<<=", ">>="}
ShiftCells == {[op |-> op, lt |-> a, rt |-> b, lv |-> lv, rv |-> rv, cls |-> Cls(ResultClass(op, Types[a], Types[b])),
              inplace |-> InPlace(op), trap |-> FALSE] :
                op \in AllShiftOps, a \in TNames, b \in TNames, lv \in ValClasses, rv \in ShiftCounts}
\* NaN and the infinities exist for floating operands only
BinCells == {c \in BinCellsAll \cup ShiftCells : HasVal(Types[c.lt], c.lv) /\ HasVal(Types[c.rt], c.rv)}
UnCells == {c \in UnCellsAll : HasVal(Types[c.lt], c.lv)}
Export == ndJsonSerialize(IOEnv.OUT, SetToSeq(BinCells) \o SetToSeq(UnCells))

VARIABLE dummy
Init == dummy = 0
Next == UNCHANGED dummy
=============================================================================
