INIT Init
NEXT Next
CONSTANTS
  MaxLen = 3
  CloneRange = TRUE
