SPECIFICATION Spec
CONSTANTS
  KeyIsAddress = FALSE
  MaxOps = 6
INVARIANT Isolated
VIEW StateView
CHECK_DEADLOCK FALSE
