SPECIFICATION Spec
CONSTANTS
  KeyMode = "unique"
  CacheShared = FALSE
  WithConvs = FALSE
  MaxOps = 6
INVARIANT Isolated
VIEW StateView
CHECK_DEADLOCK FALSE
