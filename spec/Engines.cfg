SPECIFICATION Spec
CONSTANTS
  KeyMode = "unique"
  MaxOps = 6
INVARIANT Isolated
VIEW StateView
CHECK_DEADLOCK FALSE
