INIT Init
NEXT Next
CONSTANTS
  ValClasses = {"zero", "one", "mone", "min", "max", "nan", "inf"}
