INIT Init
NEXT Next
CONSTANTS
  DropIds = FALSE
  FoldAnyRight = TRUE
  FoldLeftConst = FALSE
