INIT Init
NEXT Next
CONSTANTS
  Family = "small"
  NRandom = 0
  ShardK = 0
  ShardN = 8
