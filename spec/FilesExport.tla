---------------------------- MODULE FilesExport ----------------------------
EXTENDS Files
ASSUME ExportUse
ASSUME ExportLoad
=============================================================================
