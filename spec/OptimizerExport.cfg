INIT Init
NEXT Next
CONSTANT DropIds = FALSE
