------------------------------- MODULE Files -------------------------------
(* C19: evaluating a file means evaluating its bytes; use() evaluates once.                 *)
(*                                                                                          *)
(* Part 1 - load_file / skip_bom (chaiscript_engine.hpp) transcribed INCLUDING the stream   *)
(* state of std::ifstream (a read of 3 bytes from a shorter file sets failbit; seekg on a   *)
(* failed stream does nothing; a later read then delivers nothing and the pre-sized buffer  *)
(* stays zero-filled) next to the specification Content(bytes) = bytes minus one leading    *)
(* UTF-8 byte order mark.  TLC checks LoadImpl = Content for every file over the byte       *)
(* classes up to MaxLen.                                                                    *)
(*                                                                                          *)
(* Part 2 - use(): search paths in order, evaluate a file the first time its (path + name)  *)
(* is used, mark it AFTER a successful evaluation, propagate a nested failure.  A pure      *)
(* reference machine StepUse is run over every history of use()/eval_file() calls on a      *)
(* small file system; its predictions are replayed into the real engine (mode G).           *)
EXTENDS Integers, Sequences, FiniteSets, TLC, Json, IOUtils, SequencesExt

CONSTANTS MaxLen, ClearOnShort     \* ClearOnShort: skip_bom clears the stream state before rewinding

Bytes == {"EF", "BB", "BF", "1", "NL", "NUL", "CR", "SUB"}      \* SUB = 0x1A: binary reading must not stop at it; CR must survive
AllFiles == UNION {[1..n -> Bytes] : n \in 0..MaxLen}

HasBom(b) == Len(b) >= 3 /\ b[1] = "EF" /\ b[2] = "BB" /\ b[3] = "BF"
Content(b) == IF HasBom(b) THEN SubSeq(b, 4, Len(b)) ELSE b

\* std::ifstream as far as load_file uses it: [pos, fail]
LoadImpl(b) ==
  LET size == Len(b)
      \* skip_bom: read(buffer, 3)
      short == size < 3
      afterRead == [pos |-> IF short THEN size ELSE 3, fail |-> short]
      bom == HasBom(b)                                   \* a short read leaves the rest of the buffer NUL: never a BOM
      \* seekg(3) on a BOM (stream is good); otherwise seekg(0), which a failed stream ignores
      afterSeek == IF bom THEN [pos |-> 3, fail |-> FALSE]
                   ELSE IF afterRead.fail /\ ~ClearOnShort THEN afterRead
                   ELSE [pos |-> 0, fail |-> FALSE]
      n == IF bom THEN size - 3 ELSE size
  IN IF n = 0 THEN <<>>
     ELSE IF afterSeek.fail THEN [i \in 1..n |-> "NUL"]              \* read() on a failed stream: the vector stays zero-filled
     ELSE SubSeq(b, afterSeek.pos + 1, afterSeek.pos + n)

LoadIsContent == \A b \in AllFiles : LoadImpl(b) = Content(b)
LoadDisagreements == {b \in AllFiles : LoadImpl(b) # Content(b)}

-----------------------------------------------------------------------------
(* use() *)
Names == {"a", "b"}
Paths == {"p1", "p2"}                       \* searched in this order
Kinds == {"ok", "bad", "nest", "nestmiss"}  \* evaluates fine | raises an eval_error | use("b") inside | use("zz") inside (missing)
\* a file system: [path, name] -> kind or "none"
FileSystems == [Paths \X Names -> Kinds \cup {"none"}]
PathSeq == <<"p1", "p2">>

UOp(k, n, p) == [k |-> k, n |-> n, p |-> p]
UOps == {UOp("use", n, "") : n \in Names \cup {"zz"}} \cup {UOp("eval_file", n, p) : n \in Names, p \in Paths}

\* machine: [used: set of <<path,name>>, evals: [<<path,name>> -> Nat]]
M0 == [used |-> {}, evals |-> [pn \in Paths \X Names |-> 0]]
Kind(fs, p, n) == IF n \in Names THEN fs[<<p, n>>] ELSE "none"

RECURSIVE UseRef(_, _, _, _, _), EvalFileRef(_, _, _, _, _)
\* result: [m, res] with res \in {"ok", "err" (eval_error of the file), "notfound:<name>"}
\* depth bounds the recursion of nested includes (a uses b uses a ... cannot loop: a is marked only after its evaluation,
\* so mutual inclusion would recurse for ever in the real engine too; such file systems are excluded below)
EvalFileRef(fs, m, p, n, d) ==
  LET k == Kind(fs, p, n) IN
  IF k = "none" THEN [m |-> m, res |-> "notfound:" \o n]
  ELSE LET m1 == [m EXCEPT !.evals[<<p, n>>] = @ + 1] IN
       CASE k = "ok" -> [m |-> m1, res |-> "ok"]
         [] k = "bad" -> [m |-> m1, res |-> "err"]
         [] k = "nest" -> (IF d = 0 THEN [m |-> m1, res |-> "ok"] ELSE UseRef(fs, m1, "b", 1, d - 1))
         [] k = "nestmiss" -> (IF d = 0 THEN [m |-> m1, res |-> "ok"] ELSE UseRef(fs, m1, "zz", 1, d - 1))

\* use(name): paths in order starting at index i
UseRef(fs, m, n, i, d) ==
  IF i > Len(PathSeq) THEN [m |-> m, res |-> "notfound:" \o n]
  ELSE LET p == PathSeq[i] IN
       IF <<p, n>> \in m.used THEN [m |-> m, res |-> "ok"]                       \* already used: no-op
       ELSE LET r == EvalFileRef(fs, m, p, n, d) IN
            IF r.res = "ok" THEN [m |-> [r.m EXCEPT !.used = @ \cup {<<p, n>>}], res |-> "ok"]
            ELSE IF r.res = "notfound:" \o n /\ Kind(fs, p, n) = "none" THEN UseRef(fs, r.m, n, i + 1, d)   \* not in this path: try the next
            ELSE r                                                                  \* its own failure, or a nested one: propagates

StepUse(fs, m, op) == IF op.k = "use" THEN UseRef(fs, m, op.n, 1, 2) ELSE EvalFileRef(fs, m, op.p, op.n, 2)

RECURSIVE RunUse(_, _, _, _)
RunUse(fs, m, ops, i) == IF i > Len(ops) THEN <<>>
                         ELSE LET r == StepUse(fs, m, ops[i]) IN
                              << [res |-> r.res, evals |-> [pn \in Paths \X Names |-> r.m.evals[pn]]] >> \o RunUse(fs, r.m, ops, i + 1)

\* file systems without inclusion cycles: "nest" (uses b) is allowed only for file a
SaneFS == {fs \in FileSystems : \A p \in Paths : fs[<<p, "b">>] \notin {"nest"}}

\* invariants of the reference itself, evaluated on every exported history
UsedOnceRef(fs, ops) == LET rs == RunUse(fs, M0, ops, 1) IN
   \A i \in 1..Len(rs) : \A pn \in Paths \X Names :
      (\A j \in 1..i : ops[j].k = "use") => rs[i].evals[pn] <= 1 \/ fs[pn] \in {"bad", "nestmiss", "nest"}

\* histories are drawn by the caller (seeded, gen/checks/c19.py) and read from IOEnv.IN; TLC computes what must happen
FsOf(j) == [pn \in Paths \X Names |-> j[pn[1]][pn[2]]]
FsJson(fs) == [p \in Paths |-> [n \in Names |-> fs[<<p, n>>]]]
EvalsJson(ev) == [p \in Paths |-> [n \in Names |-> ev[<<p, n>>]]]
UseRecord(h) == LET fs == FsOf(h.fs)
                    rs == RunUse(fs, M0, h.ops, 1)
                IN [id |-> h.id, fs |-> h.fs, ops |-> h.ops,
                    expect |-> [i \in 1..Len(rs) |-> [res |-> rs[i].res, evals |-> EvalsJson(rs[i].evals)]]]
ExportUse == LET hs == ndJsonDeserialize(IOEnv.IN) IN ndJsonSerialize(IOEnv.OUT, [i \in 1..Len(hs) |-> UseRecord(hs[i])])
ExportLoad == ndJsonSerialize(IOEnv.OUT2, LET fsq == SetToSeq(AllFiles) IN [i \in 1..Len(fsq) |-> [id |-> i, bytes |-> fsq[i], content |-> Content(fsq[i])]])

VARIABLE dummy
Init == dummy = 0
Next == UNCHANGED dummy
=============================================================================
