------------------------------- MODULE JsonSpec -------------------------------
(* C18: the hand-written JSON cursor parser (include/chaiscript/utility/json.hpp,            *)
(* JSONParser), dump()/json_escape and the type mapping of json_wrap.hpp, transcribed over   *)
(* (text, offset).  A text is a sequence of one-character strings; At(i) raises "oob" when   *)
(* i >= Len, which is what std::string::at does and what from_json turns into an error, so   *)
(* every read the parser makes is bounds-checked BY CONSTRUCTION of the transcription and    *)
(* the model shows where the code relies on that (OffsetSafe).                               *)
(* Results: [ok, err, v, off].  Values: [t, i, s, keys, kids] (one shape for all kinds).     *)
EXTENDS Integers, Sequences, FiniteSets, TLC, Json, IOUtils, SequencesExt

CONSTANTS MaxTextLen, MaxDepth

V(t, i, s, keys, kids) == [t |-> t, i |-> i, s |-> s, keys |-> keys, kids |-> kids]
Null == V("null", 0, <<>>, <<>>, <<>>)
BoolV(b) == V("bool", IF b THEN 1 ELSE 0, <<>>, <<>>, <<>>)
IntV(neg, digits) == V("int", IF neg THEN 1 ELSE 0, digits, <<>>, <<>>)       \* value = (-1)^neg * parse_num(digits), computed by the driver
DblV(neg, digits, expneg, expd) == V("dbl", (IF neg THEN 1 ELSE 0) + (IF expneg THEN 2 ELSE 0), digits, <<expd>>, <<>>)
StrV(s) == V("str", 0, s, <<>>, <<>>)
ArrV(kids) == V("arr", 0, <<>>, <<>>, kids)
ObjV(keys, kids) == V("obj", 0, <<>>, keys, kids)

Res(ok, err, v, off) == [ok |-> ok, err |-> err, v |-> v, off |-> off]
Ok(v, off) == Res(TRUE, "", v, off)
Fail(err, off) == Res(FALSE, err, Null, off)

Digits == {"0", "1", "2", "9"}
IsSpace(c) == c \in {" ", "NL"}
Has(str, i) == i < Len(str)                       \* 0-based offsets
Ch(str, i) == str[i + 1]

RECURSIVE SkipWs(_, _)
\* consume_ws: while (isspace(str.at(offset)) && offset <= size) ++offset   -- at() raises at offset = size
SkipWs(str, off) == IF ~Has(str, off) THEN -1                                   \* -1: out_of_range raised
                    ELSE IF IsSpace(Ch(str, off)) THEN SkipWs(str, off + 1) ELSE off

Matches(str, off, word) == off + Len(word) <= Len(str) /\ \A k \in 1..Len(word) : str[off + k] = word[k]

\* ---- parse_string: offset at the opening quote
RECURSIVE PStr(_, _, _)
PStr(str, off, acc) ==      \* off: index of the next character to read
  IF ~Has(str, off) THEN Fail("oob", off)
  ELSE LET c == Ch(str, off) IN
       IF c = "\"" THEN Ok(StrV(acc), off + 1)
       ELSE IF c # "\\" THEN PStr(str, off + 1, Append(acc, c))
       ELSE IF ~Has(str, off + 1) THEN Fail("oob", off + 1)
       ELSE LET e == Ch(str, off + 1) IN
            CASE e \in {"\"", "\\", "/"} -> PStr(str, off + 2, Append(acc, e))
              [] e = "n" -> PStr(str, off + 2, Append(acc, "NL"))
              [] e = "u" -> (IF ~Has(str, off + 5) THEN Fail("oob", off + 2)
                             ELSE IF \A k \in 2..5 : Ch(str, off + k) \in Digits \cup {"a", "e"}
                                  THEN PStr(str, off + 6, acc \o <<"\\", "u">> \o SubSeq(str, off + 3, off + 6))
                                  ELSE Fail("rt", off + 2))
              [] OTHER -> PStr(str, off + 2, Append(acc, "\\"))        \* unknown escape: keeps a backslash, drops the letter

\* ---- parse_number: offset at the first character
RECURSIVE NumLoop(_, _, _, _), ExpLoop(_, _, _)
\* returns <<off after loop, val, isDouble, last char read>>
NumLoop(str, off, val, dbl) ==
  IF ~Has(str, off) THEN <<off, val, dbl, IF val = <<>> THEN "NUL" ELSE val[Len(val)]>>
  ELSE LET c == Ch(str, off) IN
       IF c \in Digits THEN NumLoop(str, off + 1, Append(val, c), dbl)
       ELSE IF c = "." /\ ~dbl THEN NumLoop(str, off + 1, Append(val, c), TRUE)
       ELSE <<off + 1, val, dbl, c>>
\* returns <<off, exp digits, error?>>
ExpLoop(str, off, acc) ==
  IF ~Has(str, off) THEN <<off, acc, FALSE>>
  ELSE LET c == Ch(str, off) IN
       IF c \in Digits THEN ExpLoop(str, off + 1, Append(acc, c))
       ELSE IF ~IsSpace(c) /\ c \notin {",", "]", "}"} THEN <<off + 1, acc, TRUE>>
       ELSE <<off + 1, acc, FALSE>>
Terminator(c) == IsSpace(c) \/ c \in {",", "]", "}"}

PNum(str, off0) ==
  LET neg == Has(str, off0) /\ Ch(str, off0) = "-"
      off1 == IF neg THEN off0 + 1 ELSE off0
      l == NumLoop(str, off1, <<>>, FALSE)
      off2 == l[1]  val == l[2]  dbl == l[3]  c == l[4]
  IN IF Has(str, off2) /\ c = "e" THEN
        LET s == Ch(str, off2)                       \* c = str.at(offset++)
            expneg == s = "-"
            off3 == IF s \in {"-", "+"} THEN off2 + 1 ELSE off2
            e == ExpLoop(str, off3, <<>>)
        IN IF e[3] THEN Fail("rt", e[1])
           ELSE Ok(IF dbl \/ e[2] # <<>> THEN DblV(neg, val, expneg, e[2]) ELSE IntV(neg, val), e[1] - 1)   \* "1e" without digits stays integral
     ELSE IF Has(str, off2) /\ ~Terminator(c) THEN Fail("rt", off2)      \* "unexpected character" - only when more text follows it
     ELSE Ok(IF dbl THEN DblV(neg, val, FALSE, <<>>) ELSE IntV(neg, val), off2 - 1)

\* ---- parse_next / parse_array / parse_object with a recursion-depth budget (the native stack in the code)
RECURSIVE PNext(_, _, _), PArr(_, _, _, _), PObj(_, _, _, _, _)
PNext(str, off0, depth) ==
  IF depth > MaxDepth THEN Fail("depth", off0)
  ELSE LET off == SkipWs(str, off0) IN
  IF off < 0 THEN Fail("oob", off0)
  ELSE LET c == Ch(str, off) IN
    CASE c = "[" -> (LET o1 == SkipWs(str, off + 1) IN
                     IF o1 < 0 THEN Fail("oob", off + 1)
                     ELSE IF Ch(str, o1) = "]" THEN Ok(ArrV(<<>>), o1 + 1)
                     ELSE PArr(str, o1, depth, <<>>))
      [] c = "{" -> (LET o1 == SkipWs(str, off + 1) IN
                     IF o1 < 0 THEN Fail("oob", off + 1)
                     ELSE IF Ch(str, o1) = "}" THEN Ok(ObjV(<<>>, <<>>), o1 + 1)
                     ELSE PObj(str, o1, depth, <<>>, <<>>))
      [] c = "\"" -> PStr(str, off + 1, <<>>)
      [] c = "t" -> (IF Matches(str, off, <<"t", "r", "u", "e">>) THEN Ok(BoolV(TRUE), off + 4) ELSE Fail("rt", off))
      [] c = "f" -> (IF Matches(str, off, <<"f", "a", "l", "s", "e">>) THEN Ok(BoolV(FALSE), off + 5) ELSE Fail("rt", off))
      [] c = "n" -> (IF Matches(str, off, <<"n", "u", "l", "l">>) THEN Ok(Null, off + 4) ELSE Fail("rt", off))
      [] c \in Digits \cup {"-"} -> PNum(str, off)
      [] OTHER -> Fail("rt", off)

\* for (; offset < size;) { Array[index++] = parse_next; consume_ws; ',' -> continue; ']' -> break; else throw }
PArr(str, off, depth, acc) ==
  IF ~Has(str, off) THEN Ok(ArrV(acc), off)                       \* loop condition false: returns what it has
  ELSE LET r == PNext(str, off, depth + 1) IN
       IF ~r.ok THEN r
       ELSE LET o1 == SkipWs(str, r.off) IN
            IF o1 < 0 THEN Fail("oob", r.off)
            ELSE LET c == Ch(str, o1) IN
                 IF c = "," THEN PArr(str, o1 + 1, depth, Append(acc, r.v))
                 ELSE IF c = "]" THEN Ok(ArrV(Append(acc, r.v)), o1 + 1)
                 ELSE Fail("rt", o1)

KeyOf(v) == IF v.t = "str" THEN v.s ELSE <<>>                     \* Key.to_string(): "" for anything but a string
Put(keys, kids, k, v) == LET i == SelectInSeq(keys, LAMBDA x : x = k) IN
                         IF i = 0 THEN <<Append(keys, k), Append(kids, v)>>
                         ELSE <<keys, [kids EXCEPT ![i] = v]>>
PObj(str, off, depth, keys, kids) ==
  IF ~Has(str, off) THEN Ok(ObjV(keys, kids), off)
  ELSE LET k == PNext(str, off, depth + 1) IN
       IF ~k.ok THEN k
       ELSE LET o1 == SkipWs(str, k.off) IN
            IF o1 < 0 THEN Fail("oob", k.off)
            ELSE IF Ch(str, o1) # ":" THEN Fail("rt", o1)
            ELSE LET o2 == SkipWs(str, o1 + 1) IN
                 IF o2 < 0 THEN Fail("oob", o1 + 1)
                 ELSE LET v == PNext(str, o2, depth + 1) IN
                      IF ~v.ok THEN v
                      ELSE LET o3 == SkipWs(str, v.off)
                               kv == Put(keys, kids, KeyOf(k.v), v.v) IN
                           IF o3 < 0 THEN Fail("oob", v.off)
                           ELSE IF Ch(str, o3) = "," THEN PObj(str, o3 + 1, depth, kv[1], kv[2])
                           ELSE IF Ch(str, o3) = "}" THEN Ok(ObjV(kv[1], kv[2]), o3 + 1)
                           ELSE Fail("rt", o3)

Parse(str) == PNext(str, 0, 0)        \* JSON::Load; trailing text after the first value is ignored

-----------------------------------------------------------------------------
(* dump (layout simplified to one line: the parser skips the white space dump inserts) and json_escape *)
RECURSIVE Esc(_), Dump(_), DumpSeq(_, _), DumpObj(_, _, _)
Esc(s) == IF s = <<>> THEN <<>>
          ELSE LET c == Head(s) IN
               (CASE c = "\"" -> <<"\\", "\"">> [] c = "\\" -> <<"\\", "\\">> [] c = "NL" -> <<"\\", "n">> [] OTHER -> <<c>>) \o Esc(Tail(s))
DumpSeq(kids, i) == IF i > Len(kids) THEN <<>> ELSE (IF i > 1 THEN <<",", " ">> ELSE <<>>) \o Dump(kids[i]) \o DumpSeq(kids, i + 1)
DumpObj(keys, kids, i) == IF i > Len(keys) THEN <<>>
                          ELSE (IF i > 1 THEN <<",", "NL">> ELSE <<>>) \o <<"\"">> \o Esc(keys[i]) \o <<"\"", " ", ":", " ">> \o Dump(kids[i]) \o DumpObj(keys, kids, i + 1)
Dump(v) == CASE v.t = "null" -> <<"n", "u", "l", "l">>
             [] v.t = "bool" -> (IF v.i = 1 THEN <<"t", "r", "u", "e">> ELSE <<"f", "a", "l", "s", "e">>)
             [] v.t = "int" -> (IF v.i = 1 THEN <<"-">> ELSE <<>>) \o v.s
             [] v.t = "str" -> <<"\"">> \o Esc(v.s) \o <<"\"">>
             [] v.t = "arr" -> <<"[">> \o DumpSeq(v.kids, 1) \o <<"]">>
             [] v.t = "obj" -> <<"{", "NL">> \o DumpObj(v.keys, v.kids, 1) \o <<"NL", "}">>
             [] OTHER -> <<"0">>

-----------------------------------------------------------------------------
(* the explored spaces *)
Alphabet == {"[", "]", "{", "}", "\"", ":", ",", "1", "-", ".", "e", "\\", " ", "n"}
Texts == UNION {[1..n -> Alphabet] : n \in 0..MaxTextLen}

\* "NUL" is the byte 0: json_escape and the parser must treat it like any other byte (C strings end there, std::string does not)
StrAtoms == {<<>>, <<"a">>, <<"\"">>, <<"\\">>, <<"NL">>, <<"\\", "u">>, <<"a", "\\">>,
             <<"NUL">>, <<"a", "NUL", "\"">>, <<"NUL", "\\">>, <<"NUL", "NL", "a">>, <<"a", "NUL", "a", "\"", "a">>}
Leaves == {Null, BoolV(TRUE), BoolV(FALSE), IntV(FALSE, <<"0">>), IntV(TRUE, <<"1">>), IntV(FALSE, <<"2", "9">>)} \cup {StrV(s) : s \in StrAtoms}
Keys == {<<>>, <<"a">>, <<"\"">>, <<"a", "NUL", "\"">>}
Trees1 == Leaves \cup {ArrV(<<>>), ObjV(<<>>, <<>>)}
             \cup {ArrV(<<a>>) : a \in Leaves} \cup {ArrV(<<a, b>>) : a \in Leaves, b \in {Null, IntV(TRUE, <<"1">>), StrV(<<"\"">>)}}
             \cup {ObjV(<<k>>, <<a>>) : k \in Keys, a \in Leaves}
             \cup {ObjV(<<<<"a">>, <<"b">>>>, <<a, b>>) : a \in {Null, StrV(<<"\\">>)}, b \in {IntV(FALSE, <<"0">>), BoolV(TRUE)}}
Trees2 == Trees1 \cup {ArrV(<<a>>) : a \in Trees1} \cup {ObjV(<<<<"a">>>>, <<a>>) : a \in Trees1}
             \cup {ArrV(<<a, ObjV(<<<<"a">>>>, <<b>>)>>) : a \in {Null, ArrV(<<>>)}, b \in Trees1}

\* C18 on the model
RoundTrip == \A v \in Trees2 : LET r == Parse(Dump(v)) IN r.ok /\ r.v = v
RECURSIVE NoDbl(_)
NoDbl(v) == v.t # "dbl" /\ \A k \in 1..Len(v.kids) : NoDbl(v.kids[k])
\* from_json(to_json(from_json(t))) = from_json(t) for every accepted text (floating values are compared numerically by the driver)
Idempotent == \A t \in Texts : LET r == Parse(t) IN
                 (r.ok /\ NoDbl(r.v)) => LET r2 == Parse(Dump(r.v)) IN r2.ok /\ r2.v = r.v
ParsesOrThrows == \A t \in Texts : LET r == Parse(t) IN r.ok \/ r.err \in {"oob", "rt", "depth"}
OffsetSafe == \A t \in Texts : LET r == Parse(t) IN r.off >= 0 /\ r.off <= Len(t) + 1

ExportTexts == ndJsonSerialize(IOEnv.OUT, LET ts == SetToSeq(Texts) IN [i \in 1..Len(ts) |-> LET r == Parse(ts[i]) IN [id |-> i, text |-> ts[i], ok |-> r.ok, err |-> r.err, v |-> r.v]])
ExportTrees == ndJsonSerialize(IOEnv.OUT2, LET vs == SetToSeq(Trees2) IN [i \in 1..Len(vs) |-> [id |-> i, v |-> vs[i], text |-> Dump(vs[i])]])

VARIABLE dummy
Init == dummy = 0
Next == UNCHANGED dummy
=============================================================================
