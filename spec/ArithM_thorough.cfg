INIT Init
NEXT Next
CONSTANTS
  ValClasses = {"zero", "one", "mone", "two", "min", "max", "minp1", "maxm1", "pow", "nan", "inf", "ninf"}
