INIT Init
NEXT Next
CONSTANTS
  MaxLen = 4
  CloneRange = TRUE
