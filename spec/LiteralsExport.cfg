INIT Init
NEXT Next
