---------------------------- MODULE PositionOps ----------------------------
(* C20: the parser's cursor (chaiscript_parser.hpp, struct Position) and the low-level      *)
(* scanners that move it.  A text is a sequence of character CLASSES:                        *)
(*   "v" any token character   "sp" space/tab   "nl" '\n'   "cr" '\r'   "sl" '/'   "st" '*'  *)
(*   "hs" '#'   "sc" ';'   "dot" '.'                                                         *)
(* The cursor keeps line, col and ONE remembered column (m_last_col) that operator-- uses    *)
(* to step back across a line end.  Inc/Dec/Minus transcribe operator++ / operator-- /       *)
(* operator-; SkipWS, SkipComment, Eol_ transcribe the scanners (including the two places    *)
(* that step back across a line end: `m_position -= 2` after a line comment ended by CRLF,   *)
(* `--m_position` after one ended by LF) and DotBackup the look-ahead for `.member` on a     *)
(* following line (`auto start = --m_position; while (Eol()) {}`).                           *)
(*                                                                                          *)
(* State machine (M): any text over the alphabet up to MaxLen, any sequence of scanner calls *)
(* the parser can make; CoordsTrue: in every state line/col are the true coordinates of the  *)
(* cursor.  ArithmeticMinus = TRUE is the modelled regression (operator- as arithmetic on    *)
(* the column): TLC must find CoordsTrue violated.                                           *)
(* Function (G): Scan(text) = the cursor's coordinates at every token character, used to predict   *)
(* the location of every labelled node of generated programs.                                *)
EXTENDS Integers, Sequences, FiniteSets, TLC

CONSTANT ArithmeticMinus

P0 == [i |-> 1, line |-> 1, col |-> 1, last |-> 1]
At(t, i) == IF i >= 1 /\ i <= Len(t) THEN t[i] ELSE "end"
HasMore(t, p) == p.i <= Len(t)
Inc(t, p) == IF ~HasMore(t, p) THEN p
             ELSE IF t[p.i] = "nl" THEN [i |-> p.i + 1, line |-> p.line + 1, col |-> 1, last |-> p.col]
             ELSE [p EXCEPT !.i = @ + 1, !.col = @ + 1]
Dec(t, p) == IF t[p.i - 1] = "nl" THEN [p EXCEPT !.i = @ - 1, !.line = @ - 1, !.col = p.last]
             ELSE [p EXCEPT !.i = @ - 1, !.col = @ - 1]
Minus2(t, p) == IF ArithmeticMinus THEN [p EXCEPT !.i = @ - 2, !.col = @ - 2] ELSE Dec(t, Dec(t, p))

\* ground truth
NlBefore(t, i) == {k \in 1..(i - 1) : t[k] = "nl"}
TrueLine(t, i) == 1 + Cardinality(NlBefore(t, i))
TrueCol(t, i) == IF NlBefore(t, i) = {} THEN i ELSE i - (CHOOSE m \in NlBefore(t, i) : \A k \in NlBefore(t, i) : k <= m)

IsCrLf(t, i) == At(t, i) = "cr" /\ At(t, i + 1) = "nl"
IsEndLine(t, i) == At(t, i) = "nl" \/ IsCrLf(t, i)

\* Eol_(t_eos): "\r\n" | "\n" | (";" unless t_eos); sets col = 1 after a line end
EolU(t, p, eos) ==
  IF IsCrLf(t, p.i) THEN [ok |-> TRUE, p |-> [Inc(t, Inc(t, p)) EXCEPT !.col = 1]]
  ELSE IF At(t, p.i) = "nl" THEN [ok |-> TRUE, p |-> [Inc(t, p) EXCEPT !.col = 1]]
  ELSE IF ~eos /\ At(t, p.i) = "sc" THEN [ok |-> TRUE, p |-> Inc(t, p)]
  ELSE [ok |-> FALSE, p |-> p]

RECURSIVE BlockComment(_, _), LineComment(_, _), SkipWS(_, _, _)
BlockComment(t, p) ==
  IF ~HasMore(t, p) THEN p
  ELSE IF At(t, p.i) = "st" /\ At(t, p.i + 1) = "sl" THEN Inc(t, Inc(t, p))
  ELSE LET e == EolU(t, p, FALSE) IN IF e.ok THEN BlockComment(t, e.p) ELSE BlockComment(t, Inc(t, p))
\* a line comment stops BEFORE its line end: the scanner has to step back across it
LineComment(t, p) ==
  IF ~HasMore(t, p) THEN p
  ELSE IF IsCrLf(t, p.i) THEN Minus2(t, Inc(t, Inc(t, p)))
  ELSE IF At(t, p.i) = "nl" THEN Dec(t, Inc(t, p))
  ELSE LineComment(t, Inc(t, p))
SkipComment(t, p) ==
  IF At(t, p.i) = "sl" /\ At(t, p.i + 1) = "st" THEN [ok |-> TRUE, p |-> BlockComment(t, Inc(t, Inc(t, p)))]
  ELSE IF At(t, p.i) = "sl" /\ At(t, p.i + 1) = "sl" THEN [ok |-> TRUE, p |-> LineComment(t, Inc(t, Inc(t, p)))]
  ELSE IF At(t, p.i) = "hs" THEN [ok |-> TRUE, p |-> LineComment(t, Inc(t, p))]
  ELSE [ok |-> FALSE, p |-> p]
SkipWS(t, p, skipcr) ==
  IF ~HasMore(t, p) THEN p
  ELSE IF At(t, p.i) = "sp" \/ (skipcr /\ IsEndLine(t, p.i)) THEN
         SkipWS(t, (IF IsEndLine(t, p.i) /\ At(t, p.i) = "cr" THEN Inc(t, Inc(t, p)) ELSE Inc(t, p)), skipcr)
  ELSE LET c == SkipComment(t, p) IN IF c.ok THEN SkipWS(t, c.p, skipcr) ELSE p
Eol(t, p) == EolU(t, SkipWS(t, p, FALSE), FALSE)
RECURSIVE Eols(_, _), TokenRun(_, _)
Eols(t, p) == LET e == Eol(t, p) IN IF e.ok THEN Eols(t, e.p) ELSE e.p
TokenRun(t, p) == IF At(t, p.i) = "v" THEN TokenRun(t, Inc(t, p)) ELSE p
\* Dot_Fun_Array: after an Eol, look for `.member` on a following line
DotBackup(t, p) ==
  LET start == Dec(t, p)
      q == SkipWS(t, Eols(t, start), FALSE)
  IN IF At(t, q.i) = "dot" THEN Dec(t, Inc(t, q)) ELSE start

\* ----------------------------------------------------------------- token coordinates of a whole text (G)
RECURSIVE ScanFrom(_, _, _)
ScanFrom(t, p0, acc) ==
  LET q == SkipWS(t, p0, TRUE) IN
  IF ~HasMore(t, q) THEN acc
  ELSE IF At(t, q.i) = "sc" THEN ScanFrom(t, Inc(t, q), acc)
  ELSE ScanFrom(t, Inc(t, q), Append(acc, <<q.i, q.line, q.col>>))        \* token characters are consumed one by one
Scan(t) == ScanFrom(t, P0, <<>>)
=============================================================================
