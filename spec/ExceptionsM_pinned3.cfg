INIT Init
NEXT Next
CONSTANTS
  RethrowUnmatched = TRUE
  FinallyAlways = TRUE
  ObjectMatch = FALSE
  ObjectMatchValues = TRUE
  ShardK = 0
  ShardN = 1
