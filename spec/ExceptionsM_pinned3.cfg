INIT Init
NEXT Next
CONSTANTS
  RethrowUnmatched = TRUE
  FinallyAlways = TRUE
  ObjectMatch = FALSE
  ShardK = 0
  ShardN = 1
