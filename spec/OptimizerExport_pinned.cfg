INIT Init
NEXT Next
CONSTANT DropIds = TRUE
