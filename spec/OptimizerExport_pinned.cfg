INIT Init
NEXT Next
CONSTANTS
  DropIds = TRUE
  FoldAnyRight = FALSE
