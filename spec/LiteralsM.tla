----------------------------- MODULE LiteralsM -----------------------------
EXTENDS Literals
ASSUME PrintT(<<"cells", Cardinality(Cells), "mismatches", Mismatches>>)
ASSUME LadderMatchesStandard
=============================================================================
