SPECIFICATION Spec
CONSTANTS
  MaxLen = 4
  Huge = 1073741824
  Which = {"rng"}
INVARIANTS WithinModel Total
CHECK_DEADLOCK FALSE
