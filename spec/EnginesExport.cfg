INIT Init
NEXT Next
CONSTANTS
  KeyMode = "unique"
  CacheShared = FALSE
  WithConvs = FALSE
  MaxOps = 0
