INIT Init
NEXT Next
CONSTANTS
  KeyIsAddress = FALSE
  MaxOps = 0
