INIT Init
NEXT Next
CONSTANTS
  KeyMode = "unique"
  MaxOps = 0
