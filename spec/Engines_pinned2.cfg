SPECIFICATION Spec
CONSTANTS
  KeyMode = "perthread"
  MaxOps = 6
INVARIANT Isolated
VIEW StateView
CHECK_DEADLOCK FALSE
