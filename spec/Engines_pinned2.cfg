SPECIFICATION Spec
CONSTANTS
  KeyMode = "perthread"
  CacheShared = FALSE
  WithConvs = FALSE
  MaxOps = 6
INVARIANT Isolated
VIEW StateView
CHECK_DEADLOCK FALSE
