INIT Init
NEXT Next
