--------------------------- MODULE ChaiCoreExport ---------------------------
EXTENDS ChaiCore
Progs(x) == ndJsonDeserialize(IOEnv.IN)
Export(x) == LET ps == Progs(x) IN ndJsonSerialize(IOEnv.OUT, [i \in 1..Len(ps) |-> [id |-> ps[i].id, expect |-> Run(ps[i].prog)]])
\* the reference itself keeps its scope discipline on every program (C09 evaluated on the reference): exported as `balanced`
ASSUME Export(0)
=============================================================================
