----------------------------- MODULE JsonSpecM -----------------------------
EXTENDS JsonSpec
ASSUME PrintT(<<"texts", Cardinality(Texts), "trees", Cardinality(Trees2)>>)
ASSUME RoundTrip
ASSUME ParsesOrThrows
ASSUME OffsetSafe
ASSUME Idempotent
=============================================================================
