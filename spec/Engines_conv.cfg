SPECIFICATION Spec
CONSTANTS
  KeyMode = "unique"
  CacheShared = FALSE
  WithConvs = TRUE
  MaxOps = 6
INVARIANTS Isolated ConvIsolated
VIEW StateView
CHECK_DEADLOCK FALSE
