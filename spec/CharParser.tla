---------------------------- MODULE CharParser ----------------------------
(* C16 (escape sequences): the automaton Char_Parser of chaiscript_parser.hpp (flags is_escaped, is_octal,  *)
(* is_hex, unicode_size, buffers octal_matches / hex_matches, the three process_* functions and the flush  *)
(* at the end of the literal) next to Ref, a direct statement of C++ escape decoding: simple escapes,       *)
(* up to three octal digits (value <= 255), one or two hex digits, \\u + 4 / \\U + 8 hex digits as UTF-8 with *)
(* surrogates and code points above 10FFFF rejected, anything malformed rejected.                           *)
(* Refines: Impl(s) = Ref(s) for every literal body s.  Repaired = FALSE is the pinned automaton (pending  *)
(* escapes flushed by a destructor that swallows errors, no range / emptiness tests).                      *)
EXTENDS Integers, Sequences, FiniteSets, TLC, Json, IOUtils, SequencesExt
CONSTANTS MaxLen, Repaired
Mod(a, b) == a - b * (a \div b)
\* characters are strings of length 1 (representatives of the byte classes)
Alphabet == {"a", "\\", "0", "3", "7", "8", "x", "u", "U", "f", "g", "n", "'"}
OctDigit(c) == c \in {"0","1","2","3","4","7"}
HexDigit(c) == c \in {"0","1","2","3","4","7","8","9","a","d","e","f"}
HexVal(c) == CASE c = "0" -> 0 [] c = "1" -> 1 [] c = "2" -> 2 [] c = "3" -> 3 [] c = "4" -> 4 [] c = "7" -> 7 [] c = "8" -> 8 [] c = "9" -> 9 [] c = "a" -> 10 [] c = "d" -> 13 [] c = "e" -> 14 [] c = "f" -> 15
RECURSIVE NumVal(_,_,_)
NumVal(ds, base, acc) == IF ds = <<>> THEN acc ELSE NumVal(Tail(ds), base, acc * base + HexVal(Head(ds)))
Byte(c) == CASE c = "a" -> 97 [] c = "0" -> 48 [] c = "3" -> 51 [] c = "7" -> 55 [] c = "8" -> 56 [] c = "x" -> 120 [] c = "u" -> 117
             [] c = "U" -> 85 [] c = "f" -> 102 [] c = "g" -> 103 [] c = "1" -> 49 [] c = "2" -> 50 [] c = "4" -> 52 [] c = "9" -> 57 [] c = "d" -> 100 [] c = "e" -> 101 [] c = "n" -> 110 [] c = "'" -> 39 [] c = "\\" -> 92
Utf8(ch) == IF ch < 128 THEN <<ch>>
            ELSE IF ch < 2048 THEN <<192 + ch \div 64, 128 + Mod(ch, 64)>>
            ELSE IF ch < 65536 THEN <<224 + ch \div 4096, 128 + Mod((ch \div 64), 64), 128 + Mod(ch, 64)>>
            ELSE <<240 + ch \div 262144, 128 + Mod((ch \div 4096), 64), 128 + Mod((ch \div 64), 64), 128 + Mod(ch, 64)>>
\* \U takes 8 hex digits: the value is handled as two 16-bit halves (TLC integers are 32 bit)
Hi(ds) == NumVal(SubSeq(ds, 1, 4), 16, 0)
Lo(ds) == NumVal(SubSeq(ds, 5, 8), 16, 0)
ERR == <<-1>>

\* ---------------- reference: C++ escape decoding with ChaiScript's documented two-hex-digit rule ----------------
RECURSIVE Ref(_,_)
TakeWhile(s, P(_), max) == LET n == CHOOSE k \in 0..max : (k <= Len(s)) /\ (\A i \in 1..k : P(s[i])) /\ (k = max \/ k = Len(s) \/ ~P(s[k+1])) IN n
Ref(s, out) ==
  IF s = <<>> THEN out
  ELSE IF Head(s) # "\\" THEN Ref(Tail(s), Append(out, Byte(Head(s))))
  ELSE IF Len(s) = 1 THEN ERR
  ELSE LET e == s[2]  rest == SubSeq(s, 3, Len(s)) IN
    IF OctDigit(e) THEN
       LET n == TakeWhile(Tail(s), OctDigit, 3) IN LET v == NumVal(SubSeq(s, 2, n+1), 8, 0) IN
       IF v > 255 THEN ERR ELSE Ref(SubSeq(s, n+2, Len(s)), Append(out, v))
    ELSE IF e = "x" THEN
       LET n == TakeWhile(rest, HexDigit, 2) IN
       IF n = 0 THEN ERR ELSE Ref(SubSeq(rest, n+1, Len(rest)), Append(out, NumVal(SubSeq(rest, 1, n), 16, 0)))
    ELSE IF e = "u" THEN
       LET n == TakeWhile(rest, HexDigit, 4) IN
       IF n < 4 THEN ERR ELSE
       LET ch == NumVal(SubSeq(rest, 1, 4), 16, 0) IN
       IF ch >= 55296 /\ ch <= 57343 THEN ERR ELSE Ref(SubSeq(rest, 5, Len(rest)), out \o Utf8(ch))
    ELSE IF e = "U" THEN
       LET n == TakeWhile(rest, HexDigit, 8) IN
       IF n < 8 THEN ERR ELSE
       LET ds == SubSeq(rest, 1, 8) IN
       IF Hi(ds) > 16 \/ (Hi(ds) = 0 /\ Lo(ds) >= 55296 /\ Lo(ds) <= 57343) THEN ERR
       ELSE Ref(SubSeq(rest, 9, Len(rest)), out \o Utf8(Hi(ds) * 65536 + Lo(ds)))
    ELSE IF e = "n" THEN Ref(rest, Append(out, 10))
    ELSE IF e = "a" THEN Ref(rest, Append(out, 7))
    ELSE IF e = "f" THEN Ref(rest, Append(out, 12))
    ELSE IF e = "'" THEN Ref(rest, Append(out, 39))
    ELSE IF e = "\\" THEN Ref(rest, Append(out, 92))
    ELSE ERR        \* \8 \g : unknown escape

\* ---------------- implementation: Char_Parser (chaiscript_parser.hpp), char_type = char ----------------
St0 == [m |-> <<>>, esc |-> FALSE, oct |-> FALSE, hex |-> FALSE, usz |-> 0, om |-> <<>>, hm |-> <<>>, err |-> FALSE]
ProcOct(st) == LET v == NumVal(st.om, 8, 0) IN
   [st EXCEPT !.m = IF st.om = <<>> THEN @ ELSE Append(@, Mod(v, 256)), !.om = <<>>, !.esc = FALSE, !.oct = FALSE,
              !.err = @ \/ (Repaired /\ st.om # <<>> /\ v > 255)]
ProcHex(st) ==
   [st EXCEPT !.m = IF st.hm = <<>> THEN @ ELSE Append(@, Mod(NumVal(st.hm, 16, 0), 256)), !.hm = <<>>, !.esc = FALSE, !.hex = FALSE,
              !.err = @ \/ (Repaired /\ st.hm = <<>>)]
\* process_unicode: size check, surrogate check for the 4-digit form, UTF-8 encoding; code points up to 1FFFFF were
\* encoded by the pinned code, the repaired one stops at 10FFFF and also rejects surrogates written with \U
ProcUni(st) ==
   IF Len(st.hm) # st.usz THEN [st EXCEPT !.err = TRUE, !.hm = <<>>, !.esc = FALSE, !.usz = 0]
   ELSE LET hi == IF st.usz = 8 THEN Hi(st.hm) ELSE 0
            lo == IF st.usz = 8 THEN Lo(st.hm) ELSE NumVal(st.hm, 16, 0)
            bad == \/ (hi = 0 /\ lo >= 55296 /\ lo <= 57343 /\ (st.usz = 4 \/ Repaired))
                   \/ hi > (IF Repaired THEN 16 ELSE 31)
        IN IF bad THEN [st EXCEPT !.err = TRUE, !.hm = <<>>, !.esc = FALSE, !.usz = 0]
           ELSE [st EXCEPT !.m = @ \o Utf8(hi * 65536 + lo), !.hm = <<>>, !.esc = FALSE, !.usz = 0]
Plain(st, c) ==          \* the part of parse() after the pending-escape handling
  IF c = "\\" THEN (IF st.esc THEN [st EXCEPT !.m = Append(@, 92), !.esc = FALSE] ELSE [st EXCEPT !.esc = TRUE])
  ELSE IF st.esc THEN
     (IF OctDigit(c) THEN [st EXCEPT !.oct = TRUE, !.om = Append(@, c)]
      ELSE IF c = "x" THEN [st EXCEPT !.hex = TRUE]
      ELSE IF c = "u" THEN [st EXCEPT !.usz = 4]
      ELSE IF c = "U" THEN [st EXCEPT !.usz = 8]
      ELSE IF c = "'" THEN [st EXCEPT !.m = Append(@, 39), !.esc = FALSE]
      ELSE IF c = "a" THEN [st EXCEPT !.m = Append(@, 7), !.esc = FALSE]
      ELSE IF c = "f" THEN [st EXCEPT !.m = Append(@, 12), !.esc = FALSE]
      ELSE IF c = "n" THEN [st EXCEPT !.m = Append(@, 10), !.esc = FALSE]
      ELSE [st EXCEPT !.err = TRUE])
  ELSE [st EXCEPT !.m = Append(@, Byte(c))]
Step(st, c) ==
  IF st.err THEN st
  ELSE IF st.oct THEN
     (IF OctDigit(c) THEN (LET s1 == [st EXCEPT !.om = Append(@, c)] IN IF Len(s1.om) = 3 THEN ProcOct(s1) ELSE s1)
      ELSE (LET s1 == ProcOct(st) IN IF s1.err THEN s1 ELSE Plain(s1, c)))
  ELSE IF st.hex THEN
     (IF HexDigit(c) THEN (LET s1 == [st EXCEPT !.hm = Append(@, c)] IN IF Len(s1.hm) = 2 THEN ProcHex(s1) ELSE s1)
      ELSE (LET s1 == ProcHex(st) IN IF s1.err THEN s1 ELSE Plain(s1, c)))
  ELSE IF st.usz > 0 THEN
     (IF HexDigit(c) THEN (LET s1 == [st EXCEPT !.hm = Append(@, c)] IN IF Len(s1.hm) = s1.usz THEN ProcUni(s1) ELSE s1)
      ELSE (LET s1 == ProcUni(st) IN IF s1.err THEN s1 ELSE Plain(s1, c)))
  ELSE Plain(st, c)
RECURSIVE Run(_,_)
Run(st, s) == IF s = <<>> THEN st ELSE Run(Step(st, Head(s)), Tail(s))
Finish(st) ==       \* pinned: destructor, errors swallowed; repaired: finish() reports them
  LET s1 == IF st.oct THEN ProcOct(st) ELSE st IN
  LET s2 == IF s1.hex THEN ProcHex(s1) ELSE s1 IN
  LET s3 == IF s2.usz > 0 THEN ProcUni(s2) ELSE s2 IN
  IF Repaired THEN s3 ELSE [s3 EXCEPT !.err = st.err]
Impl(s) == LET st == IF Run(St0, s).err THEN Run(St0, s) ELSE Finish(Run(St0, s)) IN IF st.err THEN ERR ELSE st.m

\* a trailing lone backslash cannot occur inside a real literal (it would escape the closing quote)
WellFormedLiteralBody(s) == ~(Len(s) > 0 /\ Run(St0, s).esc /\ ~Run(St0, s).oct /\ ~Run(St0, s).hex /\ Run(St0, s).usz = 0 /\ ~Run(St0, s).err)

Bodies == {s \in UNION {[1..n -> Alphabet] : n \in 0..MaxLen} : WellFormedLiteralBody(s)}
\* long forms that need more characters than MaxLen: \U with 8 digits at and around every boundary, octal edges
Chars(str) == str
LongForms == {<<"\\", "U", "0", "0", "0", "0", "0", "0", "0", "a">>, <<"\\", "U", "0", "0", "0", "0", "0", "7", "f", "f">>,
              <<"\\", "U", "0", "0", "0", "0", "0", "8", "0", "0">>, <<"\\", "U", "0", "0", "0", "0", "f", "f", "f", "f">>,
              <<"\\", "U", "0", "0", "0", "0", "d", "8", "0", "0">>, <<"\\", "U", "0", "0", "0", "0", "d", "f", "f", "f">>,
              <<"\\", "U", "0", "0", "0", "0", "e", "0", "0", "0">>, <<"\\", "U", "0", "0", "0", "1", "0", "0", "0", "0">>,
              <<"\\", "U", "0", "0", "1", "0", "f", "f", "f", "f">>, <<"\\", "U", "0", "0", "1", "1", "0", "0", "0", "0">>,
              <<"\\", "U", "0", "0", "1", "f", "f", "f", "f", "f">>, <<"\\", "U", "0", "0", "2", "0", "0", "0", "0", "0">>,
              <<"\\", "U", "7", "f", "f", "f", "f", "f", "f", "f">>, <<"\\", "U", "8", "0", "0", "0", "0", "0", "0", "0">>,
              <<"\\", "U", "f", "f", "f", "f", "f", "f", "f", "f">>, <<"\\", "U", "0", "0", "0", "0", "0", "0", "4", "1", "a">>,
              <<"\\", "U", "0", "0", "0", "0", "0", "0", "4">>, <<"\\", "u", "d", "7", "f", "f">>, <<"\\", "u", "d", "8", "0", "0">>,
              <<"\\", "u", "d", "f", "f", "f">>, <<"\\", "u", "e", "0", "0", "0">>, <<"\\", "u", "0", "0", "e", "9", "x">>,
              <<"\\", "3", "7", "7">>, <<"\\", "4", "0", "0">>, <<"\\", "7", "7", "7">>, <<"\\", "1", "0", "1", "1">>,
              <<"\\", "x", "4", "1", "4">>, <<"\\", "x", "f", "f">>, <<"\\", "x", "g">>, <<"\\", "x">>, <<"a", "\\", "x">>}
\* extra hex digits used by the long forms
ASSUME \A f \in LongForms : \A i \in 1..Len(f) : f[i] \in Alphabet \cup {"1", "2", "4", "d", "e", "9"}

Refines == \A s \in Bodies \cup LongForms : Impl(s) = Ref(s, <<>>)
Disagree == {s \in Bodies \cup LongForms : Impl(s) # Ref(s, <<>>)}
Export == ndJsonSerialize(IOEnv.OUT, LET bs == SetToSeq(Bodies \cup LongForms) IN [i \in 1..Len(bs) |-> [id |-> i, body |-> bs[i], bytes |-> Ref(bs[i], <<>>)]])

VARIABLE dummy
Init == dummy = 0
Next == UNCHANGED dummy
====
