---------------------------- MODULE ExceptionsM ----------------------------
EXTENDS Exceptions
ASSUME PrintT(<<"programs", Cardinality(Progs), "disagreements", NonStdDisagreements>>)
ASSUME Refines
=============================================================================
