SPECIFICATION Spec
CONSTANTS
  Names = {"a"}
  Sites = {}
  SiteName <- SiteNameDef
  Prologues <- ProloguesC09
  MaxGuards = 6
  MaxSlots = 1
  MaxFrames = 3
  HintPolicy = "validated"
  ClearSaves = TRUE
  Features = {"calls", "throw"}
INVARIANTS TypeOK ShapeMatchesGuards RestoredAtTop TopLevelDeclsSurvive
CHECK_DEADLOCK FALSE
