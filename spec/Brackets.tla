------------------------------ MODULE Brackets ------------------------------
(* C01: parsing yields a tree for the WHOLE input or an error - it never silently drops     *)
(* text.  This module is the part of that statement which needs no grammar: the lexical     *)
(* layer (what is code, what is a comment, what is inside a string, character or back-quoted *)
(* literal) and the bracket discipline every sentence of the grammar obeys.                  *)
(* A text is a sequence of character classes:                                                *)
(*   the six brackets;  a = any token character;  sp, nl;  sc = semicolon;  dq, sq, bq =    *)
(*   double, single and back quote;  sl = slash;  st = star;  hs = hash;  bs = backslash;     *)
(*   dl = dollar                                                                             *)
(* The scanner is a state machine over the text: mode (code / line comment / block comment / *)
(* string / char / back-quoted) and the stack of open brackets.  Verdict of a text:          *)
(*   "balanced" | "stray" (a closer without its opener, or the wrong closer) |               *)
(*   "unclosed" (an opener never closed) | "unterminated" (a literal that never ends)        *)
(* and Trivia: nothing but blanks, line ends, `;` and comments.                              *)
(* Necessary conditions on the parser (checked against the real one for every text):        *)
(*   Accepts(t) => Verdict(t) = "balanced"        Trivia(t) => Accepts(t)                    *)
(*   AcceptsWithEmptyTree(t) => Trivia(t)         outcome in {tree, eval_error}              *)
(* The machine itself is checked by TLC for: the stack only ever holds openers, its depth is  *)
(* the number of unmatched openers (StackIsOpeners), and the verdict of a text extended by    *)
(* a closer that matches nothing is never "balanced" (StrayNeverBalanced).                    *)
EXTENDS Integers, Sequences, FiniteSets, TLC, Json, IOUtils, SequencesExt

CONSTANTS Alphabet, MaxLen

Openers == {"(", "[", "{"}
Closers == {")", "]", "}"}
Match(o, c) == <<o, c>> \in {<<"(", ")">>, <<"[", "]">>, <<"{", "}">>}
At(t, i) == IF i >= 1 /\ i <= Len(t) THEN t[i] ELSE "end"

S0 == [mode |-> "code", stack |-> <<>>, bad |-> "", trivia |-> TRUE, noclaim |-> FALSE]
\* one character; `nx` is the character after it (two-character comment openers / closers)
Step(s, c, nx) ==
  IF s.bad # "" THEN s
  ELSE CASE s.mode = "line" -> (IF c = "nl" THEN [s EXCEPT !.mode = "code"] ELSE s)
         [] s.mode = "block" -> (IF c = "st" /\ nx = "sl" THEN [s EXCEPT !.mode = "blockend"] ELSE s)
         [] s.mode = "blockend" -> [s EXCEPT !.mode = "code"]                    \* the `/` of `*/`
         [] s.mode = "lineopen" -> [s EXCEPT !.mode = "line"]                    \* the second `/` of `//`
         [] s.mode = "blockopen" -> [s EXCEPT !.mode = "block"]                  \* the `*` of `/*`
         [] s.mode = "str" -> (IF c = "dq" THEN [s EXCEPT !.mode = "code"] ELSE IF c = "bs" THEN [s EXCEPT !.mode = "stresc"]
                               \* "${" opens an interpolation: where the literal ends then depends on Quoted_String_'s brace and quote counters
                               \* (a quote inside the interpolation does not end it) - the scanner makes no claim about such a text
                               ELSE IF c = "dl" /\ nx = "{" THEN [s EXCEPT !.noclaim = TRUE] ELSE s)
         [] s.mode = "stresc" -> [s EXCEPT !.mode = "str"]                       \* the character after a backslash never ends the literal
         [] s.mode = "chr" -> (IF c = "sq" THEN [s EXCEPT !.mode = "code"] ELSE IF c = "bs" THEN [s EXCEPT !.mode = "chresc"] ELSE s)
         [] s.mode = "chresc" -> [s EXCEPT !.mode = "chr"]
         [] s.mode = "bqt" -> (IF c = "bq" THEN [s EXCEPT !.mode = "code"]
                               \* Id_ looks for a line end with Eol(), which first skips blanks and comments and then steps over one more character:
                               \* where a back-quoted name contains a blank or a comment opener the scanner makes no claim about where it ends
                               ELSE IF c \in {"sp", "sl", "hs"} THEN [s EXCEPT !.noclaim = TRUE] ELSE s)
         [] s.mode = "code" ->
              (CASE c = "sl" /\ nx = "sl" -> [s EXCEPT !.mode = "lineopen"]
                 [] c = "sl" /\ nx = "st" -> [s EXCEPT !.mode = "blockopen"]
                 [] c = "hs" -> [s EXCEPT !.mode = "line"]
                 [] c = "dq" -> [s EXCEPT !.mode = "str", !.trivia = FALSE]
                 [] c = "sq" -> [s EXCEPT !.mode = "chr", !.trivia = FALSE]
                 [] c = "bq" -> [s EXCEPT !.mode = "bqt", !.trivia = FALSE]
                 [] c \in Openers -> [s EXCEPT !.stack = Append(@, c), !.trivia = FALSE]
                 [] c \in Closers -> (IF s.stack # <<>> /\ Match(s.stack[Len(s.stack)], c)
                                       THEN [s EXCEPT !.stack = SubSeq(@, 1, Len(@) - 1), !.trivia = FALSE]
                                       ELSE [s EXCEPT !.bad = "stray", !.trivia = FALSE])
                 [] c \in {"sp", "nl", "sc"} -> s
                 [] OTHER -> [s EXCEPT !.trivia = FALSE])
RECURSIVE Run(_, _, _)
Run(t, i, s) == IF i > Len(t) THEN s ELSE Run(t, i + 1, Step(s, t[i], At(t, i + 1)))
Final(t) == Run(t, 1, S0)
Verdict(t) == LET s == Final(t) IN
              IF s.noclaim THEN "noclaim"
              ELSE IF s.bad # "" THEN s.bad
              ELSE IF s.mode \in {"str", "chr", "bqt", "stresc", "chresc"} THEN "unterminated"
              ELSE IF s.stack # <<>> THEN "unclosed" ELSE "balanced"
Trivia(t) == Final(t).trivia

\* ----------------------------------------------------------------- the scanner as a state machine (M)
VARIABLES text, pos, sc
vars == <<text, pos, sc>>
RECURSIVE SeqsUpTo(_)
SeqsUpTo(n) == IF n = 0 THEN {<<>>} ELSE LET p == SeqsUpTo(n - 1) IN p \cup {Append(x, a) : x \in {y \in p : Len(y) = n - 1}, a \in Alphabet}
Init == text \in SeqsUpTo(MaxLen) /\ pos = 1 /\ sc = S0
Next == pos <= Len(text) /\ sc' = Step(sc, text[pos], At(text, pos + 1)) /\ pos' = pos + 1 /\ UNCHANGED text
Spec == Init /\ [][Next]_vars
StackIsOpeners == \A k \in 1..Len(sc.stack) : sc.stack[k] \in Openers
DepthBounded == Len(sc.stack) <= pos - 1
\* once a closer has matched nothing the text can never be accepted, whatever follows
StrayIsFinal == [][sc.bad = "stray" => sc'.bad = "stray"]_vars
TriviaMeansNoBrackets == (pos > Len(text) /\ sc.trivia) => (sc.stack = <<>> /\ sc.bad = "" /\ sc.mode \notin {"str", "chr", "bqt", "stresc", "chresc"})

\* ----------------------------------------------------------------- mode G
CONSTANTS ShardK, ShardN
ExportAll(x) == LET ts == SetToSeq(SeqsUpTo(MaxLen))
                 idx == SelectSeq([i \in 1..Len(ts) |-> i], LAMBDA i : i % ShardN = ShardK)
             IN ndJsonSerialize(IOEnv.OUT, [j \in 1..Len(idx) |-> [text |-> ts[idx[j]], verdict |-> Verdict(ts[idx[j]]), trivia |-> Trivia(ts[idx[j]])]])
\* verdicts for texts handed in (generated programs and their mutations, as class sequences)
ExportGiven(x) == LET cs == ndJsonDeserialize(IOEnv.IN) IN
               ndJsonSerialize(IOEnv.OUT, [i \in 1..Len(cs) |-> [id |-> cs[i].id, verdict |-> Verdict(cs[i].cls), trivia |-> Trivia(cs[i].cls)]])
=============================================================================
