SPECIFICATION Spec
CONSTANTS
  Thr = {1, 2, 3}
  Script <- ScriptD
  LockAdd = TRUE
  UseOuter = TRUE
  CacheLocked = TRUE
INVARIANTS NoConflictingOverlap AllRegistrationsRetained VisibleAfterReturn UsedOnce CacheNeverAhead LockSanity
