---------------------------- MODULE Exceptions ----------------------------
(* C10: exceptions are delivered, not lost or altered.                                     *)
(*                                                                                          *)
(* Programs are nests of try / catch (typed or untyped) / finally with markers and throws.  *)
(*   Ref   - what the property says: a thrown kind travels outward to the first enclosing   *)
(*           clause whose type matches the OBJECT (dynamic type <: clause type; an untyped  *)
(*           clause matches everything), otherwise it leaves eval unchanged; finally blocks *)
(*           on the path run exactly once; nothing after the throw point runs.              *)
(*   Impl  - a transcription of Try_AST_Node::eval_internal / handle_exception              *)
(*           (chaiscript_eval.hpp): six C++ catch arms that fix the STATIC type of the      *)
(*           boxed exception, the clause loop with Param_Types::match on type pairs, and    *)
(*           the places where the finally block is run.  Three switches select the pinned   *)
(*           behaviour or the repaired one.                                                 *)
(* TLC checks Impl = Ref on every enumerated program (refinement), and the same programs    *)
(* are exported with Ref's prediction and replayed into the real engine (mode G).           *)
EXTENDS Integers, Sequences, FiniteSets, TLC, Json, IOUtils, SequencesExt

CONSTANTS RethrowUnmatched,   \* TRUE: handle_exception rethrows when no clause accepted the exception
          FinallyAlways,      \* TRUE: the finally block also runs when a catch block throws or returns
          ObjectMatch,        \* TRUE: a typed clause is taken only if the object converts to the clause type
          ObjectMatchValues   \* TRUE: ... also for values thrown by script (boxed by value); FALSE models the regression
                              \*       "only exceptions boxed by reference get the object-level test"

\* thrown by C++ functions: rt oor logic badcast ee user;  thrown by script as VALUES: int string, srt = runtime_error("x"),
\* sbase / sder = the registered C++ pair BaseC / DerivedC (base_class<BaseC, DerivedC>), dyn = an instance of the script class MyErr
\* rtc / oorc / logicc / eec / userc: the same C++ exceptions thrown by a function that is reached through the CONVERSION route of
\* dispatch (a double parameter called with an int): the route must hand the exception on exactly like the direct one
Kinds == {"int", "string", "rt", "oor", "logic", "badcast", "ee", "user", "srt", "sbase", "sder", "dyn", "rtc", "oorc", "logicc", "eec", "userc"}
Via(k) == CASE k = "rtc" -> "rt" [] k = "oorc" -> "oor" [] k = "logicc" -> "logic" [] k = "eec" -> "ee" [] k = "userc" -> "user" [] OTHER -> k
ByValue == {"int", "string", "srt", "sbase", "sder", "dyn"}
\* dynamic type and its registered supertypes (bootstrap.hpp registers exactly these base_class relations)
Super == [k \in Kinds |->
   CASE k = "int" -> {"int"} [] k = "string" -> {"string"}
     [] k = "rt" -> {"runtime_error", "exception"}
     [] k = "oor" -> {"out_of_range", "logic_error", "exception"}
     [] k = "logic" -> {"logic_error", "exception"}
     [] k = "badcast" -> {"exception"}
     [] k = "ee" -> {"eval_error", "runtime_error", "exception"}
     [] k = "user" -> {}
     [] k = "srt" -> {"runtime_error", "exception"}
     [] k = "sbase" -> {"BaseC"} [] k = "sder" -> {"DerivedC", "BaseC"}
     [] k = "dyn" -> {"MyErr"}
     [] k = "rtc" -> {"runtime_error", "exception"} [] k = "oorc" -> {"out_of_range", "logic_error", "exception"}
     [] k = "logicc" -> {"logic_error", "exception"} [] k = "eec" -> {"eval_error", "runtime_error", "exception"} [] k = "userc" -> {}]
ClauseTypes == {"", "int", "string", "runtime_error", "out_of_range", "logic_error", "exception", "eval_error", "BaseC", "DerivedC", "MyErr"}

\* statements: mark n | throw kind | ret | try
Mark(n) == [k |-> "mark", n |-> n, x |-> "", body |-> <<>>, cl |-> <<>>, fin |-> <<>>, hasfin |-> FALSE]
Thr(x) == [k |-> "throw", n |-> 0, x |-> x, body |-> <<>>, cl |-> <<>>, fin |-> <<>>, hasfin |-> FALSE]
Ret == [k |-> "ret", n |-> 0, x |-> "", body |-> <<>>, cl |-> <<>>, fin |-> <<>>, hasfin |-> FALSE]
Try(body, cl, hasfin, fin) == [k |-> "try", n |-> 0, x |-> "", body |-> body, cl |-> cl, fin |-> fin, hasfin |-> hasfin]
Clause(ty, h) == [ty |-> ty, h |-> h]

IsExc(esc) == esc \in Kinds

-----------------------------------------------------------------------------
(* reference semantics *)
RefMatches(kind, ty) == ty = "" \/ ty \in Super[kind]

RECURSIVE RefSeq(_, _, _), RefStmt(_, _), RefClauses(_, _, _, _)
\* result: [out: Seq(Int), esc: "none" | "ret" | kind]
RefSeq(stmts, i, acc) ==
  IF i > Len(stmts) \/ acc.esc # "none" THEN acc
  ELSE RefSeq(stmts, i + 1, RefStmt(stmts[i], acc))

RefClauses(cl, i, kind, acc) ==
  IF i > Len(cl) THEN [acc EXCEPT !.esc = kind]                       \* nothing matched: keeps travelling
  ELSE IF RefMatches(kind, cl[i].ty) THEN RefSeq(cl[i].h, 1, [acc EXCEPT !.esc = "none"])
  ELSE RefClauses(cl, i + 1, kind, acc)

RefStmt(st, acc) ==
  CASE st.k = "mark" -> [acc EXCEPT !.out = Append(@, st.n)]
    [] st.k = "throw" -> [acc EXCEPT !.esc = st.x]
    [] st.k = "ret" -> [acc EXCEPT !.esc = "ret"]
    [] st.k = "try" ->
       (LET b == RefSeq(st.body, 1, acc)
            c == IF IsExc(b.esc) THEN RefClauses(st.cl, 1, b.esc, b) ELSE b
        IN IF ~st.hasfin THEN c
           ELSE LET f == RefSeq(st.fin, 1, [c EXCEPT !.esc = "none"])
                IN IF f.esc # "none" THEN f ELSE [f EXCEPT !.esc = c.esc])   \* finally runs once; its own throw replaces the pending one

Ref(prog) == RefSeq(prog, 1, [out |-> <<>>, esc |-> "none"])

-----------------------------------------------------------------------------
(* transcription of Try_AST_Node *)
\* which C++ catch arm takes the exception and which static type the boxed reference gets
StaticType(kind) == CASE kind \in {"ee", "eec"} -> "eval_error" [] kind \in {"rt", "rtc"} -> "runtime_error" [] kind \in {"oor", "oorc"} -> "out_of_range"
                      [] kind \in {"logic", "badcast", "logicc"} -> "exception" [] kind = "int" -> "int" [] kind = "string" -> "string"
                      [] kind = "srt" -> "runtime_error" [] kind = "sbase" -> "BaseC" [] kind = "sder" -> "DerivedC" [] kind = "dyn" -> "MyErr"
                      [] OTHER -> "?"                                  \* catch (...) arm: not boxed at all
\* registered base_class pairs (bidirectional dynamic conversions)
Related == {<<"exception", "logic_error">>, <<"logic_error", "out_of_range">>, <<"exception", "out_of_range">>,
            <<"exception", "runtime_error">>, <<"runtime_error", "eval_error">>, <<"exception", "eval_error">>, <<"BaseC", "DerivedC">>}
TypesRelated(a, b) == <<a, b>> \in Related \/ <<b, a>> \in Related
ImplMatches(kind, ty) ==
  LET s == StaticType(kind) IN
  \/ ty = ""
  \/ ty = s
  \/ (TypesRelated(s, ty) /\ ((ObjectMatch /\ (kind \notin ByValue \/ ObjectMatchValues)) => ty \in Super[kind]))
       \* match() on the type pair; the repair also converts the object

RECURSIVE ImplSeq(_, _, _), ImplStmt(_, _), ImplClauses(_, _, _, _)
ImplSeq(stmts, i, acc) ==
  IF i > Len(stmts) \/ acc.esc # "none" THEN acc
  ELSE ImplSeq(stmts, i + 1, ImplStmt(stmts[i], acc))

ImplClauses(cl, i, kind, acc) ==
  IF i > Len(cl) THEN (IF RethrowUnmatched THEN [acc EXCEPT !.esc = kind] ELSE [acc EXCEPT !.esc = "none"])   \* pinned: falls out of the loop, exception gone
  ELSE IF ImplMatches(kind, cl[i].ty) THEN ImplSeq(cl[i].h, 1, [acc EXCEPT !.esc = "none"])
  ELSE ImplClauses(cl, i + 1, kind, acc)

ImplStmt(st, acc) ==
  CASE st.k = "mark" -> [acc EXCEPT !.out = Append(@, st.n)]
    [] st.k = "throw" -> [acc EXCEPT !.esc = st.x]
    [] st.k = "ret" -> [acc EXCEPT !.esc = "ret"]
    [] st.k = "try" ->
       (LET b == ImplSeq(st.body, 1, acc)
            boxed == IsExc(b.esc) /\ StaticType(b.esc) # "?"
            c == IF boxed THEN ImplClauses(st.cl, 1, b.esc, b) ELSE b
            \* the finally block: after a normal completion of body/handler; in the catch (...) arm (unboxable
            \* exceptions and control flow out of the BODY); and - only when repaired - when a handler exits abnormally
            abnormal == c.esc # "none"
            fromHandler == boxed
            runsFin == st.hasfin /\ (~abnormal \/ ~fromHandler \/ FinallyAlways)
        IN IF ~runsFin THEN c
           ELSE LET f == ImplSeq(st.fin, 1, [c EXCEPT !.esc = "none"])
                IN IF f.esc # "none" THEN f ELSE [f EXCEPT !.esc = c.esc])

Impl(prog) == ImplSeq(prog, 1, [out |-> <<>>, esc |-> "none"])

-----------------------------------------------------------------------------
(* the enumerated family *)
Handlers == {<<Mark(5)>>, <<Mark(5), Thr("int")>>, <<Mark(5), Thr("rt")>>, <<Mark(5), Ret>>}
Fins == {<<FALSE, <<>> >>, <<TRUE, <<Mark(7)>> >>, <<TRUE, <<Mark(7), Thr("string")>> >>}
ClauseSeqs1(h) == {<<>>} \cup {<<Clause(t, h)>> : t \in ClauseTypes}
ClauseSeqs2(h) == {<<Clause(t1, <<Mark(4)>>), Clause(t2, h)>> : t1 \in ClauseTypes \ {""}, t2 \in ClauseTypes}

\* A: one try, every kind x every clause list of length <= 2 x handler form x finally form
FamA == {<<Mark(1), Try(<<Mark(2), Thr(k), Mark(3)>>, cl, f[1], f[2]), Mark(9)>> :
           k \in Kinds, cl \in UNION {ClauseSeqs1(h) \cup ClauseSeqs2(h) : h \in Handlers}, f \in Fins}
\* C: a try nested in the body of another
FamC == {<<Mark(1), Try(<<Try(<<Mark(2), Thr(k)>>, ci, fi[1], fi[2]), Mark(3)>>, co, fo[1], fo[2]), Mark(9)>> :
           k \in Kinds, ci \in UNION {ClauseSeqs1(h) : h \in Handlers}, fi \in {<<FALSE, <<>> >>, <<TRUE, <<Mark(6)>> >>},
           co \in ClauseSeqs1(<<Mark(8)>>), fo \in {<<FALSE, <<>> >>, <<TRUE, <<Mark(7)>> >>}}
\* D: a try nested in a handler, and no exception at all
FamD == {<<Mark(1), Try(<<Thr(k)>>, <<Clause("", <<Try(<<Mark(2), Thr(k2)>>, ci, TRUE, <<Mark(6)>>)>>)>>, TRUE, <<Mark(7)>>), Mark(9)>> :
           k \in {"int", "rt"}, k2 \in Kinds, ci \in ClauseSeqs1(<<Mark(5)>>)}
        \cup {<<Mark(1), Try(<<Mark(2)>>, cl, f[1], f[2]), Mark(9)>> : cl \in ClauseSeqs1(<<Mark(5)>>), f \in Fins}
        \cup {<<Mark(1), Try(<<Mark(2), Ret, Mark(3)>>, cl, f[1], f[2]), Mark(9)>> : cl \in ClauseSeqs1(<<Mark(5)>>), f \in Fins}

Progs == FamA \cup FamC \cup FamD

\* mode M: the transcription refines the reference on every program of the family
Disagreements == {p \in Progs : Impl(p) # Ref(p)}
RECURSIVE ThrowsUser(_, _)
ThrowsUser(stmts, i) ==
  IF i > Len(stmts) THEN FALSE
  ELSE LET st == stmts[i] IN
       \/ (st.k = "throw" /\ st.x \in {"user", "userc"})
       \/ (st.k = "try" /\ (ThrowsUser(st.body, 1) \/ ThrowsUser(st.fin, 1) \/ \E j \in 1..Len(st.cl) : ThrowsUser(st.cl[j].h, 1)))
       \/ ThrowsUser(stmts, i + 1)
\* Known finding (DESIGN.md section 6 row 27): a C++ exception that is not derived from std::exception cannot be boxed,
\* so no script clause - not even an untyped one - sees it.  Every other disagreement is a violation.
Refines == \A p \in Disagreements : ThrowsUser(p, 1)
NonStdDisagreements == Cardinality(Disagreements)

\* mode G
CONSTANTS ShardK, ShardN
Out == LET ps == SetToSeq(Progs)
           idx == SelectSeq([i \in 1..Len(ps) |-> i], LAMBDA i : i % ShardN = ShardK)
       IN [j \in 1..Len(idx) |-> [id |-> idx[j], prog |-> ps[idx[j]], expect |-> Ref(ps[idx[j]])]]
Export == ndJsonSerialize(IOEnv.OUT, Out)

VARIABLE dummy
Init == dummy = 0
Next == UNCHANGED dummy
=============================================================================
