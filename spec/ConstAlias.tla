----------------------------- MODULE ConstAlias -----------------------------
(* C07: const values cannot be modified from script.                                         *)
(*                                                                                          *)
(* OBJECTS have a value and know whether they come from a const source.  Script code never  *)
(* holds objects, it holds HANDLES (Boxed_Value): a reference to an object plus the const   *)
(* flag of the type info and the "return value" flag.  A ROUTE makes a new handle from the  *)
(* current one - sharing the object and keeping the flag (reference declaration, `:=`,      *)
(* parameter passing, capture, return, ternary, push_back_ref), or cloning the object into  *)
(* a fresh non-const one (declaration by value, inline vector element, push_back, insert).  *)
(* A MUTATOR checks the handle before it touches the object:                                *)
(*   Equation (=, op=, and := which re-seats the shared cell): is_const / is_return_value;  *)
(*   Prefix ++/--: is_const;  the numeric fast path:                                         *)
(*   get_ptr() = null;  every registered C++ function taking T&, T* or shared_ptr<T>:       *)
(*   the cast of a const handle to a mutable reference fails.                               *)
(* ConstObjectsUnchanged: whatever chain of routes and whatever mutator, an object from a   *)
(* const source keeps its value.  ConstFlagSurvives (inductive strengthening): every handle  *)
(* that shares an object of a const source is const.                                        *)
(* DropOnBind = TRUE models a regression (`:=` / reference binding that loses the const flag)*)
(* which TLC must refute.  Mode G exports every chain with its prediction for replay.       *)
EXTENDS Integers, Sequences, FiniteSets, TLC, Json, IOUtils, SequencesExt

CONSTANTS MaxRoutes, DropOnBind

\* const sources: name -> type.  lit* literals of the program text; cv* values added with const_var / add_global_const;
\* cref* / cptr* C++ objects shared by const reference / const pointer (these are also the const RETURN values of functions);
\* (a value returned BY VALUE as `const T` is a fresh object owned by the script - Handle_Return<const Ret> boxes it as a plain value - and no const object); csp shared_ptr<const T>
ConstSources == {"lit_int", "lit_str", "lit_neg", "lit_compl", "lit_plus", "lit_fold",     \* also the constants the optimizer folds: -5, ~5, +5, (2 + 3)
                  "cv_int", "cv_str", "cv_vec", "cv_map", "gc_int", "cref_int", "cptr_int", "cref_str", "cref_vec", "cref_map",
                 "cref_tk", "cptr_tk", "csp_tk", "cw_int",
                 "cx_int", "cx_str", "cxp_int", "cxsp_tk"}    \* const VIEWS of non-const C++ objects: const_var(std::ref(x)), const_var(&x), const_var(shared_ptr<T>)
\* mutable controls: the same chains and mutators must SUCCEED on them, otherwise an "error" on a const source proves nothing
Controls == {"nc_int", "nc_str", "nc_vec", "nc_map", "nc_tk"}
Sources == ConstSources \cup Controls
TypeOf(s) == CASE s \in {"lit_neg", "lit_compl", "lit_plus", "lit_fold", "lit_int", "cv_int", "gc_int", "cref_int", "cptr_int", "cw_int", "nc_int", "cx_int", "cxp_int"} -> "int"
               [] s \in {"lit_str", "cv_str", "cref_str", "nc_str", "cx_str"} -> "str"
               [] s \in {"cv_vec", "cref_vec", "nc_vec"} -> "vec"
               [] s \in {"cv_map", "cref_map", "nc_map"} -> "map"
               [] OTHER -> "tk"
\* routes that SHARE the object            and routes that CLONE it (the clone is a new, non-const object)
Sharing == {"ref", "bind", "param", "capture", "idf", "retlam", "tern", "push_back_ref", "attr_bind"}
Cloning == {"copy", "inline_vec", "push_back", "rfor_inline", "map_insert", "clone_fn"}
Routes == Sharing \cup Cloning
\* mutators by the type they apply to
Mutators == [ty \in {"int", "str", "vec", "map", "tk"} |->
   CASE ty = "int" -> {":=", "=", "+=", "-=", "*=", "/=", "%=", "&=", "|=", "^=", "<<=", ">>=", "++", "--", "fn_ref", "fn_ptr",
                     "f=", "f+=", "f++", "bind*="}         \* the operators called as FUNCTIONS (`+=`(x, 5)) or through bind(): no Equation / Prefix node in front
     [] ty = "str" -> {":=", "=", "+=", "push_back", "clear", "erase_at", "elem=", "fn_ref", "fn_ptr"}
     [] ty = "vec" -> {":=", "=", "push_back", "pop_back", "clear", "erase_at", "insert_at", "resize", "elem=", "elem+=", "fn_ref"}
     [] ty = "map" -> {":=", "=", "clear", "elem=", "insert_new", "erase", "fn_ref"}
     [] ty = "tk" -> {":=", "=", "set", "attr=", "fn_ref", "fn_ptr", "fn_sp"}]

\* ----------------------------------------------------------------- the machine
\* objs: sequence of [val: Nat (abstract version counter of the value), csrc: BOOLEAN]; handle: [o, c]
Handle(o, c) == [o |-> o, c |-> c]
M0(s) == [objs |-> << [val |-> 0, csrc |-> s \in ConstSources] >>, cur |-> Handle(1, s \in ConstSources), res |-> "ok", src |-> s]
ApplyRoute(m, r) ==
  IF r \in Sharing THEN [m EXCEPT !.cur = Handle(m.cur.o, IF DropOnBind /\ r \in {"bind", "ref"} THEN FALSE ELSE m.cur.c), !.res = "ok"]
  ELSE [m EXCEPT !.objs = Append(@, [val |-> 0, csrc |-> FALSE]), !.cur = Handle(Len(m.objs) + 1, FALSE), !.res = "ok"]
ApplyMutator(m, mu) ==
  IF m.cur.c THEN [m EXCEPT !.res = "error"]                                   \* every mutator refuses a const handle and touches nothing
  ELSE [m EXCEPT !.objs[m.cur.o].val = @ + 1, !.res = "ok"]

RECURSIVE RunRoutes(_, _, _)
RunRoutes(m, rs, i) == IF i > Len(rs) THEN m ELSE RunRoutes(ApplyRoute(m, rs[i]), rs, i + 1)
RunPath(s, rs, mu) == ApplyMutator(RunRoutes(M0(s), rs, 1), mu)

ConstUnchangedIn(m) == \A i \in 1..Len(m.objs) : m.objs[i].csrc => m.objs[i].val = 0
FlagSurvivesIn(m) == m.objs[m.cur.o].csrc => m.cur.c

\* ----------------------------------------------------------------- state machine (M)
VARIABLES st, nroutes, done
vars == <<st, nroutes, done>>
Init == \E s \in Sources : st = M0(s) /\ nroutes = 0 /\ done = FALSE
Route == ~done /\ nroutes < MaxRoutes /\ \E r \in Routes : st' = ApplyRoute(st, r) /\ nroutes' = nroutes + 1 /\ done' = FALSE
Mutate == ~done /\ \E mu \in Mutators[TypeOf(st.src)] : st' = ApplyMutator(st, mu) /\ done' = TRUE /\ UNCHANGED nroutes
Next == Route \/ Mutate
Spec == Init /\ [][Next]_vars
ConstObjectsUnchanged == ConstUnchangedIn(st)
ConstFlagSurvives == FlagSurvivesIn(st)
\* a failed attempt leaves no trace: after an error every object has the value it had
FailedAttemptsLeaveNoTrace == [][(st'.res = "error") => st'.objs = st.objs]_vars

\* ----------------------------------------------------------------- mode G: every chain with its prediction
RECURSIVE SeqsOf(_, _)
SeqsOf(S, n) == IF n = 0 THEN {<<>>} ELSE LET p == SeqsOf(S, n - 1) IN p \cup {Append(x, a) : x \in {y \in p : Len(y) = n - 1}, a \in S}
Paths == {<<s, rs, mu>> : s \in Sources, rs \in SeqsOf(Routes, MaxRoutes), mu \in UNION {Mutators[t] : t \in {"int", "str", "vec", "map", "tk"}}}
ValidPaths == {p \in Paths : p[3] \in Mutators[TypeOf(p[1])]}
Pred(p) == LET m == RunPath(p[1], p[2], p[3]) IN
           [src |-> p[1], ty |-> TypeOf(p[1]), routes |-> p[2], mut |-> p[3], res |-> m.res, onclone |-> m.cur.o # 1,
            unchanged |-> ConstUnchangedIn(m), srcchanged |-> m.objs[1].val # 0]
CONSTANTS ShardK, ShardN
Export == LET ps == SetToSeq(ValidPaths)
              idx == SelectSeq([i \in 1..Len(ps) |-> i], LAMBDA i : i % ShardN = ShardK)
          IN ndJsonSerialize(IOEnv.OUT, [j \in 1..Len(idx) |-> Pred(ps[idx[j]])])
=============================================================================
