----------------------------- MODULE PreludeM -----------------------------
EXTENDS Prelude
ASSUME LoopRefinesSpec
ASSUME Laws
ASSUME JoinLaws
ASSUME PrintT(<<"cases", Cardinality(CasesVec) + Cardinality(CasesScalar) + Cardinality(CasesStr)>>)
=============================================================================
