----------------------------- MODULE PreludeM -----------------------------
EXTENDS Prelude
ASSUME LoopRefinesSpec
ASSUME Laws
ASSUME JoinLaws
ASSUME TrimLaws
ASSUME InputRangeKept
ASSUME PrintT(<<"cases", Cardinality(CasesVec) + Cardinality(CasesScalar) + Cardinality(CasesStr) + Cardinality(CasesChr) + Cardinality(CasesMisc) + Cardinality(CasesRange)>>)
=============================================================================
