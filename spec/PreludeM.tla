----------------------------- MODULE PreludeM -----------------------------
EXTENDS Prelude
ASSUME LoopRefinesSpec
ASSUME Laws
ASSUME PrintT(<<"cases", Cardinality(CasesVec) + Cardinality(CasesScalar)>>)
=============================================================================
