INIT Init
NEXT Next
