------------------------------ MODULE ErrStack ------------------------------
(* C20: run-time errors point at the construct that failed.                                  *)
(*                                                                                          *)
(* Two parts of the specification meet here:                                                 *)
(*  - ChaiCore's error propagation: while an error unwinds, every labelled node it passes    *)
(*    (the failing identifier or call first, then each enclosing call, across function and   *)
(*    chunk boundaries) appends its label to the error's call stack;                         *)
(*  - PositionOps' cursor: Scan(text) gives the coordinates at which every token of a chunk  *)
(*    starts, however the chunk is laid out (blank lines, comments, CRLF/LF).                *)
(* A case is a list of chunks (segments); each chunk carries its text as character classes.  *)
(* Decided per case: the label sequence of the failing chunk's error and the coordinates of  *)
(* every token; the check joins them (label -> token -> coordinates) and compares with the   *)
(* generator's ground truth and with eval_error::call_stack of the real engine.              *)
EXTENDS ChaiCore
P == INSTANCE PositionOps WITH ArithmeticMinus <- FALSE

ECases(x) == ndJsonDeserialize(IOEnv.IN)
DecideErr(c) == LET rs == RunSegs(c.segs, 1, M0, <<>>) IN
                [id |-> c.id,
                 segs |-> [i \in 1..Len(rs) |-> [oc |-> rs[i].oc, out |-> rs[i].out, stack |-> rs[i].stack]],
                 toks |-> [i \in 1..Len(c.segs) |-> P!Scan(c.segs[i].cls)]]
ExportErr(x) == LET cs == ECases(x) IN ndJsonSerialize(IOEnv.OUT, [i \in 1..Len(cs) |-> DecideErr(cs[i])])
=============================================================================
