---------------------------- MODULE ChaiState ----------------------------
(* What one thread's evaluation context IS and how the primitive operations of              *)
(* chaiscript::detail::Dispatch_Engine change it.  Pure operators only: the state machines  *)
(* (EvalStack for model checking, EvalStackTrace for validating recorded executions) are     *)
(* built from these, so both speak about exactly the same transitions.                      *)
(*                                                                                          *)
(* ctx == [frames  : Seq(stack), stack = Seq(scope), scope = Seq(name) in slot order        *)
(*         cparams : Seq(Nat)    size of each Stack_Holder::call_params list                 *)
(*         depth   : Nat         Stack_Holder::call_depth                                    *)
(*         savesOn : BOOLEAN, saves : Nat   Type_Conversions::Conversion_Saves ]             *)
EXTENDS Integers, Sequences, SequencesExt

DropLast(s) == SubSeq(s, 1, Len(s) - 1)

BaseCtx == [frames |-> << << <<>> >> >>, cparams |-> <<0>>, depth |-> 0, savesOn |-> FALSE, saves |-> 0]

TopStack(c) == c.frames[Len(c.frames)]
TopScopeOf(c) == TopStack(c)[Len(TopStack(c))]

\* dispatchkit.hpp new_scope: push_stack_data + push_call_params
PushScope(c) == [c EXCEPT !.frames[Len(c.frames)] = Append(@, <<>>), !.cparams = Append(@, 0)]
\* pop_scope: call_params.pop_back, stack.pop_back (asserts !stack.empty())
CanPopScope(c) == Len(TopStack(c)) >= 1 /\ Len(c.cparams) >= 1
PopScope(c) == [c EXCEPT !.frames[Len(c.frames)] = DropLast(@), !.cparams = DropLast(@)]
\* new_stack: a new stack holding one scope; eval_function then adds this?, captures, parameters
PushFrame(c, pro) == [c EXCEPT !.frames = Append(@, << pro >>)]
CanPopFrame(c) == Len(c.frames) >= 1
PopFrame(c) == [c EXCEPT !.frames = DropLast(@)]
\* new_function_call: enable saves at depth 0, ++depth, move pending saves into call_params.back()
FCallEnter(c) == [c EXCEPT !.depth = @ + 1, !.savesOn = TRUE,
                           !.cparams[Len(c.cparams)] = @ + c.saves, !.saves = 0]
\* pop_function_call: --depth; at depth 0 clear call_params.back(), disable saves (and, when clear, empty them)
FCallExit(c, clear) ==
   IF c.depth - 1 = 0
     THEN [c EXCEPT !.depth = 0, !.cparams[Len(c.cparams)] = 0, !.savesOn = FALSE,
                    !.saves = IF clear THEN 0 ELSE @]
     ELSE [c EXCEPT !.depth = @ - 1]
SaveParamsOp(c, k) == [c EXCEPT !.cparams[Len(c.cparams)] = @ + k]
ConvertOp(c) == IF c.savesOn THEN [c EXCEPT !.saves = @ + 1] ELSE c
\* add_object / add_get_object: append to the innermost scope of the current stack, name_conflict_error if present
Declared(c, n) == \E i \in 1..Len(TopScopeOf(c)) : TopScopeOf(c)[i] = n
AddObject(c, n) == [c EXCEPT !.frames[Len(c.frames)][Len(TopStack(c))] = Append(@, n)]

RECURSIVE FindIn(_, _, _)
\* innermost-out search of one stack: <<dist, slot>> (0-based) or <<-1,-1>>
FindIn(st, n, d) == IF d >= Len(st) THEN <<-1, -1>>
                    ELSE LET sc == st[Len(st) - d]
                             i == SelectInSeq(sc, LAMBDA x : x = n)
                         IN IF i # 0 THEN <<d, i - 1>> ELSE FindIn(st, n, d + 1)
\* by-name resolution inside the current stack only (functions do not see their caller's locals)
FindLocal(c, n) == FindIn(TopStack(c), n, 0)

RECURSIVE SumScopes(_, _)
SumScopes(fr, i) == IF i = 0 THEN 0 ELSE Len(fr[i]) + SumScopes(fr, i - 1)
TotalScopesOf(c) == SumScopes(c.frames, Len(c.frames))

\* the shape ChaiScript_Basic::verif_stack_shape reports
ShapeOf(c) == <<Len(c.frames), Len(TopStack(c)), Len(c.cparams), c.cparams[Len(c.cparams)], c.depth, c.savesOn, c.saves>>
BaseShape == <<1, 1, 1, 0, 0, FALSE, 0>>
\* invariant of every reachable context: one call_params list per scope beyond each stack's first, plus the base one
WellShaped(c) == /\ Len(c.frames) >= 1
                 /\ \A i \in 1..Len(c.frames) : Len(c.frames[i]) >= 1
                 /\ Len(c.cparams) = 1 + TotalScopesOf(c) - Len(c.frames)
                 /\ c.savesOn = (c.depth > 0)
=============================================================================
