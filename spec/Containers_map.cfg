SPECIFICATION Spec
CONSTANTS
  MaxLen = 3
  Huge = 1073741824
  Which = {"map"}
INVARIANTS WithinModel Total
CHECK_DEADLOCK FALSE
