"""Writes /verif/MANIFEST.json from the table below (python3 -m gen.manifest)."""
import json
import os

V = os.path.dirname(os.path.dirname(os.path.abspath(__file__)))

CLAIMED = {
    "C09": {
        "text": "TLC exhausts the RAII guard machine EvalStack.tla (every enter/leave of scope, frame, call, try; Throw enabled in every "
                "state; unwinding runs destructors) and checks ShapeMatchesGuards/RestoredAtTop/TopLevelDeclsSurvive in every state; the "
                "real engine is then driven through fault enumeration (every callback invocation x 4 exception kinds, script-level "
                "throw/return/break and eleven kinds of error the engine raises by itself - duplicate parameter or capture names while binding a call, "
                "unknown function or method, failed guard, arity, division by zero, out of range, redeclaration - at every callback site), every run traced through the H2 hooks and validated event by event by TLC "
                "against the same ChaiState transitions (EvalStackTrace.tla), with the engine's own stack-shape accessor, get_locals() and "
                "a follow-up script as independent reads.",
        "note": "Assumes the H2 hooks sit next to the state changes they report (cross-checked against verif_stack_shape at every "
                "eval boundary); programs come from gen/faultprogs.py (5 fixed + seeded random); exhaustive only inside the model bounds "
                "(MaxGuards 5 quick / 6 thorough).",
        "technique": "TLA+ model checking (TLC) + trace validation of hooked executions + fault enumeration",
        "design": "5 C09",
    },
}

CLAIMED["C04"] = {
    "text": "TLC exhausts the lookup-hint machine of get_object inside EvalStack.tla (scopes, frames with every prologue, declarations, "
            "two sites; invariant CacheInvisible: the cell reached equals by-name resolution) and, as executable reference, enumerates "
            "layout programs (Layout.tla: one lambda body re-evaluated under different arrangements of locals - dynamic declarations via "
            "eval(), free vs attribute call, captures, parameters, shadowed globals) with their by-name outputs; every case is replayed "
            "into the real engine with hints enabled and disabled and both must equal the reference; a sample of runs is traced and TLC "
            "checks every recorded get_object resolution against by-name resolution in the reconstructed stack."
            " A third family (tiers) covers the function tier: names that are functions from the start and globals of the same name created between two calls of the same body.",
    "note": "Reference = by-name lookup written in TLA+ (no cache concept); trusted: the printer in gen/checks/c04.py and hook H2's "
            "hint-ignoring switch (itself compared with the reference). Exhaustive over the 62,720-case small family in the thorough tier "
            "(a seeded third in quick) plus seeded random three-call cases.",
    "technique": "TLA+ model checking (TLC) + TLC-generated cases replayed into the implementation + trace validation",
    "design": "5 C04",
}

CLAIMED["C12"] = {
    "text": "Containers.tla models Vector, string, Map and range views with every std:: precondition explicit (each operation is a total "
            "function to a result or 'throws'); TLC explores the state graphs (values {1,2}, length <= 3 quick / 4 thorough, index classes "
            "{-1,0,size-1,size,size+1,huge}) checking WithinModel/Total, and exports one record per transition; every transition is "
            "replayed as its own test through the script API in an ASan/UBSan build (result or exception, and full contents afterwards), "
            "followed by seeded walks of 3-10 operations through the same graph."
            " Index arguments of [] also arrive as size_t, long and unsigned int (idx_t transitions); substr also takes the size_type maximum "
            "(-1: the to-the-end idiom, where pos + len wraps around) as length and as position.",
    "note": "Reads/writes outside the container are observed by ASan on the replayed cases (TLC decides the abstract bounds only); "
            "range views are exercised only while their container is not structurally modified (excluded by the property).",
    "technique": "TLA+ state graph (TLC) with one implementation test per transition, replayed under ASan",
    "design": "5 C12",
}

CLAIMED["C15"] = {
    "text": "EngineState.tla has two layers: the dictionary model of the property (pure Step function over functions-by-signature, globals, "
            "types, used files, a class; snapshots are copies) and an implementation-shaped layer (three function tables, overload vectors "
            "behind shared pointers, snapshots sharing the heap, copy-on-write add_function). TLC checks TablesInStep, Refines (the live "
            "tables equal the dictionary model after every operation, in particular after set_state) and SnapshotsImmutable over all "
            "histories inside the bound, and the in-place variant must fail. As executable reference TLC then enumerates histories (all of "
            "length 3 over 17 operations, seeded random ones of length 8) with the visible environment expected after every step; each is "
            "replayed into the real engine and probed through plain calls, member calls, get_functions(), globals, type names in both directions "
            "(name -> type, and object -> name for objects made before any snapshot), a class and "
            "a top-level local after every step."
            " The probes include persistent call sites (parsed before any snapshot, run again after every step) and a diverged-timelines family that is deliberately not probed right after set_state (a probe there would heal a stale lookup hint).",
    "note": "Globals are modelled as the code shares them: a snapshot holds the binding name -> object, so a later assignment to an "
            "existing global is visible through the snapshot (spec correction, see DESIGN.md); modules (load_module) are not exercised.",
    "technique": "TLA+ model checking (TLC) + TLC-generated histories replayed step by step into the implementation",
    "design": "5 C15",
}

CLAIMED["C13"] = {
    "text": "Threads.tla models the four mutexes, the shared tables and each critical section of add_function, get_function, "
            "add_conversion, the per-thread type cache refresh, use() (with its unlock-evaluate-relock protocol) and get_state as "
            "separate lock/access steps; TLC explores every interleaving of 2-3 threads checking NoConflictingOverlap, "
            "AllRegistrationsRetained, VisibleAfterReturn, UsedOnce, CacheNeverAhead, deadlock freedom and progress under fairness, "
            "and three mutants of the design must fail. The real engine is then stressed with 2..16 threads; lock events and "
            "access markers (hooks H3/H4, sequence numbers taken inside the critical sections) are validated by TLC against the lock "
            "discipline and the data laws (ThreadsTrace.tla) so a dropped or weakened lock is rejected at the first marked access "
            "whether or not the race manifests; per-thread results are compared with their single-threaded expectation; the same "
            "driver under ThreadSanitizer observes unmarked accesses.",
    "note": "Interleavings are exhaustive only in the model; real schedules are sampled (seeded stress, injected yields). Accesses "
            "without an H4 marker are seen only by the TSan observer. set_state and load_module are not part of the stress mix.",
    "technique": "TLA+ model checking of the locking design (TLC) + trace validation of hooked multi-threaded runs + TSan observer",
    "design": "5 C13",
}

CLAIMED["C10"] = {
    "text": "Exceptions.tla states the property as a reference semantics of try/catch/finally nests (object-level clause matching over the "
            "registered exception hierarchy, first match wins, finally exactly once, nothing after the throw point) next to a "
            "transcription of Try_AST_Node (C++ catch arms fixing the static type, clause loop, finally placement); TLC checks that the "
            "transcription refines the reference on all 15,870 programs of the family and refutes each of the three pinned behaviours; the "
            "same programs with the reference's marker trace and escaping kind are replayed into the real engine with the throw site "
            "rotated over seven frame kinds (direct, function, lambda, method, bind, for_each callback, attribute-held function)."
            " Thrown kinds: six C++ exceptions thrown by registered functions (also behind the arithmetic-conversion route of dispatch), six script values (int, string, runtime_error value, a registered base/derived pair, a script class instance).",
    "note": "Known finding (known_findings.json): non-std C++ exception types are invisible to script clauses. Guarded clauses and "
            "exception_specification handlers are outside the family; thrown kinds: int, string, runtime_error, out_of_range, logic_error, "
            "bad_cast, eval_error, a non-std struct.",
    "technique": "TLA+ refinement check (TLC) of the transcribed try/catch/finally machine against the reference + replay of TLC-enumerated nests",
    "design": "5 C10",
}

CLAIMED["C19"] = {
    "text": "Files.tla transcribes load_file/skip_bom including the std::ifstream state (short read sets failbit, seekg on a failed stream is "
            "ignored, the pre-sized buffer stays zero) next to Content(bytes) = bytes minus one leading BOM, and TLC checks equality for all "
            "9,331 files over 6 byte classes up to length 5 (the pinned stream handling is refuted); every such file is then written to disk and "
            "eval_file(path) is compared with eval(content) in the real engine, as are 20 programs with 0/1/2 BOMs, CRLF, shebang and trailing "
            "NULs. The use() part is a pure reference machine (search paths in order, evaluate once, mark after success, nested failure "
            "propagates) whose per-step outcome and per-file evaluation counts, computed by TLC for seeded histories over random file systems, "
            "are replayed step by step.",
    "note": "Histories are drawn by a seeded Python generator and handed to TLC, which computes the expectations; file systems with "
            "inclusion cycles are excluded (they recurse for ever in the engine by design: a file is marked used only after evaluation).",
    "technique": "TLA+ refinement check of the transcribed loader (TLC) + replay of TLC-computed expectations for files and use() histories",
    "design": "5 C19",
}

CLAIMED["C17"] = {
    "text": "Prelude.tla defines every covered library function over sequences together with the callback invocations it may make; TLC "
            "checks that the range-cursor loop models of take/drop/zip_with refine the definitions and that the algebraic laws hold for every "
            "vector inside the bound, then exports all cases (25 functions x vectors of length <= 3 (4 thorough) over {-1,0,1,2} x callback "
            "menu x numeric argument classes {-1,0,1,size,size+1}; scalars -5..5) with expected result, callback trace and unchanged "
            "inputs; every case is replayed through the real prelude. Range objects (range, retro, range of a range) held in a variable are inputs too: "
            "the cursor model (CloneRange, InputRangeKept) says the caller's range still spans everything afterwards, and it is drained after the call."
            " Also covered: strings as containers (ltrim/rtrim/trim with TrimLaws, take/drop/filter/take_while/drop_while/reverse/concat over strings), retro, find, collate, new, and join/to_string over vectors of strings (JoinLaws).",
    "note": "Covered: for_each map filter foldl reduce sum product any_of all_of contains take take_while drop drop_while concat zip "
            "zip_with reverse join to_string generate_range min max even odd, retro, find, collate, trim family; map inputs are not in the family.",
    "technique": "TLA+ functional specification (TLC checks loop refinement and laws) + exhaustive replay of TLC-exported cases",
    "design": "5 C17",
}

CLAIMED["C18"] = {
    "text": "JsonSpec.tla transcribes JSONParser (parse_next/array/object/string/number/bool/null with the offset arithmetic of the code, "
            "including the --offset of parse_number and the for-loop exits), dump/json_escape and the key handling, over (text, offset) "
            "with reads that raise when out of range; TLC checks RoundTrip on a family of value trees and Idempotent, ParsesOrThrows, "
            "OffsetSafe on every text of length <= 4 (5 thorough) over 14 characters. Every text, with the transcription's verdict "
            "(value or error), and every dumped tree is then sent through the real from_json / to_json / from_json in the ASan build and "
            "compared structurally (floating values numerically within 1e-6), together with nesting ramps up to 10^6 and seeded byte-level "
            "mutations of JSON documents for the 'never crashes' clause.",
    "note": "Reads past the input and stack exhaustion are observed by ASan / the child's exit status on replayed inputs only; float "
            "rounding is compared natively, not by TLC; \\uXXXX escapes are kept verbatim by the parser (modelled as such).",
    "technique": "TLA+ transcription of the cursor parser checked by TLC + exhaustive replay of TLC-evaluated texts under ASan",
    "design": "5 C18",
}

CLAIMED["C14"] = {
    "text": "Engines.tla models engines created at addresses, the per-thread storage maps with their key (address or process-unique id) "
            "and the destructor that erases only the destroying thread's entry; TLC checks Isolated (every thread sees in every live "
            "engine exactly what was declared there) over all histories of <= 6 (8 thorough) operations on 3 engine ids x 2 addresses x 3 "
            "threads, and refutes keying by address. Seeded histories with expectations computed by TLC are replayed by a director that "
            "placement-constructs engines in a fixed arena (so 'same address' is controlled) and runs operations on the main thread and "
            "two long-lived workers; after every step every (live engine, thread, name) and a per-engine function are probed."
            " Engines are created by workers as well as by main (the create operation carries its thread; keying by a per-thread creation count is a second refuted regression), and user conversions are registered per engine (conv / useconv operations, invariant ConvIsolated; a convertible-type cache shared by all engines of a thread is a third refuted regression).",
    "note": "Types, conversions and used-file records are per-engine members and are not probed separately; address reuse is produced "
            "with placement new only (the stack/heap variants reduce to it)."
            " User conversions are now probed; types and used-file records are not probed separately.",
    "technique": "TLA+ model checking (TLC) + replay of TLC-computed expectations by a multi-threaded director at controlled addresses",
    "design": "5 C14",
}

CLAIMED["C05"] = {
    "text": "Arith.tla states integral promotion, the usual arithmetic conversions, the result class of every operator (comparison -> "
            "bool, shift -> promoted left operand, compound assignment and ++/-- -> left operand type, in place), which operations C++ "
            "does not define on floating operands, and the trap predicate (integer / and % by zero, MIN / -1 in the working type); TLC "
            "checks the table laws and exports every (operator, left kind, right kind, left value class, right value class) cell, plus shift cells with "
            "the counts 8, 16 and 31 (a shift is carried out in the promoted type of its left operand, so these are valid for 8- and 16-bit operands too); the "
            "driver checks the table against decltype, evaluates every cell in the real engine by up to four routes (runtime node, "
            "operator as function, right-constant fold, constant fold) and compares result class, value and the left operand after "
            "in-place operators with native C++ arithmetic on the same types; a crash (SIGFPE) is an observation.",
    "note": "Values are computed natively, not by TLC (32-bit integers, no floats); cells whose C++ result is undefined without "
            "trapping (signed overflow, over-wide shifts, out-of-range float->int) are excluded as the property says; long and long long "
            "are one class (same width and signedness).",
    "technique": "TLA+ typing/trap table checked by TLC and against the compiler + exhaustive cell replay against native arithmetic",
    "design": "5 C05",
}

CLAIMED["C16"] = {
    "text": "CharParser.tla puts the escape automaton of the parser (flags, digit buffers, process_octal/hex/unicode, end-of-literal flush) "
            "next to a direct statement of C++ escape decoding and TLC checks equality on every literal body of length <= 4 (5 thorough) "
            "over 13 characters plus 31 long forms (\\U at every boundary, octal and hex edges); Literals.tla puts the buildInt ladder "
            "next to the [lex.icon] table over symbolic boundary values 2^k+d and TLC checks equality on all 384 cells. Every body is then "
            "evaluated as a string (and char) literal and compared byte for byte with the reference decoding; every ladder cell is "
            "instantiated in every base and suffix spelling and compared for type and value; seeded float spellings are compared with the "
            "correctly rounded value within 4 ulp; identifiers colliding with a special word under the parser's own hash function (found by "
            "search, re-verified against the current hash at check time) and near-miss spellings must be ordinary usable names.",
    "note": "Float rounding is decided natively (decimal arithmetic), not by TLC; spellings that are not C++ literals (08, 1e, 1uu, "
            "> 2^64-1) are outside the property; interpolation markers are not part of the escape family.",
    "technique": "TLA+ refinement checks of the transcribed automaton and ladder (TLC) + exhaustive replay of TLC-exported literals",
    "design": "5 C16",
}

CLAIMED["C06"] = {
    "text": "Trace validation of recorded calls: the driver registers every ordered pair (and singleton) of an 18-entry unary and a 12-entry "
            "binary catalogue of C++ signatures (value, const&, &, *, const*, shared_ptr, shared_ptr<const>, arithmetic, bool, string, "
            "Base/Derived, Boxed_Value, Boxed_Number) under one name, calls it with every argument kind (values, literals, const objects, "
            "references, shared_ptr, a Base that really is a Derived, a const Base that is not) and records which overload was entered, how "
            "often and what it received, plus boxed_cast<T> of every argument kind to 13 forms, wrong-arity calls, data-member accessors by four routes, and "
            "seven forms of a parameter reached through a user type_conversion<From, To> (alone, beside a From overload, beside a catch-all) in engines "
            "with and without the conversion, and std::vector<int> / std::map<std::string, int> parameters reached through vector_conversion / map_conversion from script containers of several element kinds; TLC checks every one of "
            "the ~16,000 rows against the laws of Dispatch.tla (TypeSafe/ConstSafe, ExactWins, ExactlyOnce, NoMatchNoEntry, "
            "ReceivedIsConverted, CastSound) and against a transcription of function_less_than/dispatch/dispatch_with_conversions/boxed_cast, "
            "and checks (SpecSound) that the transcription itself satisfies the laws.",
    "note": "A difference from the transcription that still satisfies the laws is reported as drift in the evidence, not as a violation. "
            "Known finding: an exception of a swallowed type thrown from inside an entered function makes the loop enter a second overload. "
            "std::function wrappers are not in the catalogue yet.",
    "technique": "trace validation by TLC of recorded overload resolutions and casts against a TLA+ specification (laws + transcription)",
    "design": "5 C06",
}

CLAIMED["C03"] = {
    "text": "ChaiCore.tla is an independent reference interpreter of the documented core semantics written in TLA+ (state-passing "
            "big-step evaluator over cells, objects, frames of scopes, globals, functions, classes, output): C operators on ints, "
            "strings, bools; short-circuit; ternary; block scoping and shadowing; clone on declaration vs aliasing through references, "
            "parameters, captures and ranged-for variables; shallow container copies; const literals and temporaries; if/else-if/else, "
            "while/for/ranged-for with break/continue; switch with fall-through; functions with typed parameters, guards (overload order: "
            "non-matching parameter types, guarded first, definition order), early return; lambdas with captures; classes with "
            "attributes, constructors, methods; vectors and maps. A seeded grammar-directed generator draws programs as data; TLC "
            "evaluates every program with the reference (output lines, final value, error class, and the reference's own scope "
            "balance) and the driver runs the same program in the real engine with the optimizing and the unoptimized parser; all "
            "three must agree."
            " The generator now also draws try / catch (typed and untyped) / finally / throw with engine errors and control flow leaving through handlers, several overlapping guarded overloads per name, operands with visible effects under && || ?:, and string interpolation; fixed programs pin the repaired return-value-flag defect and the per-iteration binding of a ranged-for variable captured by a closure.",
    "note": "Sampling over the generator's program space (1,500 programs quick / 20,000 thorough per seed), not exhaustive; programs whose "
            "integers grow beyond +-30000 or that exhaust the reference's loop fuel are dropped; string ordering, floats, try/catch "
            "(C10), size_t arithmetic and modification of a container during iteration (C12 exclusion) are not generated; trusted: the "
            "AST printer.",
    "technique": "TLA+ reference interpreter evaluated by TLC on generated programs + differential replay into the implementation (both parsers)",
    "design": "5 C03",
}

CLAIMED["C02"] = {
    "text": "Optimizer.tla transcribes the default optimizer's rewrites (Constant_Fold of prefix/binary/logical operators on literals, "
            "If with constant condition, Dead_Code, Return, Block/Scopeless_Block, For_Loop) as functions over ChaiCore ASTs; TLC checks "
            "OptEquiv — the ChaiCore reference gives the same output, value and error class for e and Opt(e) — over trigger ASTs that "
            "reach every rewrite and over generated programs, and a pinned configuration (DropIds=TRUE, the pre-fix Dead_Code) must be "
            "rejected so the property is not vacuous. The same programs and a list of textual trigger programs are then evaluated in "
            "the real engine with the default optimizer and with the identity optimizer (Optimizer<NopPass>), both compared to each "
            "other and to the reference. The textual triggers include declarations whose initializer mentions the declared name, and compiled loops "
            "whose counter leaves the loop or which are entered again while they run.",
    "note": "Sampling over generated programs plus hand-written triggers per pass; the equivalence is observed on output, final value "
            "and error class, not on timing or allocation. Known finding: declarations made by eval/use inside a block the Block pass "
            "made scopeless.",
    "technique": "TLA+ transcription of the optimizer passes checked by TLC against the TLA+ reference interpreter + differential replay into the implementation (optimized vs identity optimizer)",
    "design": "5 C02",
}

CLAIMED["C08"] = {
    "text": "Reeval.tla runs on ChaiCore's machine extended with the syntax tree as state: every literal node owns ONE cell (M.ast) that each "
            "evaluation hands out (as Constant_AST_Node::m_value is), values returned by value carry the return-value flag, and every mutating "
            "operation respects const/temporary flags. TLC evaluates generated cases - functions building and mutating locals from literals along "
            "every escape route (var, var&, :=, argument, return, ternary, container element, capture, loop variables, the counter of a compiled loop "
            "returned from inside it, a compiled loop entered again while it runs), called 3-4 times interleaved "
            "- and decides AstUnchanged after every segment and Rerun per call group; the same cases with one literal marked mutable must be "
            "reported (sanity). Each case is replayed in the real engine with both parsers through eval(AST_Node) on kept trees: outcome, output and "
            "value per segment equal the reference, equal calls are equal among themselves, and a structural snapshot of every kept tree (node kinds, "
            "texts, positions, each Constant's type/const flag/value, folded right-hand constants, Def/Lambda bodies, originals of compiled loops) "
            "equals the snapshot taken after parsing. Textual cases cover literal kinds outside the reference (floats, chars, suffixes, ranges, "
            "string/vector/map methods, classes, guards).",
    "note": "Sampling over the generator's space (400 cases quick / 6000 thorough per seed) plus 80 textual cases; not exhaustive. 'Equal environment' "
            "is built by construction (functions read only parameters, locals, literals, pure helpers). Trusted: the AST printer and the snapshot walker.",
    "technique": "TLA+ reference machine with the syntax tree as state, evaluated by TLC on generated call histories (AstUnchanged, Rerun) + replay into the implementation with structural AST snapshots (both parsers)",
    "design": "5 C08",
}

CLAIMED["C20"] = {
    "text": "Position.tla is the parser's cursor as a state machine (operator++/--/- with the single remembered column; SkipWS, SkipComment with its "
            "two step-backs across a line end, Eol, token and look-ahead calls in any order the parser can make them) over every text of character "
            "classes up to MaxLen: CoordsTrue (line/col are the true coordinates) holds in every state, and the modelled regression (operator- as "
            "column arithmetic) is found by TLC. ErrStack.tla joins ChaiCore's error propagation (every labelled node an error unwinds through - the "
            "failing identifier/call, then each enclosing call across functions and chunks - is appended to the call stack) with PositionOps!Scan "
            "(cursor coordinates at every token character of a laid-out chunk). Generated multi-chunk programs (LF/CRLF/mixed, blank lines, //, #, "
            "/* */ comments, indentation, real files and eval labels, call depth 0-4, five fault kinds, call sites nested in if/for/while/blocks/"
            "lambdas/arguments) are decided by TLC and replayed in the engine: eval_error::call_stack[0] and the Fun_Call subsequence must carry the "
            "predicted file, line and column; the spec cursor is cross-checked with the generator's ground truth on every label.",
    "note": "The cursor model is exhaustive for texts up to 4 (quick) / 7 (thorough, reduced alphabet) character classes; program-level replay is sampling "
            "(250 quick / 4000 thorough cases per seed). Only call sites that begin with an identifier (as the property's quantifier states); parse-error positions are not part of the property.",
    "technique": "TLC model checking of the cursor automaton (exhaustive small texts) + TLA+ reference call-stack/coordinates prediction evaluated by TLC on generated programs, replayed into the implementation",
    "design": "5 C20",
}

CLAIMED["C07"] = {
    "text": "ConstAlias.tla: objects (value, const source?) reached through handles (object + const flag); routes that share the object and keep the "
            "flag (var&, :=, parameter, capture, identity call, return, ternary, push_back_ref, attribute binding) or clone it (var =, inline vector, "
            "push_back, ranged-for over an inline vector, map insertion, clone()); mutators that check the handle before touching the object. TLC checks "
            "ConstObjectsUnchanged, ConstFlagSurvives and FailedAttemptsLeaveNoTrace over every chain of routes followed by any mutator from every "
            "source, and refutes a binding that drops the flag. Every chain is exported with its prediction, printed from per-action templates and run "
            "against 24 const sources (literals and constants the optimizer folds, const_var/add_global_const values, C++ objects by const&, const*, cref wrapper, "
            "shared_ptr<const>, and const VIEWS of non-const C++ objects: const_var(std::ref(x)), const_var(&x), const_var(shared_ptr<T>)) and "
            "5 mutable controls; the value of each C++-owned object is read from C++ before and after, the script's own view before/after, and an "
            "attempt through a const handle must fail - counted only where the same chain+mutator provably mutates the control.",
    "note": "Chains of length <= 1 exhaustively and a seeded 2500 of length 2 in quick; all of length <= 2 in thorough (about 56,000 scripts). Known findings: "
            "const of Vector/Map is shallow (elements stay mutable, also through by-value copies). A by-value `const T` return and a shared_ptr<int> parameter "
            "receiving a converted number are not const objects and are outside the family (DESIGN.md).",
    "technique": "TLC model checking of the handle/route/mutator machine + TLC-enumerated chains replayed into the implementation with C++-side observation and mutable controls",
    "design": "5 C07",
}

CLAIMED["C11"] = {
    "text": "Lifetime.tla: cells own or merely borrow an object (as Object_Data::get / Handle_Return decide), owners are named variables or temporaries "
            "of the full expression, binders keep the cell (:=, capture, bind(), push_back_ref, attribute :=, global, C++-kept shared_ptr) or clone the "
            "object (=, push_back, attribute =), events end the owner's life (statement end, scope exit, exception, function return, owner cleared / "
            "re-seated). TLC checks OwningNeverDangles and DanglingOnlyByBorrow over every path and exports each with its verdict. Every path is "
            "printed from templates and run (both parsers, evaluated twice) against an instrumented class whose registry records constructions, "
            "destructions, touches after destruction, double destruction and instances alive after the engine is gone; model-safe paths also run "
            "under ASan+UBSan with stack-use-after-return detection. Safe paths must be clean, nothing may leak or die twice on any path.",
    "note": "Exhaustive over the paths of the model (22 sources - among them values converted down or up a class hierarchy for a typed script parameter, and references and pointers into the object a user conversion made for a C++ "
            "parameter - x 11 binders x 6 events, applicable combinations). The dangling verdicts are the "
            "borrowed-reference escapes: 14 known findings, one per source of bare references; 2 more for const-reference returns adopted instead of copied. Reference cycles and other threads' per-thread state are outside the property.",
    "technique": "TLC model checking of the ownership machine + TLC-enumerated paths replayed into the implementation with an instrumented class (registry) under plain and ASan/UBSan builds",
    "design": "5 C11",
}

CLAIMED["C01"] = {
    "text": "Brackets.tla is the grammar-independent part of the statement as a state machine over character classes: what is code, comment, string / char / "
            "back-quoted literal (with escapes), and the bracket stack; TLC checks StackIsOpeners, DepthBounded, TriviaMeansNoBrackets and StrayIsFinal on every "
            "text up to MaxLen, and Position.tla (shared with C20) checks CursorInBounds for every scanner call sequence. The spec then decides, for every text, "
            "necessary conditions the real parser must meet: outcome is a tree or eval_error; Accepts => brackets balanced and literals terminated; blanks-and-"
            "comments-only => accepted; an empty tree => blanks and comments only. Replayed: every text of length <= 4 (quick) / 5 (thorough) over 17 classes, "
            "generated valid programs (must be accepted) with bracket/quote mutations and truncations classified by TLC, sequences of statement-level keywords and "
            "blocks, interpolations with unbalanced code; plus robustness under ASan+UBSan: nesting ramps up to 200,000 (thorough 2,000,000) deep, arbitrary bytes "
            "incl. NUL and > 0x7e.",
    "note": "The conditions are necessary, not a grammar: a wrongly accepted text whose brackets balance is outside this check. Where a back-quoted name contains a "
            "blank or a comment opener the scanner makes no claim (Id_ skips blanks through Eol()). Escape shapes inside literals are C16's.",
    "technique": "TLC model checking of the lexical/bracket automaton and of the cursor + spec-decided necessary conditions replayed against the implementation (exhaustive small texts, classified mutations) + sanitizer robustness sweep",
    "design": "5 C01",
}

PENDING_REASON = "check not built yet in this session; planned (see DESIGN.md section 8)"

ALL = [f"C{i:02d}" for i in range(1, 21)]


def main():
    checks = []
    for pid in ALL:
        if pid not in CLAIMED:
            continue
        c = CLAIMED[pid]
        checks.append({
            "property_id": pid,
            "quick_cmd": f"bin/vcheck {pid} --tier quick",
            "thorough_cmd": f"bin/vcheck {pid} --tier thorough",
            "evidence_file": f"/verif/evidence/{pid}.json",
            "replay_cmd_template": f"bin/vcheck {pid} --replay {{path}}",
            "engine": "vcheck",
            "level_claimed": {"category": "model_checking", "text": c["text"], "design_ref": c["design"]},
            "level_note": c["note"],
            "technique": c["technique"],
        })
    m = {
        "version": 1,
        "setup_cmd": "python3 -m gen.setup",
        "hooks": {
            "guard": "CHAISCRIPT_VERIF",
            "enable": "drivers under /verif/harness are compiled with -DCHAISCRIPT_VERIF=1 against /repo/include (gen/lib.py build())",
            "baseline_off_cmd": "cmake --build /repo/_build -j 8 && ctest --test-dir /repo/_build -j8 --timeout 900",
            "source_commits": HOOK_COMMITS,
            "add_only": True,
        },
        "engines": [{"name": "vcheck", "path": "bin/vcheck", "serves_properties": sorted(CLAIMED),
                     "kind_free_text": "TLA+ specifications under spec/ checked by TLC; conformance by trace validation and by replay of "
                                       "TLC-enumerated cases into C++ drivers (harness/) built from /repo's working tree"}],
        "checks": checks,
        "notes": "All checks: exit 0 quiet, 1 with VIOLATION line, 2 infrastructure failure. known_findings.json lists recorded findings and fixed defects.",
        "not_applicable": [{"property_id": p, "reason": NOT_APPLICABLE.get(p, PENDING_REASON)} for p in ALL if p not in CLAIMED],
    }
    with open(os.path.join(V, "MANIFEST.json"), "w") as f:
        json.dump(m, f, indent=1)
    print("claimed:", sorted(CLAIMED))


HOOK_COMMITS = ["fd261f7", "640e2e5", "21ea125"]
NOT_APPLICABLE = {}

if __name__ == "__main__":
    main()
