"""C09 - every evaluation leaves the engine's scope/call stack as it found it.
M: EvalStack.tla (RAII guard machine, Throw enabled everywhere) model-checked by TLC.
V: fault enumeration on the real engine - every callback invocation x 4 exception kinds, plus
   script-level throw/return/break substituted at every callback site - each run traced through the
   H2 hooks and validated event by event against ChaiState by TLC (EvalStackTrace.tla)."""
import json
import os
import re

from .. import faultprogs, lib

SANITY = "var sanity_check_v = 40; sanity_check_v + 2"
BASE_SHAPE = [1, 1, 1, 0, 0, 0, 0]


def make_cases(progs, tier):
    """run 0 of each program first (to count callback invocations), then the faulted runs"""
    cases = []
    for pi, (text, names) in enumerate(progs):
        cases.append({"id": f"p{pi}.r0", "trace": 1, "to": 20,
                      "steps": [{"op": "eval", "src": text}, {"op": "locals"}, {"op": "eval", "src": SANITY}]})
    return cases


def site_variants(text):
    """script-level aborts substituted for the k-th cb( call site"""
    sites = [m.start() for m in re.finditer(r"\bcb\(", text)]
    out = []
    for k, pos in enumerate(sites):
        # find the matching parenthesis of this call
        depth = 0
        end = None
        for j in range(pos + 2, len(text)):
            if text[j] == "(":
                depth += 1
            elif text[j] == ")":
                depth -= 1
                if depth == 0:
                    end = j + 1
                    break
        if end is None:
            continue
        for tag, repl in (("throw", "throw(7)"), ("return", "fun() { return 7 }()"), ("break", "eval(\"break\")")):
            out.append((k, tag, text[:pos] + repl + text[end:]))
    return out


# aborts the ENGINE raises by itself, substituted for a callback site: while binding the arguments of a call (after the frame was
# pushed), in dispatch, in a guard, in arithmetic, in a container, in a declaration
ENGINE_ERRORS = [("dupparam", "fun(dp, dp) { dp }(1, 2)"),
                 ("dupdef", "verif_dup_param(1, 2)"),
                 ("capture", "fun() { var cp = 5; fun[cp](cp) { cp }(7) }()"),
                 ("nofun", "verif_no_such_function(1)"),
                 ("guard", "verif_guarded(1)"),
                 ("arity", "fun(p1) { p1 }(1, 2)"),
                 ("divzero", "(1 / 0)"),
                 ("range", "[1][5]"),
                 ("redecl", "fun() { var rq = 1; var rq = 2; rq }()"),
                 ("method", "fun() { var o = Dynamic_Object(); o.verif_no_method(1) }()"),
                 ("attr", "verif_dup_method()")]
ENGINE_PRELUDE = ("def verif_dup_param(a, a) { a }; def verif_guarded(x) : x > 5 { x }; "
                  "class VerifDupK { def VerifDupK() { }; def m(b, b) { b } }; def verif_dup_method() { var k = VerifDupK(); k.m(1, 2) };\n")


def engine_variants(text, quick, rnd):
    """the engine's own errors substituted for the k-th cb( call site"""
    out = []
    for k, tag0, t2 in site_variants(text):
        if tag0 != "throw":
            continue
        # every site gets some of the errors, every error appears at many sites (all of them at every site would multiply the
        # thorough tier's traces by ten: measured at more than 80 minutes of trace validation)
        if quick and k >= 4:
            continue
        tags = rnd.sample(ENGINE_ERRORS, 3 if quick else 4)
        for tag, repl in tags:
            out.append((k, tag, ENGINE_PRELUDE + t2.replace("throw(7)", repl, 1) if t2.count("throw(7)") == 1 else None))
    return [x for x in out if x[2]]


def validate_traces(ck, traces, cfg="EvalStackTrace", tag="C09"):
    """all shards' traces through TLC; returns list of (trace path, rejected line number, event)"""
    rejected = []
    from concurrent.futures import ThreadPoolExecutor
    # TLC holds a trace as one sequence and refuses sets of more than a million elements: long traces are cut at case boundaries
    pieces = []
    for tp in traces:
        if os.path.getsize(tp) < 40_000_000:
            pieces.append(tp)
            continue
        k, n, out = 0, 0, None
        with open(tp) as f:
            for l in f:
                if out is None or (n >= 300000 and '"e":"reset"' in l):
                    if out:
                        out.close()
                    k += 1
                    n = 0
                    pieces.append(f"{tp}.part{k}")
                    out = open(pieces[-1], "w")
                out.write(l)
                n += 1
        if out:
            out.close()
    traces = pieces

    def one(tp):
        if os.path.getsize(tp) == 0:
            return tp, None
        res = lib.tlc("EvalStackTrace", cfg, workers=1, env={"TRACE": tp}, timeout=900, tag=tag + os.path.basename(tp), heap="4g")
        return tp, res

    with ThreadPoolExecutor(max_workers=8) as ex:
        for tp, res in ex.map(one, traces):
            if res is None:
                continue
            ck.add_tlc("EvalStackTrace:" + os.path.basename(tp), res)
            if not res.ok:
                m = re.search(r'"REJECTED_AT",\s*(\d+),\s*(\[.*?\])\s*>>', res.output, re.S)
                line = int(m.group(1)) if m else -1
                rejected.append((tp, line, re.sub(r"\s+", " ", m.group(2)) if m else res.violation, res))
    return rejected


def case_of_line(trace_path, line):
    """id of the case (reset marker) containing `line` (1-based) of a trace"""
    cid = None
    ctx = []
    with open(trace_path) as f:
        for i, l in enumerate(f, 1):
            if '"e":"reset"' in l:
                cid = json.loads(l)["n"]
                ctx = []
            ctx.append(l.strip())
            if i >= line:
                break
    return cid, ctx[-12:]


def run(ck, tier, seed):
    quick = tier == "quick"
    # ---------------- M
    cfgs = ["EvalStack_C09"] if quick else ["EvalStack_C09", "EvalStack_C09_thorough"]
    for cfg in cfgs:
        res = lib.tlc("EvalStack", cfg, timeout=1500, heap="12g")
        ck.add_tlc(cfg, res)
        if not res.ok:
            ck.violation(f"model:{cfg}", f"EvalStack design violates {res.violation}", lib.tlc_trace_text(res))
    res = lib.tlc("EvalStack", "EvalStack_C09_pinned", timeout=300)
    if res.ok:
        raise lib.Infra("sanity: the model without ClearSaves must violate RestoredAtTop, it did not (vacuous spec)")
    ck.notes.append(f"sanity: model with ClearSaves=FALSE violates {res.violation} after {res.distinct} states (expected)")

    # ---------------- V: fault enumeration
    vdrive = lib.build("vdrive", "plain")
    work = lib.scratch("c09")
    progs = faultprogs.programs(seed, 12 if quick else 120)
    obs0, tr0 = lib.run_driver(vdrive, make_cases(progs, tier), work, tag="run0", trace=True)
    cases = []
    meta = {}
    kinds = [0, 1, 2, 3]
    import random
    rnd = random.Random(seed * 7919 + 9)
    for pi, (text, names) in enumerate(progs):
        o = obs0[f"p{pi}.r0"]
        meta[f"p{pi}.r0"] = (text, names, "none")
        if "died" in o:
            continue
        n = o["steps"][0]["cb"]
        ks = list(range(1, n + 1))
        if quick and len(ks) > 12:
            ks = ks[:6] + ks[-6:]
        for k in ks:
            for kind in kinds:
                cid = f"p{pi}.cb{k}.k{kind}"
                meta[cid] = (text, names, f"callback invocation {k} throws kind {kind}")
                cases.append({"id": cid, "trace": 1, "to": 20, "fault": {"at": k, "kind": kind},
                              "steps": [{"op": "eval", "src": text}, {"op": "locals"}, {"op": "eval", "src": SANITY}]})
        sv = site_variants(text)
        if quick:
            sv = sv[:9]
        for k, tag, t2 in sv:
            cid = f"p{pi}.site{k}.{tag}"
            meta[cid] = (t2, names, f"script-level {tag} at callback site {k}")
            cases.append({"id": cid, "trace": 1, "to": 20,
                          "steps": [{"op": "eval", "src": t2}, {"op": "locals"}, {"op": "eval", "src": SANITY}]})
        for k, tag, t2 in engine_variants(text, quick, rnd):
            cid = f"p{pi}.site{k}.{tag}"
            meta[cid] = (t2, names, f"engine-raised error ({tag}) at callback site {k}")
            cases.append({"id": cid, "trace": 1, "to": 20,
                          "steps": [{"op": "eval", "src": t2}, {"op": "locals"}, {"op": "eval", "src": SANITY}]})
    obs, traces = lib.run_driver(vdrive, cases, work, tag="faults", trace=True)
    obs.update(obs0)
    traces += tr0

    # driver-side observations (independent of the trace)
    for cid, o in obs.items():
        text, names, what = meta[cid]
        ck.evaluations += 1
        if "died" in o:
            ck.violation(f"died:{what}", f"process died ({o['died']}) evaluating: {text[:200]}", {"case": cid, "program": text, "fault": what})
            continue
        st = o["steps"]
        ck.nontrivial.add((st[0]["oc"], tuple(st[0]["shape"]), st[0].get("ex", ""), len(st[1]["locals"])))
        if st[0]["shape"] != BASE_SHAPE:
            ck.violation(f"shape:{shape_key(st[0]['shape'])}",
                         f"after eval ({what}, outcome {st[0]['oc']}) stack shape is {st[0]['shape']} not {BASE_SHAPE}",
                         {"case": cid, "program": text, "fault": what, "shape": st[0]["shape"]})
        if "threw" in st[1]:
            ck.violation("locals-threw", f"get_locals() after eval ({what}) threw: {st[1]['threw']}", {"case": cid, "program": text, "fault": what})
        done = sum(1 for x in st[0]["out"] if re.fullmatch(r"T\d+", x))
        marks = [int(x[1:]) for x in st[0]["out"] if re.fullmatch(r"T\d+", x)]
        expect = sorted(n for i, n in enumerate(names) if n and i in marks)
        if marks != list(range(len(marks))):
            expect = None  # cannot happen at top level; be safe
        if expect is not None and sorted(st[1]["locals"]) != expect:
            ck.violation("locals", f"after eval ({what}) top-level locals are {sorted(st[1]['locals'])}, completed declarations are {expect}",
                         {"case": cid, "program": text, "fault": what})
        if st[2].get("oc") != "val" or st[2].get("v") != "int:42":
            ck.violation("sanity", f"engine does not evaluate normally after ({what}): {st[2]}", {"case": cid, "program": text})
        if st[2].get("shape") != BASE_SHAPE:
            ck.violation(f"shape:{shape_key(st[2].get('shape'))}", f"shape after the follow-up script is {st[2].get('shape')}", {"case": cid, "program": text})
    # TLC validates every recorded event
    for tp, line, evt, res in validate_traces(ck, traces):
        cid, ctx = case_of_line(tp, line)
        text, names, what = meta.get(cid, ("?", [], "?"))
        ek = re.search(r'e \|-> "([^"]+)"', str(evt))
        ck.violation(f"trace:{ek.group(1) if ek else 'postcondition'}",
                     f"recorded execution is not a behaviour of ChaiState: event {evt} rejected (case {cid}: {what})",
                     {"case": cid, "program": text, "fault": what, "rejected_event": str(evt), "preceding_events": ctx})
    ck.traces += len(obs)
    nev = sum(sum(1 for _ in open(t)) for t in traces)
    ck.extra["trace_events"] = nev
    ck.extra["programs"] = len(progs)
    ck.rule = ("fault enumeration: each program run once to count callback invocations, then once per (invocation, exception kind in "
               "{runtime_error, non-std type, Boxed_Value, eval_error}) and per script-level throw/return/break substituted at each "
               "callback site, and per error the engine raises by itself there (duplicate parameter / capture names while binding a call, unknown function, failed guard, arity, division by zero, out of range, redeclaration, unknown method); distinct = distinct (outcome class, final shape, exception type, #locals) tuples")
    ck.sample({"case": cases[0]["id"], "program": meta[cases[0]["id"]][0][:300], "fault": meta[cases[0]["id"]][2],
               "observation": obs[cases[0]["id"]]["steps"][0]})
    ck.sample({"case": cases[-1]["id"], "program": meta[cases[-1]["id"]][0][:300], "fault": meta[cases[-1]["id"]][2]})
    ck.assumptions += ["hooks H2/H5 report the state they are placed next to (checked by cross-comparing trace reconstruction with verif_stack_shape)",
                       "generated programs cover the constructs listed in gen/faultprogs.py only"]
    lib.rm(work)


def shape_key(s):
    if not s:
        return "none"
    return "stacks%d.scopes%d.cp%d.%d.depth%d.on%d.saves%s" % (s[0], s[1], s[2], s[3], s[4], s[5], "N" if s[6] else "0")
