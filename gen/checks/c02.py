"""C02 - the AST optimizer never changes what a program does.
M: Optimizer.tla - Constant_Fold, If, Dead_Code and Return as rewrites on the ChaiCore AST; TLC checks OptEquiv
   (Run(Opt(p)) = Run(p)) on every program handed in; the pinned Dead_Code (which also drops bare identifiers) must be refuted.
G: every program (seeded ones from the C03 generator, a family of pass triggers, and a list of textual trigger programs for the
   passes ChaiCore does not express: compiled for-loops, scopeless blocks, folded constants bound by reference) is evaluated by
   the real engine with the default optimizer and with the identity pass; output, value, type and error class must be equal
   (and equal to the reference where it applies)."""
import os

from .. import coregen, lib
from . import c03

I = lambda v: {"k": "int", "v": v}
ID = lambda n: {"k": "id", "n": n}
EX = lambda e: {"k": "expr", "e": e}
OUT = lambda e: {"k": "out", "e": e}


def fdef(name, body, params=()):
    return {"k": "def", "n": name, "params": [{"n": p, "ty": ""} for p in params], "guarded": False, "guard": {"k": "bool", "v": True}, "b": body}


def trigger_asts():
    """statement-position identifiers / constants, foldable conditions, trailing returns"""
    progs = []
    droppable = [ID("nosuch"), ID("gv"), I(5), {"k": "str", "v": "s"}, {"k": "bool", "v": True},
                 {"k": "bin", "op": "+", "l": I(1), "r": I(2)}, {"k": "bin", "op": "/", "l": I(1), "r": I(0)},
                 {"k": "call", "f": "nosuchfn", "a": []}]
    for d in droppable:
        for wrap in range(5):
            body = [EX(d), EX(I(1))]
            if wrap == 1:
                body = [{"k": "block", "b": [EX(d), OUT(I(7))]}, EX(I(1))]
            elif wrap == 2:
                body = [{"k": "if", "c": {"k": "bool", "v": True}, "t": [EX(d), OUT(I(7))], "ei": [], "haselse": False, "f": []}, EX(I(1))]
            elif wrap == 3:
                body = [{"k": "for", "i": {"k": "var", "n": "i", "e": I(0)}, "c": {"k": "bin", "op": "<", "l": ID("i"), "r": I(2)}, "s": {"k": "inc", "l": ID("i")},
                         "b": [EX(d), OUT(ID("i"))]}, EX(I(1))]
            elif wrap == 4:
                body = [EX(d), {"k": "ret", "e": I(1)}]
            progs.append([{"k": "global", "n": "gv", "e": I(3)}, fdef("f", body), OUT({"k": "call", "f": "f", "a": []}), EX(I(0))])
    conds = [{"k": "bool", "v": True}, {"k": "bool", "v": False}, {"k": "and", "l": {"k": "bool", "v": True}, "r": {"k": "bool", "v": False}},
             {"k": "bin", "op": "<", "l": I(1), "r": I(2)}, {"k": "not", "e": {"k": "bool", "v": False}},
             {"k": "bin", "op": "==", "l": {"k": "bin", "op": "%", "l": I(7), "r": I(0)}, "r": I(0)}]
    for c in conds:
        for he in (False, True):
            progs.append([{"k": "var", "n": "x", "e": I(1)},
                          {"k": "if", "c": c, "t": [{"k": "var", "n": "x", "e": I(2)}, OUT(ID("x"))], "ei": [], "haselse": he, "f": [OUT(I(9))] if he else []},
                          OUT(ID("x")), {"k": "ref", "n": "r", "e": c}, EX(ID("x"))])
            progs.append([{"k": "ref", "n": "r", "e": c}, {"k": "asg", "l": ID("r"), "e": {"k": "bool", "v": False}}, OUT(ID("r")), EX(I(0))])
    # Partial_Fold: `e op literal` with every combination of left type / literal type, with and without a script-defined operator for the pair
    S = lambda v: {"k": "str", "v": v}
    B = lambda v: {"k": "bool", "v": v}
    lefts = [("int", I(3)), ("string", S("ab")), ("bool", B(True))]
    for op in ("*", "+", "==", "<"):
        for lt, lv in lefts:
            for rt, rv in lefts:
                for userop in (False, True):
                    if op == "<" and lt == rt == "string":
                        continue          # string ordering is built in but outside the reference
                    prog = []
                    if userop:
                        prog.append({"k": "def", "n": op, "params": [{"n": "p", "ty": lt}, {"n": "q", "ty": rt}], "guarded": False, "guard": B(True),
                                     "b": [OUT(ID("p")), OUT(ID("q")), EX(I(77))]})
                    prog += [{"k": "var", "n": "x", "e": lv}, OUT({"k": "call", "f": "to_string", "a": [{"k": "bin", "op": op, "l": ID("x"), "r": rv}]}),
                             fdef("g", [EX({"k": "bin", "op": op, "l": ID("a"), "r": rv})], ["a"]), OUT({"k": "call", "f": "to_string", "a": [{"k": "call", "f": "g", "a": [ID("x")]}]}), EX(I(0))]
                    progs.append(prog)
    # && / || with a constant left operand: the right operand's type check and the fresh const result must survive
    for kind in ("and", "or"):
        for lv in (B(True), B(False), {"k": "bin", "op": "<", "l": I(1), "r": I(2)}):
            for rv in (I(5), S("s"), ID("flag"), B(True), {"k": "bin", "op": ">", "l": {"k": "call", "f": "tick", "a": [I(3)]}, "r": I(1)}):
                e = {"k": kind, "l": lv, "r": rv}
                tick = fdef("tick", [OUT(ID("a")), EX(ID("a"))], ["a"])
                progs.append([tick, {"k": "var", "n": "flag", "e": B(True)}, {"k": "var", "n": "y", "e": e}, OUT({"k": "call", "f": "to_string", "a": [ID("y")]}), EX(I(0))])
                progs.append([tick, {"k": "var", "n": "flag", "e": B(True)}, fdef("pick", [{"k": "ret", "e": {"k": kind, "l": lv, "r": ID("x")}}], ["x"]),
                              OUT({"k": "call", "f": "to_string", "a": [{"k": "call", "f": "pick", "a": [rv]}]}), EX(I(0))])
                progs.append([tick, {"k": "var", "n": "flag", "e": B(True)}, {"k": "ref", "n": "r", "e": e}, {"k": "asg", "l": ID("r"), "e": B(False)}, OUT(ID("flag")), EX(I(0))])
                progs.append([tick, {"k": "var", "n": "flag", "e": B(True)}, {"k": "if", "c": e, "t": [OUT(I(1))], "ei": [], "haselse": True, "f": [OUT(I(2))]}, EX(I(0))])
    return progs


TEXT = [
    "def f() { nosuch; 1 }; f()",
    "def f() { var &r = (true && true); var o = r; r = false; o }; [f(), f()]",
    "def f() { var &r = !false; r = false; r }; [f(), f()]",
    "def f() { var &r = !false; var o = r; r = false; o }; [f(), f()]",
    "def f() { var &r = (false || true); var o = r; r = false; o }; [f(), f()]",
    "var f; for (var i = 0; i < 3; ++i) { f = fun[i]() { i } }; f()",
    "var fs = []; for (var i = 0; i < 3; ++i) { fs.push_back(fun[i]() { i * 10 }) }; [fs[0](), fs[2]()]",
    "var r = 0; for (var i = 0; i < 3; ++i) { var &k = i; r = r + k }; r",
    "var s = 0; for (var i = 0; i < 4; ++i) { if (i == 1) { continue }; if (i == 3) { break }; s = s + i }; s",
    "def g() { for (var i = 0; i < 5; ++i) { if (i == 2) { return i * 7 } }; 0 }; g()",
    # a declaration whose initializer mentions the declared name (the name is NOT yet in scope while its initializer runs), or has effects
    "var x = 5; var r = 0; { var x = x + 1; r = x }; [x, r]",
    "def f(n) { var n = n * 2; n }; f(4)",
    "def g(v) { var size = size(v); size }; g([1, 2, 3])",
    "var s = \"ab\"; { auto s = s + s; out(s) }; s",
    "def t() { var y = 1; var y = h_out(5); y }; def h_out(a) { out(a); a }; t()",
    "var x = 1; def u() { var x = x; x }; u()",
    # the counter of a compiled loop leaving the loop / the loop entered again while it runs: every entry has its own counter
    "def g(n) { for (var i = 0; i < 10; ++i) { if (i == n) { return i } }; 99 }; g(3) + g(5)",
    "def g(n) { for (var i = 0; i < 10; ++i) { if (i == n) { var &r = i; return r } }; 99 }; g(3) * 100 + g(5)",
    "def mk(n) { for (var i = 0; i < 9; ++i) { if (i == n) { return fun[i]() { i } } }; fun() { -1 } }; var a = mk(2); var b = mk(7); [a(), b()]",
    "def t(n) { var r = 0; for (var i = 0; i < 2; ++i) { if (n > 0) { r += t(n - 1) }; r += i + 1 }; r }; [t(1), t(2)]",
    "def w(n) { var s = 0; for (var i = 0; i < 3; ++i) { if (n > 0) { w(n - 1) }; s = s * 10 + i }; s }; w(2)",
    "var s = 0; for (var i = 0; i < 2; ++i) { for (var j = 0; j < 2; ++j) { s = s + i * 2 + j } }; s",
    "var i = 50; for (var i = 0; i < 2; ++i) { out(i) }; i",
    "var s = 0; for (var i = 0; i < 6; ++i) { i = i + 1; s = s + i }; s",
    "var s = 0; for (var i = 3; i < 3; ++i) { s = 1 }; s",
    "var s = 0; for (var i = 0; i <= 2; ++i) { s = s + i }; s",
    "var s = 0; for (var i = 0u; i < 3u; ++i) { s = s + 1 }; s",
    "var n = 3; var s = 0; for (var i = 0; i < n; ++i) { s = s + i }; s",
    "var s = \"\"; for (var i = 0; i < 2; ++i) { s += to_string(i) }; s",
    "def h() { cb(1); cb(2); 3 }; [h(), cb_count()]",
    "def h() { cb(1) }; h(); cb_count()",
    "var x = 1; { x = 2 }; { var x = 3 }; x",
    "var x = 1; if (true) { var x = 2 }; x",
    "var x = 1; if (false) { x = 2 } else { x = 3 }; x",
    "def k() { return 4 }; def k2() { if (true) { return 5 }; 6 }; [k(), k2()]",
    "def k3(a) { { return a + 1 } }; k3(1)",
    "1 + 2 * 3 - 4 / 2 % 3 << 1",
    "var v = [1 + 1, 2 * 3]; v[0] = 10; v",
    "def lit() { var x = 5; x = x + 1; x }; [lit(), lit()]",
    "def lit2() { var s = \"a\"; s += \"b\"; s }; [lit2(), lit2()]",
    "def lit3() { var v = [1, 2]; v.push_back(3); v.size() }; [lit3(), lit3()]",
    "var t = 0; while (t < 3) { ++t; out(t) }; t",
    "def q() { 5; \"s\"; 1 + 1; 2 }; q()",
    "-(3) + -2 * +4",
    "var a = 2; var b = a * 3 + 1; var c = 1 + a * (3 + b); [a, b, c]",
]
KNOWN_TEXT = {
    "def f() { if (true) { eval(\"var h = 1\") }; h }; f()":
        "a declaration made by eval() inside a block that declares nothing statically: the optimizer removes the block's scope (Scopeless_Block), so the name "
        "survives the block when optimized and not otherwise",
}


def run(ck, tier, seed):
    quick = tier == "quick"
    work = lib.scratch("c02")
    g = coregen.G(seed + 17)
    progs = [{"id": i, "prog": p} for i, p in enumerate(trigger_asts())]
    for _ in range(700 if quick else 8000):
        progs.append({"id": len(progs), "prog": g.program()})
    inp, out = os.path.join(work, "in.ndjson"), os.path.join(work, "out.ndjson")
    lib.write_ndjson(inp, progs)
    res = lib.tlc("OptimizerExport", workers=1, env={"IN": inp, "OUT": out}, timeout=2400, heap="6g")
    if not res.ok:
        raise lib.Infra("Optimizer export failed: " + str(res.violation) + res.output[-1500:])
    model = {r["id"]: r for r in lib.read_ndjson(out)}
    changed = sum(1 for r in model.values() if r["changed"])
    ck.states += len(model)
    ck.transitions += 2 * len(model)
    ck.models.append({"model": "Optimizer.tla OptEquiv", "programs": len(model), "programs_rewritten": changed})
    for pid, r in model.items():
        if r["plain"] != r["optimized"] and r["plain"]["oc"] != "fuel":
            ck.violation(f"model:{pid}", f"the modelled passes change behaviour: {r['plain']} vs {r['optimized']}", {"program": coregen.program_text(progs[pid]["prog"])})
    res2 = lib.tlc("OptimizerExport", "OptimizerExport_pinned", workers=1, env={"IN": inp, "OUT": out + ".pinned"}, timeout=2400, heap="6g")
    pinned_diff = sum(1 for r in lib.read_ndjson(out + ".pinned") if r["plain"] != r["optimized"])
    if pinned_diff == 0:
        raise lib.Infra("sanity: a Dead_Code pass that drops bare identifiers must change behaviour on the trigger family")
    ck.notes.append(f"sanity: with Dead_Code also dropping bare identifiers TLC finds {pinned_diff} programs whose behaviour changes (expected)")
    res3 = lib.tlc("OptimizerExport", "OptimizerExport_pinned2", workers=1, env={"IN": inp, "OUT": out + ".pinned2"}, timeout=2400, heap="6g")
    pinned2_diff = sum(1 for r in lib.read_ndjson(out + ".pinned2") if r["plain"] != r["optimized"])
    if pinned2_diff == 0:
        raise lib.Infra("sanity: a Partial_Fold that captures any literal must change behaviour on the operator-matrix family")
    ck.notes.append(f"sanity: with Partial_Fold capturing any literal TLC finds {pinned2_diff} programs whose behaviour changes (expected)")
    res4 = lib.tlc("OptimizerExport", "OptimizerExport_pinned3", workers=1, env={"IN": inp, "OUT": out + ".pinned3"}, timeout=2400, heap="6g")
    pinned3_diff = sum(1 for r in lib.read_ndjson(out + ".pinned3") if r["plain"] != r["optimized"])
    if pinned3_diff == 0:
        raise lib.Infra("sanity: folding && / || on a constant left operand alone must change behaviour on the logical-operator family")
    ck.notes.append(f"sanity: with && / || folded on a constant left operand alone TLC finds {pinned3_diff} programs whose behaviour changes (expected)")
    # ---- the real engine, both parsers
    cases = []
    texts = {}
    for p in progs:
        if model[p["id"]]["plain"]["oc"] == "fuel":
            continue
        texts[str(p["id"])] = coregen.program_text(p["prog"])
    for i, t in enumerate(TEXT + list(KNOWN_TEXT)):
        texts[f"t{i}"] = t
    for cid, t in texts.items():
        for parser in ("opt", "noopt"):
            cases.append({"id": f"{cid}.{parser}", "p": parser, "to": 20, "steps": [{"op": "eval", "src": t}, {"op": "eval", "src": "1 + 1"}]})
    vdrive = lib.build("vdrive", "plain")
    obs, _ = lib.run_driver(vdrive, cases, work, tag="c02")

    def view(o):
        if "died" in o:
            return ("died", o["died"])
        s = o["steps"][0]
        return (s["oc"] if s["oc"] in ("val", "ee", "bv") else "ex", s.get("v", ""), tuple(s["out"]), s.get("cb"), o["steps"][1].get("v"))

    for cid, t in texts.items():
        a, b = view(obs[f"{cid}.opt"]), view(obs[f"{cid}.noopt"])
        ck.evaluations += 1
        ck.nontrivial.add((a[0], len(a[2]) if len(a) > 2 else 0, cid[0] == "t"))
        if a != b:
            key = "known:eval-decl-in-scopeless-block" if t in KNOWN_TEXT else f"prog:{cid if cid[0] == 't' else 'seed' + str(seed) + '.' + cid}:{t[:60]}"
            ck.violation(key, f"optimized: {a[2] if len(a) > 2 else ''} -> {a[0]} {a[1]}; unoptimized: {b[2] if len(b) > 2 else ''} -> {b[0]} {b[1]}; program: {t[:600]}",
                         {"program": t, "optimized": a, "unoptimized": b})
        elif cid[0] != "t":
            c03.compare(ck, cid, t, c03_expect(model[int(cid)]["plain"]), obs[f"{cid}.opt"], "opt")
    ck.extra.update({"programs": len(texts), "textual_triggers": len(TEXT)})
    ck.rule = ("pass-trigger ASTs (statement-position identifiers/constants in 5 contexts, foldable conditions, references to folded constants), seeded programs "
               "of the C03 generator and textual triggers for compiled for-loops / scopeless blocks / folded literals, each with both parsers; distinct = "
               "(outcome, #output lines, textual?)")
    ck.sample({"program": texts["0"], "model": model[0]})
    ck.sample({"program": TEXT[3]})
    ck.assumptions += ["AST reflection (parse tree printing) is excluded by the property and never generated"]
    lib.rm(work)


def c03_expect(view):
    return {"oc": view["oc"], "out": view["out"], "v": view["v"], "balanced": True}
