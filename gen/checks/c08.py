"""C08 - evaluating code does not change the code: re-evaluation is deterministic.
M: Reeval.tla (on ChaiCore's machine every literal node owns ONE cell of the syntax tree, handed out by each evaluation):
   TLC evaluates generated cases (functions building and mutating locals from literals along every escape route, called
   k >= 3 times interleaved) and decides AstUnchanged after every segment and Rerun per call group; cases with a literal
   marked mutable (the defect class) must be reported by TLC - the properties are not vacuous.
G: every case is run in the real engine with both parsers through eval(AST_Node) on kept trees: per segment the outcome,
   output and value must equal the reference's; calls of one group must be equal among themselves; and a structural
   snapshot of every kept tree (node kinds, texts, positions, every Constant's type/const flag/value, folded right-hand
   constants, Def/Lambda bodies, originals of compiled loops) must equal the snapshot taken right after parsing.
   Textual cases extend this to literal kinds the reference does not model (floats, chars, suffixes, ranges, ...)."""
import os

from .. import coregen, lib, reevalgen

HELP = 'def idf(p) { p }; def idr(p) { return p }; def bump(p) { p += 1; p }; def bumpd(p) { p += 1.5; p }; def bumps(p) { p += "x"; p }; def app(v) { v.push_back(7); v.size() }; '
# (definitions, the call that is repeated)
TEXT = [
    ("def t() { var x := -1.5; x += 1.0; x }", "t()"),
    ("def t() { var &x = 2.5; x *= 2; x }", "t()"),
    ("def t() { var x = 2.5; x *= 2; x }", "t()"),
    ("def t() { var x := -1; x += 1; x }", "t()"),
    ("def t() { auto &x = -2; ++x; x }", "t()"),
    ("def t() { var x := +3; x -= 1; x }", "t()"),
    ("def t() { var x := ~4; x += 1; x }", "t()"),
    ("def t() { var x := 3u; x += 1u; x }", "t()"),
    ("def t() { var x := -3l; x += 1; x }", "t()"),
    ("def t() { var x := 1.5f; x *= 2.0f; x }", "t()"),
    ("def t() { var x := 0x10; x += 1; x }", "t()"),
    ("def t() { var x := (1 + 2); x += 1; x }", "t()"),
    ("def t() { var x := (2 * -3); x += 1; x }", "t()"),
    ("def t() { var x := (1 < 2); x = false; x }", "t()"),
    ("def t() { var x := (true && true); x = false; x }", "t()"),
    ("def t() { var x := !false; var o = x; x = false; o }", "t()"),
    ("def t() { var x := true; x = false; x }", "t()"),
    ("def t() { var s := \"abc\"; s += \"d\"; s }", "t()"),
    ("def t() { var &s = \"abc\"; s.push_back('x'); s }", "t()"),
    ("def t() { var s = \"abc\"; s.push_back('x'); s += \"yz\"; s[0] = 'q'; s }", "t()"),
    ("def t() { var &c = 'a'; ++c; c }", "t()"),
    ("def t() { var c = 'a'; ++c; to_string(c) }", "t()"),
    ("def t() { var s = \"a${1 + 2}b\"; s += \"c\"; s }", "t()"),
    ("def t() { var v = [1..3]; v.push_back(9); v }", "t()"),
    ("def t() { var &v = [1, 2, 3]; v.push_back(4); v.size() }", "t()"),
    ("def t() { var v := [1, 2, 3]; v[0] = 9; v }", "t()"),
    ("def t() { var v = [[1, 2], [3]]; v[0].push_back(5); v[0][0] += 1; v }", "t()"),
    ("def t() { var v = [-1, -2.5, \"s\"]; v[0] += 1; v[1] += 1.0; v[2] += \"t\"; v }", "t()"),
    ("def t() { var m = [\"a\": \"x\", \"b\": \"y\"]; m[\"a\"] += \"z\"; m[\"c\"] = \"w\"; m }", "t()"),
    ("def t() { var &m = [\"a\": 1]; m[\"b\"] = 2; m.size() }", "t()"),
    ("def t() { var x = -1; bump(x); x }", "t()"),
    ("def t() { bump(-3) }", "t()"),
    ("def t() { bumpd(-3.5) }", "t()"),
    ("def t() { bumps(\"lit\") }", "t()"),
    ("def t() { bump(idf(-4)) }", "t()"),
    ("def t() { bump(idr(5)) }", "t()"),
    ("def t() { app([1, 2]) }", "t()"),
    ("def t() { app([1..4]) }", "t()"),
    ("def mk() { return -7 }; def t() { var q := mk(); q += 1; q }", "t()"),
    ("def mk() { \"lit\" }; def t() { var q := mk(); q += \"!\"; q }", "t()"),
    ("def mk() { [1, 2] }; def t() { var q := mk(); q.push_back(3); q.size() }", "t()"),
    ("def mk() { -7 }; def t() { mk() += 1 }", "t()"),
    ("def t() { -1 += 1 }", "t()"),
    ("def t() { \"abc\" += \"d\" }", "t()"),
    ("def t(a) { var &r = (a > 0 ? -1 : -2); r += 1; r }", "t(1)"),
    ("def t(a) { switch (a) { case (1) { return \"one\" } case (2) { return \"two\" } default { return \"many\" } } }", "t(2)"),
    ("def t(a) { var s = \"\"; switch (a) { case (1) { s += \"one\" } case (2) { s += \"two\" } default { s += \"many\" } }; s }", "t(1)"),
    ("def t() { var f = fun(a) { a += 1; a }; f(-2) }", "t()"),
    ("def t() { var x = -2; var f = fun[x]() { x += 1; x }; f(); f() }", "t()"),
    ("def t() { var f = fun() { var y := -9; y += 1; y }; [f(), f()] }", "t()"),
    ("def t() { var r = 0; for (x : [-1, -2]) { x += 1; r += x }; r }", "t()"),
    ("def t() { var r = 0; for (var i = 0; i < 3; ++i) { var &k = -5; k += i; r += k }; r }", "t()"),
    ("def t() { var r = \"\"; for (var i = 0; i < 2; ++i) { var s := \"ab\"; s += \"c\"; r += s }; r }", "t()"),
    ("def t() { var i = 0; var r = 0; while (i < 2) { var k := -5; k += 1; r += k; ++i }; r }", "t()"),
    ("def t() { if (true) { var z := -8; z += 1; z } }", "t()"),
    ("def t() { var x := -1; var y := x; y += 2; [x, y] }", "t()"),
    ("def t() { var p = Pair(-1, \"s\"); p.first += 1; p.second += \"t\"; [p.first, p.second] }", "t()"),
    ("class K { var v; def K() { this.v = -3 }; def bumpv() { this.v += 1; this.v } }; def t() { var k = K(); k.bumpv(); k.bumpv() }", "t()"),
    ("class K { var v; def K() { this.v := -3 } }; def t() { var k = K(); k.v += 1; k.v }", "t()"),
    ("def t(x) : x > -5 { var y := -5; y += x; y }", "t(2)"),
    ("def t(int x) { var &y = x; y += 1; y }", "t(-2)"),
    ("def t() { var x = clone(-4); x += 1; x }", "t()"),
    ("def t() { var v = Vector(); v.push_back(-1); v[0] += 1; v.push_back_ref(-2); v[1] += 1; v }", "t()"),
    ("def t() { var v = Vector(); v.push_back_ref(\"lit\"); v[0] += \"x\"; v }", "t()"),
    ("def t() { var m = Map(); m[\"k\"] = -1; m[\"k\"] += 1; m[\"k\"] }", "t()"),
    ("def t() { var m = Map(); m[\"k\"] := -1; m[\"k\"] += 1; m[\"k\"] }", "t()"),
    ("def t() { var v = [0, 0]; v[0] := -6; v[0] += 1; v }", "t()"),
    ("def t() { var x; x = -1; x += 1; x }", "t()"),
    ("def t() { var x; x := -1; x += 1; x }", "t()"),
    ("def t() { var x = 1; x := -9; x += 1; x }", "t()"),
    ("def t() { var s = to_string(-12); s += \"!\"; s }", "t()"),
    ("def t() { var s = \"abc\".substr(0, 2); s += \"!\"; s }", "t()"),
    ("def t() { var s := \"abc\"; s.clear(); s }", "t()"),
    ("def t() { var s := \"cba\"; s.erase_at(0); s }", "t()"),
    ("def t() { var v = [3, 1, 2]; v.erase_at(0); v.insert_at(0, -9); v }", "t()"),
    ("def t() { var r = [1, 2].front(); r += 1; r }", "t()"),
    ("def t() { var &r = [1, 2].back(); r += 1; r }", "t()"),
    ("def t() { max(-1, -2) += 1 }", "t()"),
    ("def t() { var &m = max(-1, -2); m += 1; m }", "t()"),
    ("def t() { var l = [-1, 2]; var &e = l[0]; e *= 2; l }", "t()"),
    # inline ranges: the elements may be modified in place, the next evaluation starts from the bounds again
    ("def t() { var v = [1..4]; v[0] += 10; v[2] = 7; v }", "t()"),
    ("def t() { var r = 0; for (x : [1..3]) { x *= 3; r += x }; r }", "t()"),
    ("def t() { var v = [-2..2]; ++v[1]; var w = [-2..2]; [v, w] }", "t()"),
    ("def t(n) { var s = 0; for (var i = 0; i < n; ++i) { var v = [1..3]; v[i] += 100; s += v[0] + v[1] + v[2] }; s }", "t(3)"),
    ("def t() { var &v = [1..3]; v[0] = 9; v }", "t()"),
    ("def t() { var v = [[1..2], [3..4]]; v[0][0] += 5; v[1].push_back(9); v }", "t()"),
    # `:=` re-seats the cell every holder shares: on a parameter bound to a literal that cell is the literal's own
    ("def over(x, lim) { var extra = 0; if (x > lim) { extra = x - lim; x := lim }; extra }", "over(50, 10)"),
    ("def over(x, lim) { var extra = 0; if (x > lim) { extra = x - lim; x := lim }; extra }; def t() { over(7, 3) + 1000 }", "t()"),
    ("def reseat(x) { var loc = 100; x := loc; x += 1; x }", "reseat(25)"),
    ("def reseat(s) { s := \"other\"; s }", "reseat(\"lit\")"),
    ("def reseat(v) { v := [9]; v.size() }", "reseat([1, 2, 3])"),
    ("def t() { var &r = -4; r := -5; r }", "t()"),
    ("def t() { var f = fun(a) { a := 2; a }; f(1) + f(1) }", "t()"),
    ("def swap2(a, b) { var tmp = a; a := b; b := tmp; [a, b] }", "swap2(1, 2)"),
]


# a recorded finding: (definitions, repeated call) whose repeated calls differ on the unchanged tree
KNOWN_TEXT = {
    ('def mk(p) { return fun[p]() { var t = p; t += "x"; return t } }; global lam = mk("a" + "b")', "lam()"): "known:return-value-flag-on-parameter",
}


def refview(v):
    return (v["oc"], tuple(v["out"]), v["v"] if v["oc"] == "val" else "")


def engview(s):
    if s["oc"] == "parse_error":
        return ("ee", (), "")
    oc = "ee" if (s["oc"] == "bv" and s.get("v") == "eval_error") or s["oc"] == "ee" else ("val" if s["oc"] == "val" else "ex")
    o = lib_c03.observed({"oc": "val", "v": s.get("v", ""), "out": s["out"]}) if oc == "val" else {"v": ""}
    return (oc, tuple(s["out"]), o["v"])


def rawview(s):
    return (s["oc"], tuple(s["out"]), s.get("v", ""))


from . import c03 as lib_c03  # noqa: E402


def run(ck, tier, seed):
    quick = tier == "quick"
    work = lib.scratch("c08")
    g = reevalgen.RG(seed + 8)
    cases = [{"id": i, "segs": g.program()} for i in range(400 if quick else 6000)]
    inp, out = os.path.join(work, "in.ndjson"), os.path.join(work, "out.ndjson")
    lib.write_ndjson(inp, cases)
    res = lib.tlc("ReevalExport", workers=1, env={"IN": inp, "OUT": out}, timeout=3000, heap="6g")
    if not res.ok:
        raise lib.Infra("Reeval evaluation failed: " + str(res.violation) + res.output[-1500:])
    model = {r["id"]: r for r in lib.read_ndjson(out)}
    nseg = sum(len(c["segs"]) for c in cases)
    ck.states += nseg
    ck.transitions += nseg
    for c in cases:
        m = model[c["id"]]
        if not m["fuel"] and not (m["rerun"] and m["astok"]):
            ck.violation(f"model:{c['id']}", f"the reference itself breaks the property (rerun={m['rerun']}, ast unchanged={m['astok']})",
                         {"segments": [coregen.program_text(s["b"]) for s in c["segs"]]})
    # ---- sanity: the same cases with ONE literal leaking out mutable must be reported by TLC
    pinned = []
    import random
    rnd = random.Random(seed)
    for c in cases[:150 if quick else 600]:
        nlit = max(1, g_max_id(c["segs"]))
        pinned.append({"id": c["id"], "segs": reevalgen.pinned(c["segs"], rnd.randint(1, nlit))})
    lib.write_ndjson(inp + ".pinned", pinned)
    res2 = lib.tlc("ReevalExport", workers=1, env={"IN": inp + ".pinned", "OUT": out + ".pinned"}, timeout=3000, heap="6g", tag="pinned")
    if not res2.ok:
        raise lib.Infra("Reeval (pinned) failed: " + str(res2.violation) + res2.output[-1500:])
    pm = lib.read_ndjson(out + ".pinned")
    broken_ast = sum(1 for r in pm if not r["astok"])
    broken_rerun = sum(1 for r in pm if not r["rerun"])
    if broken_ast == 0 or broken_rerun == 0:
        raise lib.Infra("sanity: a literal that leaks out mutable must break AstUnchanged and Rerun in the model on some generated case")
    ck.models.append({"model": "Reeval.tla (ChaiCore machine, literal cells)", "cases": len(cases), "segments": nseg,
                      "sanity_mutable_literal": {"cases": len(pm), "ast_changed": broken_ast, "rerun_differs": broken_rerun}})
    ck.notes.append(f"sanity: with one literal per case marked mutable TLC reports AstUnchanged broken on {broken_ast} and Rerun broken on {broken_rerun} of {len(pm)} cases (expected)")

    # ---- the real engine
    dcases = []
    texts = {}
    for c in cases:
        if model[c["id"]]["fuel"]:
            continue
        steps = []
        segt = []
        for s in c["segs"]:
            t = coregen.program_text(s["b"])
            segt.append(t)
            st = {"op": "peval", "src": t}
            if s["g"] % 2 == 0:
                st["key"] = f"g{s['g']}"           # even groups: the SAME parsed tree is evaluated again
            steps.append(st)
        texts[str(c["id"])] = segt
        for parser in ("opt", "noopt"):
            dcases.append({"id": f"{c['id']}.{parser}", "p": parser, "to": 30, "steps": steps})
    known_ids = {}
    for i, (defs, call) in enumerate(TEXT + list(KNOWN_TEXT)):
        if (defs, call) in KNOWN_TEXT:
            known_ids[f"t{i}"] = KNOWN_TEXT[(defs, call)]
        steps = [{"op": "peval", "src": HELP + defs, "key": "defs"}]
        # interleave the repeated call (same tree and fresh trees) with another function's calls
        steps += [{"op": "peval", "src": call, "key": "call"}, {"op": "peval", "src": "bump(idf(1) + 0)"}, {"op": "peval", "src": call, "key": "call"},
                  {"op": "peval", "src": call}, {"op": "peval", "src": "bumps(\"a\" + \"b\")"}, {"op": "peval", "src": call, "key": "call"}, {"op": "peval", "src": call}]
        texts[f"t{i}"] = [s["src"] for s in steps]
        for parser in ("opt", "noopt"):
            dcases.append({"id": f"t{i}.{parser}", "p": parser, "to": 30, "steps": steps})
    vdrive = lib.build("vdrive", "plain")
    obs, _ = lib.run_driver(vdrive, dcases, work, tag="c08")
    consts = 0
    for cid, segt in texts.items():
        for parser in ("opt", "noopt"):
            o = obs[f"{cid}.{parser}"]
            ck.evaluations += 1
            name = cid if cid[0] == "t" else f"seed{seed}.{cid}"
            if "died" in o:
                ck.violation(f"died:{name}:{parser}", f"process died ({o['died']}) [{parser}] on {segt}", {"segments": segt})
                continue
            steps = o["steps"]
            consts += steps[-1].get("constants", 0)
            # (1) the syntax trees are what was parsed
            for k, s in enumerate(steps):
                if s.get("astchg"):
                    d = s["astchg"][0]
                    ck.violation(f"ast:{name}:{parser}", f"[{parser}] evaluating `{segt[k][:200]}` changed the syntax tree of `{segt[d['tree']][:300]}`: {d['diff']}",
                                 {"segments": segt, "parser": parser, "step": k, "changes": s["astchg"]})
                    break
            # (2) equal calls give equal results
            if cid[0] == "t":
                groups = {1: [1, 3, 4, 6, 7]}
            else:
                groups = {}
                for k, s in enumerate(cases[int(cid)]["segs"]):
                    if s["g"]:
                        groups.setdefault(s["g"], []).append(k)
            for gno, idx in groups.items():
                views = [rawview(steps[k]) for k in idx]
                ck.nontrivial.add((views[0][0], len(views[0][1]), cid[0] == "t"))
                for j, v in enumerate(views[1:], 1):
                    if v != views[0]:
                        ck.violation(known_ids.get(cid) or f"rerun:{name}:{parser}", f"[{parser}] call #{j + 1} of `{segt[idx[0]]}` gives {v[1]} -> {v[0]} {v[2]}, call #1 gave {views[0][1]} -> {views[0][0]} {views[0][2]}; "
                                     f"definitions: {segt[0][-600:]}", {"segments": segt, "parser": parser, "calls": views})
                        break
            # (3) agreement with the reference
            if cid[0] != "t":
                m = model[int(cid)]
                for k, s in enumerate(steps):
                    if engview(s) != refview(m["segs"][k]):
                        ck.violation(f"ref:{name}:{parser}", f"[{parser}] segment {k} `{segt[k][:200]}`: engine {engview(s)}, reference {refview(m['segs'][k])}; definitions: {segt[0][-800:]}",
                                     {"segments": segt, "parser": parser, "step": k, "why": s.get("why")})
                        break
    ck.extra.update({"generated_cases": len(cases), "textual_cases": len(TEXT), "constant_cells_snapshotted": consts})
    ck.rule = ("generated functions (literal kinds int/negative int/string/bool x routes var, var&, :=, argument, return, ternary, vector/map element, capture, "
               "ranged-for and counted-loop variable x mutations =, op=, ++, push_back, element writes, mutating callee) called 3-4 times interleaved, plus textual "
               "cases for floats, chars, suffixes, ranges, string/vector/map methods, classes, guards; both parsers; distinct = (outcome, #output lines, textual?)")
    ck.sample({"segments": texts["0"], "model": model[0]})
    ck.sample({"segments": texts["t0"]})
    ck.assumptions += ["an 'equal environment' is built by construction: generated functions read only their parameters, locals, literals and pure helpers",
                       "trusted: the printer in gen/coregen.py and the snapshot walker harness/vh_ast.hpp (it reads node members, two of them through CHAISCRIPT_VERIF accessors)"]
    lib.rm(work)


def g_max_id(x):
    if isinstance(x, dict):
        return max([x.get("id", 0) if isinstance(x.get("id", 0), int) and "k" in x else 0] + [g_max_id(v) for v in x.values()])
    if isinstance(x, list):
        return max([0] + [g_max_id(v) for v in x])
    return 0
