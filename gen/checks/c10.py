"""C10 - exceptions are delivered, not lost or altered.
M: Exceptions.tla - the transcription of Try_AST_Node (Impl) must refine the property's reference semantics (Ref)
   on every program of the enumerated family; the three pinned behaviours must each be refuted.
G: the same programs, with Ref's marker trace and escaping kind, replayed into the real engine with the throw placed in
   rotating frames (direct, def, lambda, method, bind, for_each callback, attribute-held function)."""
import os
import re
from concurrent.futures import ThreadPoolExecutor

from .. import lib

THROW = {"int": "throw(1)", "string": 'throw("s")', "rt": 'throw_runtime("x")', "oor": "throw_range()", "logic": "throw_logic()",
         "badcast": "throw_badcast()", "ee": "throw_ee()", "user": "throw_user()",
         "srt": 'throw(runtime_error("x"))', "sbase": "throw(BaseC())", "sder": "throw(DerivedC())", "dyn": "throw(MyErr())",
         "rtc": "throw_runtime_d(1)", "oorc": "throw_range_d(1)", "logicc": "throw_logic_d(1)", "eec": "throw_ee_d(1)", "userc": "throw_user_d(1)"}
FRAMES = ["direct", "def", "lambda", "method", "bind", "for_each", "attr"]
PRELUDE = ("class MyErr { def MyErr() { } }; class ThrowerK { def ThrowerK() { }; def go(f) { f() } }; global thrower_obj = ThrowerK(); "
           "global attr_obj = Dynamic_Object(); def call_it(f) { f() }; 0")
_site = [0]


def in_frame(expr, frame):
    if frame == "direct":
        return expr
    if frame == "def":
        return f"call_it(fun() {{ {expr} }})"
    if frame == "lambda":
        return f"fun() {{ {expr} }}()"
    if frame == "method":
        return f"thrower_obj.go(fun() {{ {expr} }})"
    if frame == "bind":
        return f"bind(fun(x) {{ {expr} }}, 1)()"
    if frame == "for_each":
        return f"for_each([1], fun(x) {{ {expr} }})"
    _site[0] += 1
    return f"attr_obj.f{_site[0]} = fun() {{ {expr} }}; attr_obj.f{_site[0]}()"


def print_stmts(stmts, frame):
    out = []
    for st in stmts:
        k = st["k"]
        if k == "mark":
            out.append(f'hout("{st["n"]}")')
        elif k == "throw":
            out.append(in_frame(THROW[st["x"]], frame))
        elif k == "ret":
            out.append("return 77")
        else:
            s = "try { " + print_stmts(st["body"], frame) + " }"
            for c in st["cl"]:
                s += (" catch(e) { " if c["ty"] == "" else f" catch({c['ty']} e) {{ ") + print_stmts(c["h"], frame) + " }"
            if st["hasfin"]:
                s += " finally { " + print_stmts(st["fin"], frame) + " }"
            out.append(s)
    return "; ".join(out)


def expected_outcome(esc):
    return {"none": ("val", None, None), "ret": ("val", "int:77", None), "int": ("bv", "int:1", None), "string": ("bv", 'string:"s"', None),
            "rt": ("ex", None, "std::runtime_error"), "oor": ("ex", None, "std::out_of_range"), "logic": ("ex", None, "std::logic_error"),
            "badcast": ("ex", None, "std::bad_cast"), "ee": ("ee", None, None), "user": ("other", None, "vh::UserEx"),
            "srt": ("bv", "<runtime_error>", None), "sbase": ("bv", "<BaseC>", None), "sder": ("bv", "<DerivedC>", None), "dyn": ("bv", "obj:MyErr{}", None),
            "rtc": ("ex", None, "std::runtime_error"), "oorc": ("ex", None, "std::out_of_range"), "logicc": ("ex", None, "std::logic_error"),
            "eec": ("ee", None, None), "userc": ("other", None, "vh::UserEx")}[esc]


def shape(prog):
    def one(st):
        k = st["k"]
        if k == "mark":
            return ""
        if k == "throw":
            return "T" + st["x"]
        if k == "ret":
            return "R"
        return "try{" + "".join(map(one, st["body"])) + "}" + "".join(f"c({c['ty'] or '*'}){{{''.join(map(one, c['h']))}}}" for c in st["cl"]) + \
            (("f{" + "".join(map(one, st["fin"])) + "}") if st["hasfin"] else "")
    return "".join(map(one, prog))


def uses_user_untyped(prog):
    s = shape(prog)
    return ("Tuser" in s) and "c(*)" in s


def run(ck, tier, seed):
    quick = tier == "quick"
    res = lib.tlc("ExceptionsM", "ExceptionsM", workers=1, timeout=900)
    ck.add_tlc("ExceptionsM (Impl refines Ref on every program)", res)
    m = re.search(r'<<"programs", (\d+), "disagreements", (\d+)>>', res.output)
    if m:
        ck.states += int(m.group(1))
        ck.transitions += 2 * int(m.group(1))
        ck.notes.append(f"refinement evaluated on {m.group(1)} programs; {m.group(2)} disagreements, all throwing a non-std C++ type (known finding)")
    if not res.ok:
        ck.violation("model:refinement", f"the transcription of Try_AST_Node does not refine the reference: {res.violation}", res.output[-3000:])
    pinned = ("ExceptionsM_pinned1", "ExceptionsM_pinned2", "ExceptionsM_pinned3", "ExceptionsM_pinned4")
    with ThreadPoolExecutor(max_workers=4) as ex:
        for cfg, r2 in zip(pinned, ex.map(lambda c: lib.tlc("ExceptionsM", c, workers=1, timeout=900), pinned)):
            if r2.ok:
                raise lib.Infra(f"sanity: {cfg} must be refuted by TLC, it was not")
    ck.notes.append("sanity: swallowing unmatched exceptions, skipping finally after an abnormal handler exit and type-pair matching are each refuted by TLC")

    work = lib.scratch("c10")
    shards = 8

    def one(k):
        out = os.path.join(work, f"exc.{k}.ndjson")
        name = f"ExceptionsExport_run_{os.getpid()}_{k}"
        with open(os.path.join(lib.SPEC, name + ".cfg"), "w") as f:
            f.write(f"INIT Init\nNEXT Next\nCONSTANTS\n  RethrowUnmatched = TRUE\n  FinallyAlways = TRUE\n  ObjectMatch = TRUE\n  ObjectMatchValues = TRUE\n  ShardK = {k}\n  ShardN = {shards}\n")
        try:
            r = lib.tlc("ExceptionsExport", name, workers=1, env={"OUT": out}, timeout=900, heap="3g")
        finally:
            os.unlink(os.path.join(lib.SPEC, name + ".cfg"))
        if not r.ok:
            raise lib.Infra(f"Exceptions export failed: {r.violation}")
        return lib.read_ndjson(out)

    recs = []
    with ThreadPoolExecutor(max_workers=shards) as ex:
        for r in ex.map(one, range(shards)):
            recs += r
    if quick:
        import random
        recs = random.Random(seed).sample(recs, 4000)
    cases, byid = [], {}
    for r in recs:
        frame = FRAMES[(r["id"] + seed) % len(FRAMES)]
        _site[0] = 0
        src = "def prog() { " + print_stmts(r["prog"], frame) + " }; prog()"
        cid = str(r["id"])
        byid[cid] = (r, src, frame)
        cases.append({"id": cid, "to": 30, "steps": [{"op": "eval", "src": PRELUDE}, {"op": "eval", "src": src}, {"op": "eval", "src": "1 + 1"}]})
    vdrive = lib.build("vdrive", "plain")
    obs, _ = lib.run_driver(vdrive, cases, work, tag="c10")
    ck.exhaustive = not quick
    for cid, o in obs.items():
        rec, src, frame = byid[cid]
        ck.evaluations += 1
        exp = rec["expect"]
        ck.nontrivial.add((tuple(exp["out"]), exp["esc"]))
        if "died" in o:
            ck.violation("died:" + shape(rec["prog"]), f"process died ({o['died']}) evaluating {src}", {"program": src})
            continue
        s = o["steps"][1]
        want_oc, want_v, want_ex = expected_outcome(exp["esc"])
        got_marks = [int(x) for x in s["out"]]
        bad = None
        if got_marks != exp["out"]:
            bad = f"blocks ran in order {got_marks}, the property requires {exp['out']}"
        elif s["oc"] != want_oc or (want_v and s.get("v") != want_v) or (want_ex and s.get("ex") != want_ex):
            bad = f"eval ended with {s['oc']} {s.get('v') or s.get('ex') or ''}, the property requires {want_oc} {want_v or want_ex or ''} (escaping: {exp['esc']})"
        if bad:
            key = "nonstd-untyped-clause" if uses_user_untyped(rec["prog"]) else "nest:" + shape(rec["prog"]) + ("" if frame == "direct" else "@" + frame)
            ck.violation(key, f"{bad}; program: {src}", {"program": src, "frame": frame, "expected": exp, "observed": s})
        elif o["steps"][2].get("v") != "int:2":
            ck.violation("after:" + shape(rec["prog"]), f"engine unusable after {src}: {o['steps'][2]}", {"program": src})
    ck.rule = ("every program of the Exceptions.tla family (one try x 12 thrown kinds - 6 thrown by C++ functions, 6 script values incl. runtime_error, a registered base/derived pair and a script class - x clause lists of length <= 2 over 11 clause types x "
               "4 handler forms x 3 finally forms; nested tries; no-throw and return bodies" + (", a seeded 4000 in quick" if quick else "") +
               "), throw site rotated over 7 frame kinds; distinct = distinct (marker trace, escaping kind)")
    ck.sample({"program": byid[cases[0]["id"]][1], "expected": byid[cases[0]["id"]][0]["expect"]})
    ck.sample({"program": byid[cases[-1]["id"]][1], "expected": byid[cases[-1]["id"]][0]["expect"]})
    ck.assumptions += ["thrown kinds: script int, string, runtime_error value, BaseC/DerivedC values, script class instance; C++ runtime_error/out_of_range/logic_error/bad_cast/eval_error and a non-std struct",
                       "guarded catch clauses and exception_specification handlers are not part of the family"]
    lib.rm(work)
