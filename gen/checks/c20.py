"""C20 - run-time errors point at the construct that failed.
M: Position.tla - the parser's cursor (operator++ / -- / - with the single remembered column) under every sequence of
   scanner calls the parser can make (SkipWS, SkipComment with its two step-backs across a line end, Eol, tokens, the
   `.member`-on-next-line look-ahead) over every text up to MaxLen: CoordsTrue in every state; the modelled regression
   (operator- as column arithmetic) must be found by TLC.
G: ErrStack.tla - ChaiCore's error propagation yields the label sequence of the error's call stack (failing identifier /
   call first, then every enclosing call across functions and chunks); PositionOps!Scan yields the coordinates of every
   token of every laid-out chunk.  Joined (label -> token -> coordinates) they predict eval_error::call_stack, which is
   compared with the generator's ground truth and with the real engine (distinct file names per chunk, some chunks
   evaluated from real files)."""
import os
import random

from .. import errgen, lib


def run(ck, tier, seed):
    quick = tier == "quick"
    work = lib.scratch("c20")
    # ---------------------------------------------------------------- M
    res = lib.tlc("Position", "PositionM" if quick else "PositionM_thorough", workers=16, timeout=3000, heap="12g", tag="posm")
    if not res.ok:
        tr = os.path.join(lib.V, "evidence", "replay", "C20_position_model.txt")
        os.makedirs(os.path.dirname(tr), exist_ok=True)
        open(tr, "w").write(res.output[-6000:])
        ck.violation("model:CoordsTrue", f"the cursor model reaches a state whose line/column are not the true coordinates: {res.violation}", {"trace": res.output[-3000:]})
    ck.add_tlc("Position.tla CoordsTrue", res)
    pin = lib.tlc("Position", "PositionM_pinned", workers=8, timeout=1200, heap="8g", tag="posp")
    if pin.ok or "CoordsTrue" not in str(pin.violation):
        raise lib.Infra("sanity: with operator- as column arithmetic TLC must find CoordsTrue violated: " + str(pin.violation))
    ck.notes.append("sanity: with operator- modelled as column arithmetic TLC finds CoordsTrue violated (a line comment ended by CRLF), as expected")

    # ---------------------------------------------------------------- G
    g = errgen.EG(seed + 20)
    rnd = random.Random(seed + 2020)
    cases = []
    meta = {}
    for cid in range(250 if quick else 4000):
        c = g.case()
        segs, files, truth = [], [], {}
        for k, ch in enumerate(c["chunks"]):
            mode = rnd.choice(["lf", "lf", "crlf", "crlf", "mixed"])
            text, tr = errgen.layout(ch, rnd, mode)
            asfile = rnd.random() < 0.35
            fname = os.path.join(work, f"case{cid}_chunk{k}.chai") if asfile else f"chunk{k}_{mode}.chai"
            if asfile:
                with open(fname, "wb") as f:
                    f.write(text.encode())
            for lab, (ln, col, off) in tr.items():
                truth[lab] = (k, ln, col, off)
            segs.append({"g": 0, "b": ch, "cls": errgen.classes(text)})
            files.append({"file": fname, "asfile": asfile, "text": text, "mode": mode})
        cases.append({"id": cid, "segs": segs})
        meta[cid] = {"files": files, "truth": truth, "depth": c["depth"], "fault": c["fault"]}
    shards = 12
    outs = {}

    def one(k):
        part = cases[k::shards]
        inp, out = os.path.join(work, f"in.{k}.ndjson"), os.path.join(work, f"out.{k}.ndjson")
        lib.write_ndjson(inp, part)
        r = lib.tlc("ErrStackExport", workers=1, env={"IN": inp, "OUT": out}, timeout=3000, heap="3g", tag=f"err{k}", extra_java=["-Xss64m"])
        if not r.ok:
            raise lib.Infra("ErrStack evaluation failed: " + str(r.violation) + r.output[-2000:])
        return lib.read_ndjson(out)
    from concurrent.futures import ThreadPoolExecutor
    with ThreadPoolExecutor(max_workers=shards) as ex:
        for rs in ex.map(one, range(shards)):
            for r in rs:
                outs[r["id"]] = r
    ntok = 0
    dcases = []
    for c in cases:
        m, o = meta[c["id"]], outs[c["id"]]
        # spec cursor vs ground truth for every label
        tokmap = [{t[0]: (t[1], t[2]) for t in toks} for toks in o["toks"]]
        ntok += sum(len(t) for t in o["toks"])
        for lab, (k, ln, col, off) in m["truth"].items():
            got = tokmap[k].get(off + 1)
            if got != (ln, col):
                ck.violation(f"model:cursor:{c['id']}", f"Scan() puts label {lab} of chunk {k} at {got}, the text has it at {(ln, col)}", {"text": m["files"][k]["text"]})
        if any(sg["oc"] == "fuel" for sg in o["segs"]):
            continue
        steps = []
        for f in m["files"]:
            steps.append({"op": "eval_cs", "path": f["file"]} if f["asfile"] else {"op": "eval_cs", "src": f["text"], "file": f["file"]})
        dcases.append({"id": str(c["id"]), "p": "opt" if c["id"] % 2 == 0 else "noopt", "to": 20, "steps": steps})
    ck.states += ntok
    ck.transitions += ntok
    vdrive = lib.build("vdrive", "plain")
    obs, _ = lib.run_driver(vdrive, dcases, work, tag="c20")
    kinds = {}
    for c in cases:
        cid = c["id"]
        if str(cid) not in obs:
            continue
        m, o, e = meta[cid], outs[cid], obs[str(cid)]
        ck.evaluations += 1
        name = f"seed{seed}.{cid}"
        show = "\n".join(f"--- {f['file']} ({f['mode']}{', file' if f['asfile'] else ''}) ---\n{f['text']}" for f in m["files"])
        if "died" in e:
            ck.violation(f"died:{name}", f"process died ({e['died']})", {"program": show})
            continue
        for k, st in enumerate(e["steps"]):
            want = o["segs"][k]
            if want["oc"] == "fuel":
                break
            if (st["oc"] == "ee") != (want["oc"] == "ee") or st["out"] != want["out"]:
                ck.violation(f"outcome:{name}", f"chunk {k}: engine {st['oc']} {st['out']} ({st.get('why')}), reference {want['oc']} {want['out']}", {"program": show, "chunk": k})
                break
            if want["oc"] != "ee":
                continue
            exp = [(m["files"][m["truth"][lab][0]]["file"], m["truth"][lab][1], m["truth"][lab][2]) for lab in want["stack"]]
            cs = st["cs"]
            got0 = (cs[0]["f"], cs[0]["l"], cs[0]["c"]) if cs else None
            rest = cs[1:]
            if len(cs) > 1 and cs[0]["t"] == "Id" and cs[1]["t"] == "Fun_Call" and (cs[1]["f"], cs[1]["l"], cs[1]["c"]) == got0:
                rest = cs[2:]       # an unknown function: the callee identifier fails, and its own call node starts at the same place
            gotcalls = [(x["f"], x["l"], x["c"]) for x in rest if x["t"] == "Fun_Call"]
            kinds[(m["fault"], m["depth"], len(exp))] = kinds.get((m["fault"], m["depth"], len(exp)), 0) + 1
            ck.nontrivial.add((m["fault"], m["depth"], len(exp), m["files"][m["truth"][want["stack"][0]][0]]["mode"]))
            if got0 != exp[0]:
                ck.violation(f"where:{name}", f"the failing construct ({m['fault']}) is at {exp[0]}, call_stack[0] says {got0} ({cs[0]['t'] if cs else ''} `{cs[0]['x'] if cs else ''}`)",
                             {"program": show, "expected": exp, "call_stack": cs})
            elif gotcalls != exp[1:]:
                ck.violation(f"stack:{name}", f"enclosing call sites innermost first are {exp[1:]}, call_stack lists {gotcalls}", {"program": show, "expected": exp, "call_stack": cs})
            break
    ck.extra.update({"cases": len(cases), "tokens_located": ntok, "fault_kind_x_depth_x_stack": {str(k): v for k, v in sorted(kinds.items())}})
    ck.rule = ("generated multi-chunk programs (2-4 chunks; LF / CRLF / mixed line ends; blank lines, //, #, /* */ comments incl. multi-line; indentation; 35% of chunks from "
               "real files), call depth 0-4 across chunks, fault kinds unknown identifier / unknown function / no matching overload / wrong arity / identifier inside "
               "call arguments, call sites nested in if/for/while/blocks/lambdas/arguments; distinct = (fault kind, depth, stack length, line-end mode of the failing chunk)")
    ck.sample({"program": [f["text"] for f in meta[0]["files"]], "expected_stack": outs[0]["segs"][-1]["stack"], "truth": {str(k): v for k, v in meta[0]["truth"].items()}})
    ck.assumptions += ["call sites begin with an identifier (method calls through `.` are Dot_Access nodes and not generated), as the property's quantifier states",
                       "trusted: the layout pass of gen/errgen.py (ground truth) - cross-checked against the spec's own cursor on every label"]
    lib.rm(work)
