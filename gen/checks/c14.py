"""C14 - engine instances are isolated from one another.
M: Engines.tla - engines at addresses, per-thread storage maps keyed per engine, destructor erasing only the destroying
   thread's entry; invariant Isolated over all histories inside the bound; keying by address must be refuted.
G: seeded histories of create/destroy/declare/define over 3 engine ids x 2 addresses x 3 threads (main + two long-lived
   workers), expectations computed by TLC, replayed with engines placement-constructed in a fixed arena; after every step
   every (live engine, thread, name) is probed."""
import os
import random

from .. import lib


def gen_hist(rnd, n):
    ops = []
    for _ in range(n):
        k = rnd.random()
        e = rnd.randint(1, 3)
        if k < 0.25:
            ops.append({"k": "create", "e": e, "a": rnd.randint(0, 1), "t": rnd.choice([0, 0, 1, 2]), "n": ""})   # engines are also created by workers
        elif k < 0.45:
            ops.append({"k": "destroy", "e": e, "a": 0, "t": rnd.randint(0, 2), "n": ""})
        elif k < 0.70:
            ops.append({"k": "decl", "e": e, "a": 0, "t": rnd.randint(0, 2), "n": rnd.choice(["x", "y"])})
        elif k < 0.80:
            ops.append({"k": "conv", "e": e, "a": 0, "t": 0, "n": rnd.choice(["1", "2"])})
        elif k < 0.92:
            ops.append({"k": "useconv", "e": e, "a": 0, "t": rnd.randint(0, 2), "n": rnd.choice(["1", "2"])})
        else:
            ops.append({"k": "def", "e": e, "a": 0, "t": 0, "n": "f"})
    return ops


FIXED = [
    # the history of the property text: declare on a worker, destroy, create at the same address, probe on the surviving worker
    [{"k": "create", "e": 1, "a": 0, "t": 0, "n": ""}, {"k": "decl", "e": 1, "a": 0, "t": 1, "n": "x"}, {"k": "destroy", "e": 1, "a": 0, "t": 0, "n": ""},
     {"k": "create", "e": 2, "a": 0, "t": 0, "n": ""}, {"k": "decl", "e": 2, "a": 0, "t": 1, "n": "x"}],
    [{"k": "create", "e": 1, "a": 0, "t": 0, "n": ""}, {"k": "create", "e": 2, "a": 1, "t": 0, "n": ""}, {"k": "decl", "e": 1, "a": 0, "t": 0, "n": "x"},
     {"k": "decl", "e": 2, "a": 0, "t": 0, "n": "x"}, {"k": "def", "e": 1, "a": 0, "t": 0, "n": "f"}, {"k": "destroy", "e": 1, "a": 0, "t": 2, "n": ""},
     {"k": "create", "e": 3, "a": 0, "t": 0, "n": ""}, {"k": "decl", "e": 3, "a": 0, "t": 0, "n": "y"}],
    # a shared engine made by main plus a private engine made by a worker, the worker using both
    [{"k": "create", "e": 1, "a": 0, "t": 0, "n": ""}, {"k": "create", "e": 2, "a": 1, "t": 1, "n": ""}, {"k": "decl", "e": 1, "a": 0, "t": 1, "n": "x"},
     {"k": "decl", "e": 2, "a": 0, "t": 1, "n": "x"}, {"k": "decl", "e": 2, "a": 0, "t": 0, "n": "y"}, {"k": "destroy", "e": 2, "a": 0, "t": 1, "n": ""},
     {"k": "decl", "e": 1, "a": 0, "t": 1, "n": "y"}],
    # two engines with the same NUMBER of user conversions but different ones, used alternately from one thread
    [{"k": "create", "e": 1, "a": 0, "t": 0, "n": ""}, {"k": "create", "e": 2, "a": 1, "t": 0, "n": ""}, {"k": "conv", "e": 1, "a": 0, "t": 0, "n": "1"},
     {"k": "conv", "e": 2, "a": 0, "t": 0, "n": "2"}, {"k": "useconv", "e": 1, "a": 0, "t": 1, "n": "1"}, {"k": "useconv", "e": 2, "a": 0, "t": 1, "n": "2"},
     {"k": "useconv", "e": 2, "a": 0, "t": 1, "n": "1"}, {"k": "useconv", "e": 1, "a": 0, "t": 1, "n": "2"}, {"k": "useconv", "e": 1, "a": 0, "t": 0, "n": "1"}],
]


def norm_view(v):
    return [{"alive": bool(e["alive"]), "fns": sorted(e["fns"]), "vars": [sorted(x) for x in e["vars"]]} for e in v]


def run(ck, tier, seed):
    quick = tier == "quick"
    res = lib.tlc("Engines", "Engines" if quick else "Engines_thorough", timeout=2400, heap="12g")
    ck.add_tlc("Engines", res)
    if not res.ok:
        ck.violation("model", f"Engines violates {res.violation}", lib.tlc_trace_text(res))
    r2 = lib.tlc("Engines", "Engines_pinned", timeout=600)
    if r2.ok:
        raise lib.Infra("sanity: keying the per-thread storage by address must violate Isolated")
    ck.notes.append(f"sanity: with storage keyed by address TLC finds a history violating Isolated ({r2.distinct} states)")
    rc = lib.tlc("Engines", "Engines_conv", timeout=1200, heap="12g")
    ck.add_tlc("Engines (with user conversions: Isolated, ConvIsolated)", rc)
    if not rc.ok:
        ck.violation("model:conv", f"Engines violates {rc.violation}", lib.tlc_trace_text(rc))
    r4 = lib.tlc("Engines", "Engines_pinned3", timeout=600)
    if r4.ok:
        raise lib.Infra("sanity: one convertible-type cache per thread (instead of per thread and engine) must violate ConvIsolated")
    ck.notes.append("sanity: with the convertible-type cache shared by all engines of a thread TLC finds ConvIsolated violated")
    r3 = lib.tlc("Engines", "Engines_pinned2", timeout=600)
    if r3.ok:
        raise lib.Infra("sanity: keying the per-thread storage by a per-thread creation count must violate Isolated")
    ck.notes.append(f"sanity: with storage keyed by the creating thread's own creation count TLC finds a history violating Isolated ({r3.distinct} states)")
    work = lib.scratch("c14")
    rnd = random.Random(seed)
    hists = [{"id": i, "ops": ops} for i, ops in enumerate(FIXED)]
    for i in range(300 if quick else 4000):
        hists.append({"id": len(hists), "ops": gen_hist(rnd, rnd.randint(3, 9 if quick else 14))})
    inp, out = os.path.join(work, "h.ndjson"), os.path.join(work, "e.ndjson")
    lib.write_ndjson(inp, hists)
    r = lib.tlc("EnginesExport", workers=1, env={"IN": inp, "OUT": out}, timeout=900, heap="4g")
    if not r.ok:
        raise lib.Infra("Engines export failed " + r.output[-1500:])
    recs = lib.read_ndjson(out)
    drv = lib.build("vd_engines", "plain")
    cases = [{"id": str(x["id"]), "ops": x["ops"]} for x in recs]
    obs, _ = lib.run_driver(drv, cases, work, tag="c14", supervise=False)
    for rec in recs:
        o = obs[str(rec["id"])]
        ck.evaluations += 1
        hk = lambda i: "hist:" + ";".join(f"{x['k']}.e{x['e']}" + (f"@{x['a']}t{x['t']}" if x['k'] == 'create' else f".t{x['t']}" if x['k'] in ('decl', 'destroy') else "") +
                                          (f".{x['n']}" if x['n'] else "") + (f"@t{x['t']}" if x['k'] == 'useconv' else "") for x in rec["ops"][:i + 1])
        if "died" in o:
            ck.violation(hk(len(rec["ops"])), f"process died ({o['died']})", {"history": rec["ops"]})
            continue
        for i, (exp, got) in enumerate(zip(rec["expect"], o["steps"])):
            want_view = norm_view(exp["view"])
            ck.nontrivial.add(str(want_view))
            if got["res"] != exp["res"] or norm_view(got["view"]) != want_view:
                ck.violation(hk(i), f"after step {i + 1} ({rec['ops'][i]}): outcome {got['res']}, visible {norm_view(got['view'])}; "
                             f"isolation requires {exp['res']}, {want_view}", {"history": rec["ops"], "step": i + 1, "expected": exp, "observed": got})
                break
    ck.rule = ("seeded histories (3-14 operations) of create-at-address / destroy-on-thread / declare-on-thread / define over 3 engine ids, "
               "2 addresses, 3 threads, plus the property's own history; distinct = distinct expected visibility tables")
    ck.sample({"history": recs[0]["ops"], "expected_after_last": recs[0]["expect"][-1]})
    ck.sample({"history": recs[-1]["ops"]})
    ck.assumptions += ["'same address' is produced by placement-new into a fixed arena; types, conversions and used-file records are not probed"]
    lib.rm(work)
