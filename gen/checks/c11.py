"""C11 - objects live exactly as long as something refers to them.
M: Lifetime.tla - cells that own or merely borrow an object, owners that are named variables or temporaries of the full
   expression, binders that keep a cell or clone the object, events that end the owner's life; OwningNeverDangles and
   DanglingOnlyByBorrow over every path source x binder x event x use.
G: every path is exported with its verdict (safe / dangling / rejected at binding), printed from per-action templates and
   run against an instrumented class whose registry records construction, destruction, a touch after destruction, a second
   destruction and instances alive after the engine is gone; model-safe paths also run under ASan+UBSan.  A path the model
   calls safe must be clean; the dangling paths are the borrowed-reference escapes recorded as known findings, one per
   source of bare references."""
import os

from .. import lib

SRC = {
    "own_ctor": ("", "Tk(5)"), "own_make": ("", "tk_make()"), "own_sp": ("", "tk_make_sp()"), "own_up": ("", "tk_make_up()"),
    "own_downcast": ("", "as_pd(make_pb_really_pd())"), "own_upcast": ("", "as_pb(make_pd_sp())"),
    "own_var": ("var o = Tk(5)", "o"), "own_vecelem": ("var sv = [Tk(5)]", "sv[0]"),
    "bor_tvtemp": ("", "make_tv()[0]"), "bor_holdtemp_inner": ("", "make_holder().inner()"), "bor_holdtemp_member": ("", "make_holder().member"),
    "bor_first_temp": ("", "first_of(make_tv())"),
    "bor_stv": ("", "mktv()[0]"), "bor_sholder_inner": ("", "mkh().inner()"), "bor_sholder_member": ("", "fun() { var h = Holder(); return h }().member"),
    "bor_conv_ref": ("var cs = TkSrc()", "tk_ident(cs)"), "bor_conv_ptr": ("var cs = TkSrc()", "tk_ident_p(cs)"),
    "bor_tvvar": ("var tv = make_tv()", "tv[0]"), "bor_holdvar_inner": ("var hd = make_holder()", "hd.inner()"),
    "bor_holdvar_member": ("var hd = make_holder()", "hd.member"), "bor_first_var": ("var tv = make_tv()", "first_of(tv)"),
    "bor_rfor": ("var tv = make_tv(); var rf; for (x : tv) { rf := x; break }", "rf"),
}
OWNERVAR = {"own_var": ("o", "Tk(9)"), "bor_tvvar": ("tv", "make_tv()"), "bor_first_var": ("tv", "make_tv()"), "bor_rfor": ("tv", "make_tv()"),
            "bor_holdvar_inner": ("hd", "make_holder()"), "bor_holdvar_member": ("hd", "make_holder()")}
# binder -> (outer declaration, name to capture in the lambda_return event, bind statement, use expression)
BIND = {
    "bind": ("var k", "k", "k := {h}", "k.get()"),
    "capture": ("var f", "f", "var &c = {h}; f = fun[c]() {{ c.get() }}", "f()"),
    "bindarg": ("var f", "f", "f = bind(fun(t) {{ t.get() }}, {h})", "f()"),
    "pushref": ("var v = Vector()", "v", "v.push_back_ref({h})", "v[0].get()"),
    "attr_bind": ("var d = Dynamic_Object()", "d", "d.a := {h}", "d.a.get()"),
    "global": ("global gk", "", "gk := {h}", "gk.get()"),
    "keep_sp": ("", "", "tk_keep_sp({h})", "tk_kept_get()"),
    "copy": ("var k", "k", "k = {h}", "k.get()"),
    "push": ("var v = Vector()", "v", "v.push_back({h})", "v[0].get()"),
    "attr_copy": ("var d = Dynamic_Object()", "d", "d.a = {h}", "d.a.get()"),
}
KNOWN_BY_SOURCE = {s: f"known:borrowed-reference-escape:{s}" for s in SRC if s.startswith("bor_")}
# `k = f()` / push_back(f()) / `d.a = f()` where f returns const T & (or const T *): the result carries the return-value flag and is adopted
# as it is instead of being copied - the "copy" is another bare reference.  Recorded finding, one entry per source.
CLONING = ("copy", "push", "attr_copy")
KNOWN_ADOPTED = {s: f"known:const-reference-return-adopted:{s}" for s in ("bor_conv_ref", "bor_conv_ptr")}


HELPERS = "def as_pd(PD d) { return d }; def as_pb(PB b) { return b }; def mktv() { var t = make_tv(); return t }; def mkh() { var h = Holder(); return h }; "


def script(p):
    pre, h = SRC[p["src"]]
    if p["binder"] == "none":
        return f"def prog() {{ {pre + '; ' if pre else ''}hout(to_string({h}.get())) }}"
    outer, cap, bind, use = BIND[p["binder"]]
    inner = (pre + "; " if pre else "") + bind.format(h=h)
    e = p["event"]
    if e == "stmt":
        body = inner
    elif e == "scope_exit":
        body = "{ " + inner + " }"
    elif e == "exception":
        body = "try { " + inner + "; throw(1) } catch(e) { }"
    elif e == "lambda_return":
        body = f"fun[{cap}]() {{ {inner} }}()" if cap else f"fun() {{ {inner} }}()"
    elif e == "owner_clear":
        body = inner + "; tv.clear()"
    elif e == "owner_rebind":
        ov, fresh = OWNERVAR[p["src"]]
        body = inner + f"; {ov} := {fresh}"
    return f"def prog() {{ {outer + '; ' if outer else ''}{body}; hout(\"bound\"); hout(to_string({use})) }}"


def run(ck, tier, seed):
    res = lib.tlc("Lifetime", "Lifetime", timeout=600)
    ck.add_tlc("Lifetime (OwningNeverDangles, DanglingOnlyByBorrow)", res)
    if not res.ok:
        ck.violation("model", f"Lifetime violates {res.violation}", lib.tlc_trace_text(res))
    work = lib.scratch("c11")
    out = os.path.join(work, "paths.ndjson")
    r = lib.tlc("LifetimeExport", workers=1, env={"OUT": out}, timeout=900, heap="3g")
    if not r.ok:
        raise lib.Infra("Lifetime export failed: " + r.output[-1200:])
    paths = lib.read_ndjson(out)
    ck.states += len(paths)
    ck.transitions += 4 * len(paths)
    cases = []
    for i, p in enumerate(paths):
        p["id"] = str(i)
        p["script"] = script(p)
        for parser in ("opt", "noopt"):
            cases.append({"id": f"{i}.{parser}", "p": parser, "to": 30, "steps": [{"op": "eval", "src": HELPERS + p["script"]}, {"op": "eval", "src": "prog()"}, {"op": "tk"},
                                                                                {"op": "eval", "src": "prog()"}, {"op": "eval", "src": "tk_drop_kept()"}, {"op": "tk"}]})
    obs, _ = lib.run_driver(lib.build("vdrive", "plain"), cases, work, tag="c11")
    safe_cases = [c for c in cases if paths[int(c["id"].split(".")[0])]["verdict"] == "safe"]
    obs_asan, _ = lib.run_driver(lib.build("vdrive", "asan"), safe_cases, work, tag="c11asan", timeout=1800,
                                 env={"ASAN_OPTIONS": "detect_stack_use_after_return=1:abort_on_error=0:detect_leaks=0", "UBSAN_OPTIONS": "print_stacktrace=1"})
    drift = 0
    for p in paths:
        for parser in ("opt", "noopt"):
            cid = f"{p['id']}.{parser}"
            o = obs[cid]
            ck.evaluations += 1
            ck.nontrivial.add((p["src"], p["binder"], p["event"], p["verdict"]))
            name = f"path:{p['src']}:{p['binder']}:{p['event']}"
            if "died" in o:
                ck.violation(KNOWN_BY_SOURCE.get(p["src"], name) if p["verdict"] == "dangling" else "died:" + name, f"process died ({o['died']}) [{parser}] on {p['script']}; prog()", {"path": p})
                continue
            uaf, live, con, des = o["uaf"], o["live"], o["constructed"], o["destroyed"]
            run1 = o["steps"][1]
            reached = run1["oc"] == "val" and len(run1["out"]) >= 1
            if live != 0 or con != des:
                ck.violation("leak:" + name, f"[{parser}] after the engine is gone {live} instrumented objects are still alive (constructed {con}, destroyed {des}): {p['script']}; prog(); prog()",
                             {"path": p, "observed": o})
            adopted = KNOWN_ADOPTED.get(p["src"]) if p["binder"] in CLONING else None
            if p["verdict"] == "safe":
                if uaf != 0:
                    ck.violation(adopted or name, f"[{parser}] an object was touched after its destruction (or destroyed twice) {uaf} time(s) on a path where every referrer owns it: {p['script']}; prog()",
                                 {"path": p, "observed": o})
                elif not reached:
                    ck.violation("fails:" + name, f"[{parser}] the path does not evaluate ({run1['oc']} {run1.get('why')}): {p['script']}; prog()", {"path": p, "observed": run1})
                a = obs_asan.get(cid)
                if a is not None and ("died" in a or a.get("uaf", 0) != 0):
                    ck.violation(adopted or "asan:" + name, f"[{parser}] under ASan/UBSan: {a.get('died') or 'touched after destruction'}: {p['script']}; prog()", {"path": p, "observed": a})
            elif p["verdict"] == "dangling":
                if uaf != 0:
                    ck.violation(KNOWN_BY_SOURCE[p["src"]], f"[{parser}] a bare reference outlives its owner: the object is touched after its destruction: {p['script']}; prog()", {"path": p, "observed": o})
                else:
                    drift += 1
            else:
                if uaf != 0:
                    ck.violation(name, f"[{parser}] touched after destruction on a path rejected at binding: {p['script']}", {"path": p, "observed": o})
    ck.extra.update({"paths": len(paths), "verdicts": {v: sum(1 for p in paths if p["verdict"] == v) for v in ("safe", "dangling", "rejected")},
                     "asan_cases": len(safe_cases), "model_dangling_but_engine_clean": drift})
    if drift:
        ck.notes.append(f"{drift} path runs the model calls dangling showed no touch after destruction in the engine (the model is conservative there; not a violation)")
    ck.exhaustive = True
    ck.rule = ("every path of Lifetime.tla: 22 sources (8 owning - two of them values converted down / up a class hierarchy for a typed script parameter -, 14 bare references from std::vector<T> elements, holder members, first_of(v), ranged-for, and references / pointers to a temporary made by a user conversion) x 11 binders "
               "(none, :=, capture, bind(), push_back_ref, attribute :=, global, C++-kept shared_ptr; copy, push_back, attribute =) x 6 events (statement end, scope exit, "
               "exception, function return, owner cleared, owner re-seated), both parsers, each evaluated twice; model-safe paths also under ASan+UBSan")
    ck.sample({"path": {k: paths[0][k] for k in ("src", "binder", "event", "verdict")}, "script": paths[0]["script"]})
    ck.sample({"path": {k: paths[-1][k] for k in ("src", "binder", "event", "verdict")}, "script": paths[-1]["script"]})
    ck.assumptions += ["the instrumented class decides by its registry (the object itself is not read once gone), so a touch after destruction is counted, not performed",
                       "reference cycles are not generated (excepted by the property); evaluated on the engine's own thread", "trusted: the per-action script templates in gen/checks/c11.py"]
    lib.rm(work)
