"""C01 - parsing is total and safe: a tree for the whole input, or eval_error.
M: Brackets.tla - the lexical layer (code / comments / string, char and back-quoted literals with escapes) and the bracket
   discipline as a state machine over every text up to MaxLen: StackIsOpeners, DepthBounded, TriviaMeansNoBrackets,
   StrayIsFinal.  Position.tla (shared with C20) adds CursorInBounds for every scanner call sequence.
G: necessary conditions checked against the real parser, the spec deciding each text:
     outcome in {tree, eval_error};  Accepts(t) => Verdict(t) = "balanced";  Trivia(t) => Accepts(t);
     an empty tree (nothing parsed) => Trivia(t)
   (1) every text up to MaxLen over 18 character classes; (2) generated valid programs and their mutations (inserted /
   deleted / replaced brackets and quotes, truncations), classified by TLC; (3) string interpolations with unbalanced
   code; (4) robustness under ASan+UBSan: nesting ramps far beyond the depth limit, arbitrary bytes incl. NUL and > 0x7e,
   truncated programs - the parser must answer with a tree or eval_error, never a crash, abort or stack overflow."""
import os
import random
from concurrent.futures import ThreadPoolExecutor

from .. import coregen, lib

CHAR = {"a": "a", "sp": " ", "nl": "\n", "sc": ";", "dq": '"', "sq": "'", "bq": "`", "sl": "/", "st": "*", "hs": "#", "bs": "\\", "dl": "$"}
CLS = {v: k for k, v in CHAR.items()}
CLS.update({"\t": "sp", "\r": "sp"})


def concrete(seq):
    return "".join(CHAR.get(c, c) for c in seq)


def classes(text):
    return [c if c in "()[]{}" else CLS.get(c, "a") for c in text]


def outcome(step):
    oc = step.get("oc")
    if oc == "val":
        return "noop" if str(step.get("v", "")).startswith('string:"Noop') else "tree"
    return "error" if oc == "ee" else f"other:{oc}:{step.get('ex') or step.get('v')}"


def judge(ck, key, text, verdict, trivia, oc):
    shown = repr(text[:200])
    if oc.startswith("other"):
        ck.violation("outcome:" + key, f"parse({shown}) ended with {oc}: neither a tree nor eval_error", {"text": text})
    elif verdict == "noclaim":
        return
    elif oc in ("tree", "noop") and verdict != "balanced":
        ck.violation("accepts:" + key, f"parse({shown}) returned a tree although the text is {verdict} (an unmatched bracket or an unterminated literal): text was dropped", {"text": text, "verdict": verdict})
    elif oc == "noop" and not trivia:
        ck.violation("dropped:" + key, f"parse({shown}) returned an EMPTY tree although the text contains more than blanks and comments", {"text": text})
    elif trivia and oc == "error":
        ck.violation("trivia:" + key, f"parse({shown}) fails although the text consists of blanks, line ends and comments only", {"text": text})


def run(ck, tier, seed):
    quick = tier == "quick"
    cfg = "Brackets" if quick else "Brackets_thorough"
    res = lib.tlc("Brackets", cfg, workers=16, timeout=2400, heap="12g", extra=["-maxSetSize", "4000000"])
    ck.add_tlc("Brackets (StackIsOpeners, DepthBounded, TriviaMeansNoBrackets, StrayIsFinal)", res)
    if not res.ok:
        ck.violation("model", f"Brackets violates {res.violation}", lib.tlc_trace_text(res))
    rp = lib.tlc("Position", "PositionM", workers=16, timeout=2400, heap="12g", tag="posc01")
    ck.add_tlc("Position (CursorInBounds, CoordsTrue)", rp)
    if not rp.ok:
        ck.violation("model:cursor", f"Position violates {rp.violation}", lib.tlc_trace_text(rp))
    work = lib.scratch("c01")
    maxlen = 4 if quick else 5
    shards = 12

    def one(k):
        out = os.path.join(work, f"all.{k}.ndjson")
        name = f"BracketsExportAll_run_{os.getpid()}_{k}"
        with open(os.path.join(lib.SPEC, name + ".cfg"), "w") as f:
            f.write('INIT Init\nNEXT Next\nCONSTANTS\n  Alphabet = {"(", ")", "[", "]", "{", "}", "a", "sp", "nl", "sc", "dq", "sq", "bq", "sl", "st", "hs", "bs", "dl"}\n'
                    f"  MaxLen = {maxlen}\n  ShardK = {k}\n  ShardN = {shards}\n")
        try:
            r = lib.tlc("BracketsExportAll", name, workers=1, env={"OUT": out}, timeout=2400, heap="6g", extra=["-maxSetSize", "4000000"])
        finally:
            os.unlink(os.path.join(lib.SPEC, name + ".cfg"))
        if not r.ok:
            raise lib.Infra(f"Brackets export failed: {r.violation} {r.output[-800:]}")
        return lib.read_ndjson(out)
    recs = []
    with ThreadPoolExecutor(max_workers=shards) as ex:
        for r in ex.map(one, range(shards)):
            recs += r
    ck.states += len(recs)
    ck.transitions += sum(len(r["text"]) for r in recs)
    # (2) generated programs and mutations, (3) interpolations
    rnd = random.Random(seed)
    g = coregen.G(seed + 1)
    given = []
    for i in range(150 if quick else 1500):
        text = coregen.program_text(g.program())
        given.append({"id": f"p{i}", "text": text, "valid": True})
        for j in range(6):
            t = list(text)
            k = rnd.random()
            pos = rnd.randrange(len(t))
            if k < 0.35:
                t.insert(pos, rnd.choice(")]}([{\"'"))
            elif k < 0.6:
                idx = [n for n, ch in enumerate(t) if ch in "()[]{}\""]
                if idx:
                    del t[rnd.choice(idx)]
            elif k < 0.8:
                idx = [n for n, ch in enumerate(t) if ch in "()[]{}"]
                if idx:
                    t[rnd.choice(idx)] = rnd.choice("()[]{}")
            else:
                t = t[:pos]
            given.append({"id": f"p{i}m{j}", "text": "".join(t), "valid": False})
    # statement-level keyword sequences: whatever order keywords and blocks come in, the answer is a tree or an eval_error
    import itertools
    toks = ["if (a) { }", "else", "else { }", "else if (a) { }", "{ }", "try { }", "catch(e) { }", "finally { }", "def f() { }", "while (a) { }", "for (;;) { }", "a", ";", "switch (a) { }",
            "case (1) { }", "default { }", "class K { }", "fun() { }", "return", "break"]
    for n in range(1, 4 if quick else 5):
        for i, combo in enumerate(itertools.product(toks, repeat=n)):
            if n >= 4 and rnd.random() > 0.25:
                continue
            given.append({"id": f"k{n}_{i}", "text": " ".join(combo), "valid": False})
    # numeric token shapes far outside every representable range: the answer is still a tree or an eval_error
    nums = []
    for digits in ("9" * 19, "9" * 20, "18446744073709551615", "18446744073709551616", "1" + "0" * 30, "9" * 60):
        nums += [digits, digits + "u", digits + "ll", digits + "ul", "-" + digits, "(" + digits, "var x = " + digits + " + 1"]
    for body in ("f" * 15, "f" * 16, "f" * 17, "1" + "0" * 16, "f" * 40):
        nums += ["0x" + body, "0X" + body + "u", "0x" + body + "ll"]
    for body in ("1" * 63, "1" * 64, "1" * 65, "1" + "0" * 64, "1" * 90):
        nums += ["0b" + body, "0B" + body + "l"]
    for body in ("7" * 21, "1" + "7" * 21, "2" + "0" * 21, "7" * 40):
        nums += ["0" + body, "0" + body + "u"]
    nums += ["1e99999", "1e-99999", "1.5e400", "1e400f", "1e5000l", "9" * 400 + ".5", "0." + "0" * 400 + "1", "1.2.3", "1e", "1e+", "1.e5", ".5", "5.", "1e5e5", "0x", "0b", "0b2",
             "0xg", "08", "09.5", "1uu", "1lll", "1ulu", "1.5u", "1f", "0x1p3", "1_000", "\"${" + "9" * 25 + "}\"", "'\\" + "7" * 12 + "'"]
    for i, t in enumerate(nums):
        given.append({"id": f"n{i}", "text": t, "valid": False})
    # string-literal shapes: every text over quote, dollar, braces, a letter, a blank and `;` - alone and followed by more source text
    # (a stray `}` before `${` closes the literal with its interpolation open; the parser must not read on beyond the literal)
    alpha = ['"', "$", "{", "}", "a", " ", ";"]
    shapes = [""]
    for _ in range(5 if quick else 6):
        shapes = [x + c for x in shapes for c in alpha] + [""]
        shapes = list(dict.fromkeys(shapes))
    strs = [t for t in shapes if t.count('"') >= 2 and "$" in t]
    rnd.shuffle(strs)
    strs = strs[:2500 if quick else 20000]
    # pinned: `$`, then a `;` or line break the scanner skips, then `{` opens no interpolation (fixed 9b1d770)
    for i, t in enumerate(['"$;{"{', '"$;{"}', '"$\n{"{', '"$\n{"}', '"$;;{"(', '"a$;{" ]']):
        given.append({"id": f"qp{i}", "text": t, "valid": False})
        given.append({"id": f"qp{i}s", "text": "var a = " + t + '; var b = "}"', "valid": False})
    for i, t in enumerate(strs):
        given.append({"id": f"q{i}", "text": t, "valid": False})
        given.append({"id": f"q{i}s", "text": "var a = " + t + '; var b = "}"', "valid": False})
    inter = []
    for e in ["1 )", "1 ]", "(1", "1 + 2 ) * 3", "[1, 2", "f(1))", "a ) b", ") 1", "1 ) ) )", "(1) ]"]:
        for pre, post in (("", ""), ("x", "y"), ("${1}", "")):
            inter.append(f'var s = "{pre}${{{e}}}{post}"; s')
    def given_shard(k):
        part = given[k::shards]
        inp, out2 = os.path.join(work, f"given.in.{k}.ndjson"), os.path.join(work, f"given.out.{k}.ndjson")
        lib.write_ndjson(inp, [{"id": x["id"], "cls": classes(x["text"])} for x in part])
        name = f"BracketsExportGiven_run_{os.getpid()}_{k}"
        with open(os.path.join(lib.SPEC, name + ".cfg"), "w") as f:
            f.write('INIT Init\nNEXT Next\nCONSTANTS\n  Alphabet = {"a"}\n  MaxLen = 0\n  ShardK = 0\n  ShardN = 1\n')
        try:
            r = lib.tlc("BracketsExportGiven", name, workers=1, env={"IN": inp, "OUT": out2}, timeout=2400, heap="3g")
        finally:
            os.unlink(os.path.join(lib.SPEC, name + ".cfg"))
        if not r.ok:
            raise lib.Infra("Brackets verdicts for generated programs failed: " + r.output[-1200:])
        return lib.read_ndjson(out2)
    gvl = []
    with ThreadPoolExecutor(max_workers=shards) as ex:
        for rs in ex.map(given_shard, range(shards)):
            gvl += rs
    gv = {x["id"]: x for x in gvl}
    # ---- the real parser: many texts per engine (parse does not change engine state)
    items = [("t%d" % i, concrete(rec["text"]), rec["verdict"], rec["trivia"], None) for i, rec in enumerate(recs)]
    items += [(x["id"], x["text"], gv[x["id"]]["verdict"], gv[x["id"]]["trivia"], x["valid"]) for x in given]
    items += [(f"i{i}", t, "stray-in-interpolation", False, None) for i, t in enumerate(inter)]
    cases = []
    per = 250
    for b in range(0, len(items), per):
        cases.append({"id": f"b{b // per}", "to": 120, "p": "opt" if (b // per) % 2 == 0 else "noopt", "steps": [{"op": "parse", "src": it[1]} for it in items[b:b + per]]})
    obs, _ = lib.run_driver(lib.build("vdrive", "plain"), cases, work, tag="c01", timeout=2400)
    redo = []
    for b in range(0, len(items), per):
        o = obs[f"b{b // per}"]
        if "died" in o:
            redo += items[b:b + per]
            continue
        for it, st in zip(items[b:b + per], o["steps"]):
            ck.evaluations += 1
            oc = outcome(st)
            ck.nontrivial.add((it[2], it[3], oc, it[0][0]))
            if it[0][0] == "i":
                if oc != "error":
                    ck.violation("interp:" + it[1], f"parse({it[1]!r}) returned a tree although the code inside the interpolation has an unmatched bracket", {"text": it[1]})
                continue
            judge(ck, it[1][:80] if it[0][0] == "t" else f"seed{seed}.{it[0]}", it[1], it[2], it[3], oc)
            if it[4] and oc != "tree":
                ck.violation(f"valid:seed{seed}.{it[0]}", f"a generated valid program is not accepted ({oc}: {st.get('why')}): {it[1][:300]}", {"text": it[1]})
    if redo:
        singles = [{"id": it[0], "to": 60, "steps": [{"op": "parse", "src": it[1]}]} for it in redo]
        o2, _ = lib.run_driver(lib.build("vdrive", "plain"), singles, work, tag="c01redo", timeout=2400)
        for it in redo:
            o = o2[it[0]]
            ck.evaluations += 1
            if "died" in o:
                ck.violation("crash:" + it[1][:80], f"parse({it[1][:200]!r}) killed the process ({o['died']})", {"text": it[1]})
            else:
                judge(ck, it[1][:80], it[1], it[2], it[3], outcome(o["steps"][0]))
    # ---- (4) robustness under sanitizers
    rob = []
    for n in ([600, 20000] if quick else [600, 5000, 50000]):
        for u in ("(", "[", "{", "[[", "-", "!", "a.", "a(", "if (a) {", "fun() {", "1 +", "\"${", "a[", "def f() {", "try {"):
            rob.append(u * n)
    for n in ([600, 200000] if quick else [600, 200000, 2000000]):
        for u in ("(", "[", "{"):
            rob.append(u * n)
        rob.append("(" * n + ")" * n)
        rob.append("[" * n + "]" * n)
        rob.append("{" * n + "}" * n)
    base = [x["text"] for x in given if x["valid"]][:40]
    for i in range(400 if quick else 6000):
        t = list(rnd.choice(base))
        for _ in range(rnd.randint(1, 5)):
            k = rnd.random()
            pos = rnd.randrange(len(t) + 1)
            if k < 0.45:
                t.insert(pos, chr(rnd.choice([0, 1, 9, 10, 13, 34, 36, 39, 92, 96, 123, 125, 127, 128, 200, 255, rnd.randrange(256)])))
            elif k < 0.7 and t:
                del t[min(pos, len(t) - 1)]
            else:
                t = t[:pos]
        rob.append("".join(t))
    rcases = [{"id": f"r{i}", "to": 200, "steps": [{"op": "parse", "src": s}]} for i, s in enumerate(rob)]
    robs, _ = lib.run_driver(lib.build("vdrive", "asan"), rcases, work, tag="c01rob", timeout=3000,
                             env={"ASAN_OPTIONS": "detect_stack_use_after_return=0:abort_on_error=0:detect_leaks=0"})
    for i, s in enumerate(rob):
        o = robs[f"r{i}"]
        ck.evaluations += 1
        label = (s[:24] + f"...x{len(s)}") if len(s) > 60 else s
        if "died" in o:
            ck.violation("crash:" + label[:60], f"parse of {label!r} ({len(s)} bytes) killed the process under ASan/UBSan ({o['died']})", {"text": s[:2000], "bytes": len(s)})
        else:
            oc = outcome(o["steps"][0])
            ck.nontrivial.add(("robust", oc, len(s) > 1000))
            if oc.startswith("other"):
                ck.violation("outcome:" + label[:60], f"parse of {label!r} ended with {oc}", {"text": s[:2000]})
    ck.extra.update({"texts_exhaustive": len(recs), "generated_and_mutated": len(given), "interpolations": len(inter), "robustness_inputs": len(rob)})
    ck.exhaustive = True
    ck.rule = (f"every text of length <= {maxlen} over 18 character classes (exhaustive); seeded valid programs of the C03 generator with 6 mutations each; sequences of up to 3-4 statement-level keywords and blocks; numeric tokens beyond every representable range in all four bases and float shapes; string-literal shapes over quote / $ / braces (alone and followed by more text); interpolation "
               "strings with unbalanced code; nesting ramps of 15 openers (600 to 200,000 deep), seeded byte mutations (NUL, > 0x7e, quotes, braces) under ASan/UBSan; "
               "distinct = (verdict, trivia, outcome, family)")
    ck.sample({"text": concrete(recs[len(recs) // 3]["text"]), "verdict": recs[len(recs) // 3]["verdict"]})
    ck.sample({"text": given[1]["text"][:300], "verdict": gv[given[1]["id"]]["verdict"]})
    ck.assumptions += ["the conditions are NECESSARY for a correct parse (bracket discipline, terminated literals, nothing dropped), not a full grammar: a text the "
                       "parser wrongly accepts although its brackets balance is outside this check (the C03/C02/C20 generators exercise the grammar on valid programs)",
                       "string interpolation is covered by the textual family only"]
    lib.rm(work)
