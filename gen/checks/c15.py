"""C15 - get_state / set_state restore the global environment exactly.
M: EngineState.tla - three function tables with shared overload vectors, snapshots sharing the heap,
   invariants TablesInStep / Refines (RestoreExact) / SnapshotsImmutable; the in-place variant must fail.
G: histories of {def overload, global, class, add type, add C++ function, use(file), get_state, set_state}
   enumerated by TLC with the visible environment expected after every step; replayed step by step."""
import os

from .. import lib

FN, SIGS, GN, TN, FILES = ["f", "g"], ["int", "str", "cpp"], ["ga", "gb"], ["TA", "TB"], ["u1", "u2"]
CFG = """INIT DummyInit
NEXT DummyNext
CONSTANTS
  FNames = {"f", "g"}
  Sigs = {"int", "str", "cpp"}
  GNames = {"ga", "gb"}
  TNames = {"TA", "TB"}
  Files = {"u1", "u2"}
  MaxSnaps = 3
  CopyOnWrite = TRUE
  MaxSerial = 0
  Family = "%s"
  NRandom = %d
  ShardK = %d
  ShardN = %d
  HistLen = %d
"""

SETUP = ('def pr(s) { try { to_string(eval(s)) } catch(e) { "E" } }; '
         'def fc(n) { if (get_functions().count(n) == 0) { "-" } else { to_string(get_functions()[n].get_contained_functions().size()) } }; '
         # persistent call sites: parsed once, before any snapshot, and run again after every step (their nodes keep whatever lookup hints they cached)
         'def prf(fn) { try { to_string(fn()) } catch(e) { "E" } }; '
         + "".join(f'def site_{n}_i() {{ (1).{n}() }}; def site_{n}_s() {{ "s".{n}() }}; ' for n in ("f", "g")) +
         'var L0 = 5; 0')


def probe_src():
    ex = []
    for n in FN:
        ex += [f'pr("{n}(1)")', f'pr("(1).{n}()")', f'pr("{n}(\\"s\\")")', f'pr("\\"s\\".{n}()")', f'pr("{n}()")',
               f'to_string(function_exists("{n}"))', f'fc("{n}")', f'prf(site_{n}_i)', f'prf(site_{n}_s)']
    for g in GN:
        ex.append(f'pr("{g}")')
    for t in TN:
        ex.append(f'pr("type(\\"{t}\\", false).is_type_undef()")')
        # the other direction: from an object of the type to its registered name
        ex.append(f'pr("type_name({t.lower()}_obj) == \\"{t}\\"")')
        ex.append(f'pr("{t.lower()}_obj.is_type(\\"{t}\\")")')
    ex += ['pr("K().kget()")', 'to_string(L0)']
    return "[" + ", ".join(ex) + "]"


def expected_probe(view):
    out = []
    for n in FN:
        f = view["fn"][n]
        i, s, c = f["int"], f["str"], f["cpp"]
        out += [str(i) if i else "E", str(i) if i else "E", str(s) if s else "E", str(s) if s else "E", str(c) if c else "E"]
        present = [x for x in (i, s, c) if x]
        out.append("true" if present else "false")
        if not present:
            out.append("-")
        elif len(present) >= 2:
            out.append(str(len(present)))
        else:
            out.append("1" if i else "0")   # a lone function with an arithmetic parameter is wrapped in a Dispatch_Function
        out += [str(i) if i else "E", str(s) if s else "E"]      # the persistent sites see what a freshly parsed call sees
    for g in GN:
        out.append(str(view["gl"][g]) if view["gl"][g] else "E")
    for t in TN:
        out.append("false" if view["ty"][t] else "true")
        out += ["true" if view["ty"][t] else "false"] * 2
    out.append(str(view["cls"]) if view["cls"] else "E")
    out.append("5")
    return out


def export(family, n, hist_len, shards, work, seed):
    from concurrent.futures import ThreadPoolExecutor

    def one(k):
        out = os.path.join(work, f"hist.{family}.{k}.ndjson")
        name = f"EngineStateExport_run_{os.getpid()}_{family}_{k}"
        with open(os.path.join(lib.SPEC, name + ".cfg"), "w") as f:
            f.write(CFG % (family, n, k, shards, hist_len))
        try:
            res = lib.tlc("EngineStateExport", name, workers=1, env={"OUT": out}, timeout=900, heap="3g", seed=seed * 100 + k)
        finally:
            os.unlink(os.path.join(lib.SPEC, name + ".cfg"))
        if not res.ok:
            raise lib.Infra(f"EngineState export failed: {res.violation}\n{res.output[-1500:]}")
        return lib.read_ndjson(out)

    recs = []
    with ThreadPoolExecutor(max_workers=shards) as ex:
        for r in ex.map(one, range(shards)):
            recs += r
    return recs


def to_case(rec, usedir, probe_after_set=True):
    steps = [{"op": "add_type_objs"}, {"op": "eval", "src": SETUP}]
    serial = 0
    snaps = 0
    plan = []   # (kind, index of the op step, index of the probe step)
    for op, exp in zip(rec["ops"], rec["expect"]):
        k, n, s = op["k"], op["n"], op["s"]
        nxt = serial + 1
        opstep = None
        if k == "def":
            if s == "cpp":
                steps.append({"op": "add_fn", "name": n, "k": nxt})
            else:
                steps.append({"op": "eval", "src": f"def {n}({'int' if s == 'int' else 'string'} x) {{ {nxt} }}; 0"})
            opstep = len(steps) - 1
            if exp["res"] == "ok":
                serial = nxt
        elif k == "global":
            steps.append({"op": "eval", "src": f"global {n} = {nxt}; 0"})
            opstep = len(steps) - 1
            serial = nxt
        elif k == "type":
            steps.append({"op": "add_type", "name": n})
            opstep = len(steps) - 1
        elif k == "class":
            steps.append({"op": "eval", "src": f"class K {{ def K() {{ }}; def kget() {{ {nxt} }} }}; 0"})
            opstep = len(steps) - 1
            if exp["res"] == "ok":
                serial = nxt
        elif k == "use":
            steps.append({"op": "fault", "at": -1})      # resets the callback counter
            steps.append({"op": "use", "path": f"{n}.chai"})
            opstep = len(steps) - 1
        elif k == "get":
            if exp["res"] == "ok":
                snaps += 1
                steps.append({"op": "get_state", "slot": snaps})
        elif k == "set":
            if exp["res"] == "ok":
                steps.append({"op": "set_state", "slot": int(s)})
        if k == "set" and not probe_after_set:
            plan.append((k, opstep, None))         # no look in between: a call site that is not run keeps what it remembered
            continue
        steps.append({"op": "eval", "src": probe_src()})
        plan.append((k, opstep, len(steps) - 1))
    return {"id": str(rec["id"]), "to": 60, "usepaths": [usedir + "/"], "steps": steps}, plan


def hist_key(rec, upto):
    return "hist:" + ";".join(f"{o['k']}{('.' + o['n']) if o['n'] else ''}{('.' + o['s']) if o['s'] else ''}" for o in rec["ops"][:upto + 1])


def run(ck, tier, seed):
    quick = tier == "quick"
    res = lib.tlc("EngineState", "EngineState" if quick else "EngineState_thorough", timeout=3000, heap="16g")
    ck.add_tlc("EngineState", res)
    if not res.ok:
        ck.violation("model", f"EngineState violates {res.violation}", lib.tlc_trace_text(res))
    res = lib.tlc("EngineState", "EngineState_inplace", timeout=300)
    if res.ok:
        raise lib.Infra("sanity: in-place add_function must violate SnapshotsImmutable in the model")
    ck.notes.append(f"sanity: the model with in-place mutation of the overload vector violates {res.violation} (expected)")

    work = lib.scratch("c15")
    usedir = os.path.join(work, "use")
    os.makedirs(usedir)
    for f in FILES:
        with open(os.path.join(usedir, f + ".chai"), "w") as fh:
            fh.write("cb(1)\n")
    recs = export("small", 0, 0, 8, work, seed)
    if quick:
        import random
        recs = random.Random(seed).sample(recs, 1500)
    recs += export("random", 400 if quick else 5000, 8, 8, work, seed)
    timelines = export("timelines", 0, 0, 4, work, seed)
    for r in timelines:
        r["id"] += 50000000
    tl_ids = {str(r["id"]) for r in timelines}
    recs += timelines
    vdrive = lib.build("vdrive", "plain")
    cases, plans, byid = [], {}, {}
    for r in recs:
        c, plan = to_case(r, usedir, probe_after_set=str(r["id"]) not in tl_ids)
        cases.append(c)
        plans[c["id"]] = plan
        byid[c["id"]] = r
    obs, _ = lib.run_driver(vdrive, cases, work, tag="c15")
    for cid, o in obs.items():
        rec, plan = byid[cid], plans[cid]
        ck.evaluations += 1
        if "died" in o:
            ck.violation(hist_key(rec, len(rec["ops"])), f"process died ({o['died']})", {"history": rec["ops"]})
            continue
        st = o["steps"]
        for i, ((k, opstep, probe), exp) in enumerate(zip(plan, rec["expect"])):
            bad = None
            if opstep is not None:
                r = st[opstep]
                if k == "use":
                    ran = r.get("cb", 0) == 1
                    if r["oc"] != "val" or ran != (exp["res"] == "ran"):
                        bad = f"use() {'evaluated' if ran else 'did not evaluate'} the file (outcome {r['oc']}), model says {exp['res']}"
                else:
                    ok = r["oc"] == "val"
                    if ok != (exp["res"] == "ok"):
                        bad = f"operation outcome {r['oc']} ({r.get('why') or r.get('ex')}), model says {exp['res']}"
            if probe is None:
                if bad:
                    ck.violation(hist_key(rec, i), f"after step {i + 1} ({k}): {bad}", {"history": rec["ops"]})
                    break
                continue
            p = st[probe]
            want = expected_probe(exp["view"])
            got = None
            if p["oc"] == "val":
                got = [x[8:-1] if x.startswith('string:"') else x for x in split_vec(p["v"])]
            if bad is None and got != want:
                bad = f"visible environment {got} differs from the model's {want}"
            ck.nontrivial.add(tuple(want))
            if bad:
                ck.violation(hist_key(rec, i), f"after step {i + 1} ({k}): {bad}",
                             {"history": rec["ops"], "step": i + 1, "expected": exp, "observed": [st[opstep] if opstep is not None else None, p],
                              "probe": "f(1), (1).f(), f(s), s.f(), f(), function_exists, contained, persistent sites (1).f() / s.f(); same for g; ga, gb; TA undef?, TB undef?; K().kget(); L0"})
                break
    ck.exhaustive = not quick
    ck.rule = ("all 4913 histories of length 3 over 17 operations (a seeded 1500 in quick) plus seeded random histories of length 8, plus 304 diverged-timeline histories (get; defs; set; other defs - not probed right after set_state), expected "
               "visible environment computed by TLC after every step; distinct = distinct expected probe vectors")
    ck.sample({"history": recs[0]["ops"], "expected_after_last_step": recs[0]["expect"][-1]})
    ck.sample({"history": recs[-1]["ops"]})
    ck.assumptions += ["the probe script observes functions through plain calls (m_boxed_functions), member calls (m_functions) and "
                       "get_functions() (m_function_objects), globals, type names, a class, and a top-level local"]
    lib.rm(work)


def split_vec(v):
    # "[string:\"1\", string:\"E\"]" -> items
    v = v.strip()[1:-1]
    return [x.strip() for x in v.split(", ")] if v else []
