"""C13 - one engine may be used from many threads at once.
M: Threads.tla - locks, shared tables, use() protocol, per-thread type cache; all interleavings of 2-3
   threads at critical-section grain; mutants of the design (dropped lock, no outer use mutex, unlocked cache
   refresh) must fail; progress under fairness.
V: traced stress runs of the real engine (H3 lock events, H4 access markers, sequence numbers taken inside the
   critical sections) validated by TLC against the lock discipline and data laws (ThreadsTrace.tla); the same
   driver built with ThreadSanitizer observes unhooked accesses."""
import json
import os
import re
import subprocess
from concurrent.futures import ThreadPoolExecutor

from .. import lib

MODELS = [("Threads_A", True), ("Threads_B", True), ("Threads_C", True), ("Threads_A_live", True),
          ("Threads_A_nolock", False), ("Threads_A_nouse", False), ("Threads_B_nocache", False)]


def run(ck, tier, seed):
    quick = tier == "quick"
    for cfg, should_hold in MODELS + ([] if quick else [("Threads_D", True)]):
        res = lib.tlc("Threads", cfg, timeout=2400, deadlock=True, heap="12g")
        if should_hold:
            ck.add_tlc(cfg, res)
            if not res.ok:
                ck.violation(f"model:{cfg}", f"Threads design violates {res.violation}", lib.tlc_trace_text(res))
        elif res.ok:
            raise lib.Infra(f"sanity: mutant configuration {cfg} must violate an invariant, it did not")
        else:
            ck.notes.append(f"sanity: {cfg} violates {res.violation} (expected)")

    plain, tsan = lib.build_many([("vd_threads", "plain"), ("vd_threads", "tsan")])
    work = lib.scratch("c13")
    usefile = os.path.join(work, "shared_use.chai")
    with open(usefile, "w") as f:
        f.write("use_file_evaluated()\n")
    runs = []
    nthreads = [2, 4, 8] if quick else [2, 3, 4, 8, 12, 16]
    reps = 4 if quick else 12
    for nt in nthreads:
        for r in range(reps):
            runs.append((nt, seed * 1000 + nt * 50 + r, 40 if quick else 80, (r % 2) == 1))

    def one(spec):
        nt, sd, nops, yld = spec
        out = os.path.join(work, f"run_{nt}_{sd}.json")
        tr = os.path.join(work, f"trace_{nt}_{sd}.ndjson")
        cmd = ["timeout", "600", plain, out, tr, str(sd), str(nt), str(nops), usefile] + (["yield"] if yld else [])
        p = subprocess.run(cmd, capture_output=True, text=True)
        return spec, p.returncode, out, tr, p.stderr[-2000:]

    results = []
    with ThreadPoolExecutor(max_workers=4) as ex:
        results = list(ex.map(one, runs))
    traces = []
    for spec, rc, out, tr, err in results:
        ck.evaluations += 1
        if rc != 0:
            what = "timed out (deadlock?)" if rc == 124 else f"died (exit {rc})"
            ck.violation(f"stress:{'timeout' if rc == 124 else 'died'}", f"stress run threads={spec[0]} seed={spec[1]} {what}: {err[-300:]}",
                         {"threads": spec[0], "seed": spec[1], "stderr": err})
            continue
        o = json.load(open(out))
        ck.nontrivial.add((spec[0], o["events"] // 100, o["published"]))
        for f in o["failures"]:
            kind = f.split(":")[0]
            ck.violation(f"stress:{kind}", f"threads={spec[0]} seed={spec[1]}: {f}", {"threads": spec[0], "seed": spec[1], "failures": o["failures"]})
        traces.append((spec, tr))

    def validate(item):
        spec, tr = item
        res = lib.tlc("ThreadsTrace", workers=1, env={"TRACE": tr}, timeout=900, heap="4g", tag=f"tt{spec[0]}_{spec[1]}")
        return spec, tr, res

    with ThreadPoolExecutor(max_workers=8) as ex:
        for spec, tr, res in ex.map(validate, traces):
            ck.add_tlc(f"ThreadsTrace:{spec[0]}thr:seed{spec[1]}", res)
            ck.traces += 1
            if not res.ok:
                m = re.search(r'"REJECTED_AT",\s*(\d+),\s*(\[.*?\])\s*>>', res.output, re.S)
                evt = re.sub(r"\s+", " ", m.group(2)) if m else str(res.violation)
                ek = re.search(r'e \|-> "([^"]+)"', evt)
                nk = re.search(r'n \|-> "([^"]*)"', evt)
                ck.violation(f"trace:{ek.group(1) if ek else '?'}:{nk.group(1) if nk else ''}",
                             f"recorded execution breaks the lock discipline / data laws: event {evt} rejected (threads={spec[0]} seed={spec[1]})",
                             {"threads": spec[0], "seed": spec[1], "rejected_event": evt,
                              "context": context(tr, int(m.group(1)) if m else 0)})
    # ThreadSanitizer as an observer of unhooked accesses
    tsan_runs = [(4, seed * 77 + i, 30, i % 2 == 1) for i in range(2 if quick else 8)] + ([] if quick else [(16, seed * 77 + 99, 40, True)])

    def one_tsan(spec):
        nt, sd, nops, yld = spec
        out = os.path.join(work, f"tsan_{nt}_{sd}.json")
        tr = os.path.join(work, f"tsan_trace_{nt}_{sd}.ndjson")
        env = dict(os.environ, TSAN_OPTIONS="halt_on_error=0:exitcode=66:second_deadlock_stack=1")
        p = subprocess.run(["timeout", "900", tsan, out, tr, str(sd), str(nt), str(nops), usefile] + (["yield"] if yld else []),
                           capture_output=True, text=True, env=env)
        return spec, p.returncode, p.stderr

    with ThreadPoolExecutor(max_workers=2) as ex:
        for spec, rc, err in ex.map(one_tsan, tsan_runs):
            ck.evaluations += 1
            if "WARNING: ThreadSanitizer" in err:
                m = re.search(r"WARNING: ThreadSanitizer: ([^\n(]*)", err)
                fn = re.findall(r"#\d+ (chaiscript::[\w:<>~]+)", err)
                ck.violation(f"tsan:{m.group(1).strip() if m else 'report'}:{fn[0] if fn else ''}",
                             f"ThreadSanitizer report on a stress run (threads={spec[0]} seed={spec[1]}): {m.group(1) if m else ''}",
                             {"threads": spec[0], "seed": spec[1], "report": err[:6000]})
            elif rc != 0:
                ck.violation("tsan:died", f"TSan stress run exit {rc} (threads={spec[0]} seed={spec[1]})", {"stderr": err[-3000:]})
    ck.extra["stress_runs"] = len(runs)
    ck.extra["tsan_runs"] = len(tsan_runs)
    ck.extra["trace_events"] = sum(sum(1 for _ in open(t)) for _, t in traces)
    ck.rule = ("seeded stress runs of one engine with 2..16 threads (mix of shared calls, definitions, overloads on one shared name, globals, "
               "classes, conversions, same-named locals, use() of one file, get_state), half of them with yields injected at lock "
               "acquisition; distinct = (threads, events/100, registrations) tuples")
    ck.sample({"threads": runs[0][0], "seed": runs[0][1], "ops_per_thread": runs[0][2], "first_events": context(traces[0][1], 6) if traces else []})
    ck.assumptions += ["only accesses carrying an H4 marker are checked against the lockset; ThreadSanitizer observes the rest on the runs made",
                       "schedules are sampled (stress + injected yields), interleavings are exhaustive only in the TLA+ model"]
    lib.rm(work)


def context(trace, line, n=8):
    out = []
    with open(trace) as f:
        for i, l in enumerate(f, 1):
            if i > line:
                break
            if i > line - n:
                out.append(l.strip())
    return out
