"""C03 - core language semantics match the documented (C++-like) model.
G: ChaiCore.tla is the independent reference interpreter.  A seeded grammar-directed generator (gen/coregen.py) draws
   programs (expressions with C precedence, short-circuit, ternary, scoping/shadowing, value copies vs aliasing through
   references, parameters and captures, if/else-if/else, while/for/ranged-for with break/continue, switch with
   fall-through, functions with typed parameters, guards, early return, lambdas, classes, vectors, maps); TLC evaluates
   each program with the reference and the driver runs it in the real engine with both parsers; printed output, final
   value and error class must agree.
M: the reference keeps its own scope discipline on every program (Balanced)."""
import os
from concurrent.futures import ThreadPoolExecutor

from .. import coregen, lib


def reference(progs, work, tag, shards=8):
    """progs: list of {"id", "prog"} -> {id: expect} computed by TLC (ChaiCore.tla)"""
    def one(k):
        part = progs[k::shards]
        if not part:
            return []
        inp, out = os.path.join(work, f"{tag}.in.{k}.ndjson"), os.path.join(work, f"{tag}.out.{k}.ndjson")
        lib.write_ndjson(inp, part)
        res = lib.tlc("ChaiCoreExport", workers=1, env={"IN": inp, "OUT": out}, timeout=2400, heap="4g", tag=f"core{tag}{k}")
        if not res.ok:
            raise lib.Infra(f"ChaiCore evaluation failed: {res.violation}\n{res.output[-2500:]}")
        return lib.read_ndjson(out)

    exp = {}
    with ThreadPoolExecutor(max_workers=shards) as ex:
        for rs in ex.map(one, range(shards)):
            for r in rs:
                exp[r["id"]] = r["expect"]
    return exp


def observed(step):
    oc = step["oc"]
    v = ""
    if oc == "val" and step.get("v"):
        rv = step["v"]
        if rv.startswith("string:"):
            v = "string:" + rv[8:-1]
        elif rv.split(":")[0] in ("int", "bool", "long", "ulong", "uint"):
            v = ("int:" if rv.split(":")[0] != "bool" else "bool:") + rv.split(":", 1)[1]
    if oc == "bv" and step.get("v"):
        rv = step["v"]          # a script value left eval uncaught
        if rv.startswith("string:"):
            v = "string:" + rv[8:-1]
        elif rv.split(":")[0] in ("int", "bool"):
            v = rv
    return {"oc": oc if oc in ("val", "ee", "bv") else "ex", "out": step["out"], "v": v}


def compare(ck, pid, text, exp, o, parser, key=None):
    if "died" in o:
        ck.violation(f"died:{pid}", f"process died ({o['died']}) [{parser}] on: {text[:300]}", {"program": text})
        return False
    got = observed(o["steps"][0])
    want = {"oc": exp["oc"], "out": exp["out"], "v": exp["v"] if exp["oc"] in ("val", "bv") else ""}
    if want["oc"] in ("val", "bv") and want["v"] == "":
        got["v"] = ""      # the reference does not predict a value (void / container): only outcome and output are compared
    if got != want:
        ck.violation(key or f"prog:{pid}:{parser}", f"[{parser}] engine printed {got['out']} -> {got['oc']} {got['v']}; reference interpreter: {want['out']} -> {want['oc']} {want['v']}; program: {text[:500]}",
                     {"program": text, "parser": parser, "expected": want, "observed": got, "why": o["steps"][0].get("why")})
        return False
    return True


ID = lambda n: {"k": "id", "n": n}
S = lambda v: {"k": "str", "v": v}
# hand-written programs (as ASTs, evaluated by the reference like every other program) for recorded findings
FIXED = {
    "known:return-value-flag-on-parameter": [
        {"k": "def", "n": "keep", "params": [{"n": "p", "ty": ""}], "guarded": False, "guard": {"k": "bool", "v": True},
         "b": [{"k": "var", "n": "t", "e": ID("p")}, {"k": "casg", "op": "+=", "bop": "+", "l": ID("t"), "e": S("x")}, {"k": "expr", "e": ID("p")}]},
        {"k": "out", "e": {"k": "call", "f": "keep", "a": [{"k": "bin", "op": "+", "l": S("a"), "r": S("b")}]}},
        {"k": "var", "n": "named", "e": S("ab")},
        {"k": "out", "e": {"k": "call", "f": "keep", "a": [ID("named")]}},
        {"k": "expr", "e": {"k": "int", "v": 0}}],
}
# the variable of a ranged for is a fresh binding per iteration: a closure that captured it keeps ITS element, read and written
_I = lambda v: {"k": "int", "v": v}
_lam = lambda caps, body: {"k": "lambda", "caps": caps, "params": [{"n": "q", "ty": ""}], "b": body}
_call = lambda f, *a: {"k": "call", "f": f, "a": list(a)}
_add = lambda l, r: {"k": "bin", "op": "+", "l": l, "r": r}
_if = lambda c, t: {"k": "if", "c": c, "t": t, "ei": [], "haselse": False, "f": []}
FIXED["fixed:ranged-for-variable-captured-read"] = [
    {"k": "var", "n": "g", "e": _lam([], [{"k": "expr", "e": ID("q")}])},
    {"k": "var", "n": "first", "e": {"k": "bool", "v": True}},
    {"k": "rfor", "n": "x", "e": {"k": "vec", "a": [_I(7), _I(8), _I(9)]},
     "b": [_if(ID("first"), [{"k": "asg", "l": ID("g"), "e": _lam(["x"], [{"k": "expr", "e": _add(ID("x"), ID("q"))}])},
                             {"k": "asg", "l": ID("first"), "e": {"k": "bool", "v": False}}]),
           {"k": "out", "e": _call("g", _I(0))}]},
    {"k": "out", "e": _call("g", _I(100))},
    {"k": "expr", "e": _I(0)}]
FIXED["fixed:ranged-for-variable-captured-write"] = [
    {"k": "var", "n": "v", "e": {"k": "vec", "a": [_I(1), _I(2), _I(3)]}},
    {"k": "var", "n": "g", "e": _lam([], [{"k": "expr", "e": ID("q")}])},
    {"k": "var", "n": "n", "e": _I(0)},
    {"k": "rfor", "n": "x", "e": ID("v"),
     "b": [_if({"k": "bin", "op": "==", "l": ID("n"), "r": _I(0)}, [{"k": "asg", "l": ID("g"), "e": _lam(["x"], [{"k": "asg", "l": ID("x"), "e": ID("q")}, {"k": "expr", "e": ID("x")}])}]),
           {"k": "asg", "l": ID("n"), "e": _add(ID("n"), _I(1))}]},
    {"k": "out", "e": _call("g", _I(100))},
    {"k": "out", "e": ID("v")},
    {"k": "expr", "e": _I(0)}]
FIXED["fixed:ranged-for-variable-captured-middle"] = [
    {"k": "var", "n": "g", "e": _lam([], [{"k": "expr", "e": ID("q")}])},
    {"k": "var", "n": "n", "e": _I(0)},
    {"k": "rfor", "n": "x", "e": {"k": "vec", "a": [_I(10), _I(20), _I(30), _I(40)]},
     "b": [{"k": "asg", "l": ID("n"), "e": _add(ID("n"), _I(1))},
           _if({"k": "bin", "op": "==", "l": ID("n"), "r": _I(2)}, [{"k": "asg", "l": ID("g"), "e": _lam(["x", "n"], [{"k": "expr", "e": _add(_add(ID("x"), ID("n")), ID("q"))}])}]),
           {"k": "out", "e": _call("g", _I(0))}]},
    {"k": "out", "e": _call("g", _I(1000))},
    {"k": "expr", "e": _I(0)}]


def run(ck, tier, seed):
    quick = tier == "quick"
    work = lib.scratch("c03")
    g = coregen.G(seed)
    progs = []
    for i in range(1500 if quick else 20000):
        progs.append({"id": i, "prog": g.program()})
    fixed_ids = {}
    for key, prog in FIXED.items():
        fixed_ids[len(progs)] = key
        progs.append({"id": len(progs), "prog": prog})
    exp = reference(progs, work, "c03", shards=12)
    progs = [p for p in progs if exp[p["id"]]["oc"] != "fuel"]
    cases = []
    for p in progs:
        text = coregen.program_text(p["prog"])
        p["text"] = text
        for parser in ("opt", "noopt"):
            cases.append({"id": f"{p['id']}.{parser}", "p": parser, "to": 20, "steps": [{"op": "eval", "src": text}]})
    vdrive = lib.build("vdrive", "plain")
    obs, _ = lib.run_driver(vdrive, cases, work, tag="c03")
    unbalanced = 0
    for p in progs:
        e = exp[p["id"]]
        ck.evaluations += 1
        ck.nontrivial.add((e["oc"], len(e["out"]), e["v"][:8]))
        if not e["balanced"]:
            unbalanced += 1
        for parser in ("opt", "noopt"):
            compare(ck, p["id"], p["text"], e, obs[f"{p['id']}.{parser}"], parser, key=fixed_ids.get(p["id"]))
    if unbalanced:
        ck.violation("reference-unbalanced", f"the reference interpreter left its scope stack unbalanced on {unbalanced} programs", None)
    ck.states += len(progs)
    ck.transitions += len(progs)
    ck.extra["programs"] = len(progs)
    ck.extra["programs_failing_by_design"] = sum(1 for p in progs if exp[p["id"]]["oc"] != "val")
    ck.rule = "seeded programs from gen/coregen.py, each run with the optimizing and the unoptimized parser; distinct = (outcome, #output lines, value prefix)"
    ck.sample({"program": progs[0]["text"], "expected": exp[progs[0]["id"]]})
    ck.sample({"program": progs[1]["text"], "expected": exp[progs[1]["id"]]})
    ck.assumptions += ["the reference covers the constructs listed in spec/ChaiCore.tla; string ordering, floating point, try/catch (C10) and containers beyond "
                       "vector/map basics are not generated", "trusted: the printer in gen/coregen.py"]
    lib.rm(work)
