"""C05 - script arithmetic is C++ arithmetic; trapping operations raise arithmetic_error.
M: Arith.tla - promotion / usual arithmetic conversions / result class / in-place / trap predicate; table laws by TLC.
G: every cell (operator x 12 operand kinds x 12 x boundary value classes) replayed by four routes; result class, value and
   in-place update compared with native C++ arithmetic on the same types (computed without UB in __int128); the table of
   the specification is itself compared with decltype; SIGFPE or any crash is an observation."""
import json
import os
import re
import subprocess

from .. import lib


def run(ck, tier, seed):
    quick = tier == "quick"
    suffix = "" if quick else "_thorough"
    res = lib.tlc("ArithM", "ArithM" + suffix, workers=1, timeout=1200, heap="8g")
    ck.add_tlc("ArithM (Laws)", res)
    m = re.search(r'<<"cells", (\d+)>>', res.output)
    if m:
        ck.states += int(m.group(1))
        ck.transitions += int(m.group(1))
    if not res.ok:
        ck.violation("model", f"Arith table violates its laws: {res.violation}", res.output[-2000:])
    work = lib.scratch("c05")
    cells = os.path.join(work, "cells.ndjson")
    r = lib.tlc("ArithExport", "ArithExport" + suffix, workers=1, timeout=1800, env={"OUT": cells}, heap="12g")
    if not r.ok:
        raise lib.Infra("Arith export failed " + r.output[-1500:])
    drv = lib.build("vd_arith", "plain")
    shards = 16
    procs = []
    for k in range(shards):
        out = os.path.join(work, f"out.{k}.ndjson")
        procs.append((subprocess.Popen(["timeout", "3000", drv, "run", cells, out, "--shard", f"{k}/{shards}"], stderr=subprocess.PIPE, text=True), out))
    tot = {"cells": 0, "evals": 0, "excluded": 0, "traps": 0, "invalid": 0, "spec_table_mismatch": 0}
    spec_bad = ""
    for p, out in procs:
        _, err = p.communicate()
        if p.returncode != 0:
            raise lib.Infra(f"vd_arith exited {p.returncode}: {err[-2000:]}")
        last = None
        for line in open(out):
            d = json.loads(line)
            if "stats" in d:
                last = d["stats"]
                continue
            if last is not None and ("died" in d or "bad" in d):
                pass
            if "died" in d:
                if last:
                    for k2 in tot:
                        tot[k2] += last[k2]
                    spec_bad = spec_bad or last["spec_bad"]
                    last = None
                c = d["cell"]
                ck.violation(f"died:{c['op']}:{c['lt']}:{c['rt']}:{c['lv']}:{c['rv']}",
                             f"process killed ({d['died']}) by `a {c['op']} b` with a = {c['lv']} of {c['lt']}, b = {c['rv']} of {c['rt']}"
                             + (" (a trapping operation must raise an exception)" if c.get("trap") else ""), d)
            elif "bad" in d:
                b = d["bad"]
                ck.violation(f"{b['op']}:{b['lt']}:{b['rt']}:{b['lv']}:{b['rv']}:{b['route']}",
                             f"`{b['expr']}` (a = {b['lv']} of {b['lt']}, b = {b['rv']} of {b['rt']}, route {b['route']}): {b['what']}", b)
        if last:
            for k2 in tot:
                tot[k2] += last[k2]
            spec_bad = spec_bad or last["spec_bad"]
    if tot["spec_table_mismatch"]:
        raise lib.Infra(f"the specification's typing/trap table disagrees with the compiler on {tot['spec_table_mismatch']} cells, e.g. {spec_bad}")
    ck.evaluations += tot["evals"]
    ck.exhaustive = True
    ck.extra.update({"cells": tot["cells"], "cells_excluded_undefined": tot["excluded"], "cells_trapping": tot["traps"], "cells_invalid_in_cpp": tot["invalid"]})
    for l in open(cells):
        c = json.loads(l)
        ck.nontrivial.add((c["op"], c["cls"], c["trap"]))
        if len(ck.samples) < 3 and c["trap"]:
            ck.sample(c)
    ck.rule = ("all (operator, left kind, right kind, left value class, right value class) cells over 30 binary + 5 unary operators, 12 operand "
               "kinds and %d boundary value classes, each by the routes runtime node / operator-as-function / right-constant fold / constant fold "
               "(the last two where literals exist); distinct = (operator, result class, trap) triples" % (5 if quick else 9))
    ck.assumptions += ["values are computed natively (TLC decides classes and traps only); cells whose C++ result is undefined and does not trap are excluded, "
                       "as the property says; NaN/inf value classes are reached through the float boundary values only"]
    lib.rm(work)
