"""C17 - prelude algorithms compute what their names say.
M: Prelude.tla - functional definitions; the range-cursor loop models of take/drop/zip_with refine them and the
   algebraic laws (take ++ drop = id, reverse . reverse = id, ...) hold on every vector inside the bound.
G: every case (function x input vector x callback of the menu x numeric argument class) exported with expected
   result, callback trace and unchanged input, replayed through the real prelude."""
import json
import os
import re

from .. import lib

PRED = {"gt0": "x > 0", "true": "true", "false": "false", "odd": "x % 2 != 0"}
F1 = {"inc": "x + 1", "neg": "-x"}
F2 = {"add": "a + b", "sub": "a - b", "first": "a"}


def vec(s):
    return "[" + ", ".join(str(x) if x >= 0 else f"({x})" for x in s) + "]" if s else "Vector()"


def rvec(s):
    return "[" + ", ".join(f"int:{x}" for x in s) + "]"


def script(c):
    fn, a, b, n, cb = c["fn"], c["a"], c["b"], c["n"], c["cb"]
    pre = f"var inp = {vec(a)}; var inp2 = {vec(b)}; var calls = Vector(); "
    p1 = lambda body: f"fun[calls](x) {{ calls.push_back([x]); {body} }}"
    p2 = lambda body: f"fun[calls](a, b) {{ calls.push_back([a, b]); {body} }}"
    call = {
        "for_each": lambda: f"for_each(inp, {p1('0')})",
        "map": lambda: f"map(inp, {p1(F1[cb])})",
        "filter": lambda: f"filter(inp, {p1(PRED[cb])})",
        "any_of": lambda: f"any_of(inp, {p1(PRED[cb])})",
        "all_of": lambda: f"all_of(inp, {p1(PRED[cb])})",
        "take_while": lambda: f"take_while(inp, {p1(PRED[cb])})",
        "drop_while": lambda: f"drop_while(inp, {p1(PRED[cb])})",
        "foldl": lambda: f"foldl(inp, {p2(F2[cb])}, {n})",
        "reduce": lambda: f"reduce(inp, {p2(F2[cb])})",
        "sum": lambda: "sum(inp)", "product": lambda: "product(inp)",
        "contains": lambda: f"contains(inp, {n})",
        "take": lambda: f"take(inp, {n})", "drop": lambda: f"drop(inp, {n})",
        "concat": lambda: "concat(inp, inp2)", "zip": lambda: "zip(inp, inp2)",
        "zip_with": lambda: f"zip_with({p2(F2[cb])}, inp, inp2)",
        "reverse": lambda: "reverse(inp)", "join": lambda: 'join(inp, "-")', "to_string": lambda: "to_string(inp)",
        "generate_range": lambda: f"generate_range({n}, {cb})", "min": lambda: f"min({n}, {cb})", "max": lambda: f"max({n}, {cb})",
        "odd": lambda: f"odd({n})", "even": lambda: f"even({n})",
    }[fn]()
    return pre + f"var res = {call}; [res, calls, inp, inp2]" if fn != "for_each" else pre + f"{call}; [0, calls, inp, inp2]"


def range_script(c):
    """the input is a range OBJECT held in a variable; afterwards it is drained to see what it still spans"""
    fn, a, b, n, cb, form = c["fn"], c["a"], c["b"], c["n"], c["cb"], c["form"]
    mk = {"range": "range(src)", "retro": "retro(range(src))", "range_of_range": "range(range(src))"}[form]
    pre = f"var src = {vec(a)}; var inp2 = {vec(b)}; var calls = Vector(); var inp = {mk}; "
    p1 = lambda body: f"fun[calls](x) {{ calls.push_back([x]); {body} }}"
    p2 = lambda body: f"fun[calls](a, b) {{ calls.push_back([a, b]); {body} }}"
    call = {
        "for_each": lambda: f"for_each(inp, {p1('0')}); 0",
        # the two-argument map builds `new(container)`, which a range is not: the inserter form is the one that accepts ranges
        "map": lambda: f"var out = Vector(); map(inp, {p1(F1[cb])}, back_inserter(out)); out",
        "any_of": lambda: f"any_of(inp, {p1(PRED[cb])})",
        "all_of": lambda: f"all_of(inp, {p1(PRED[cb])})",
        "foldl": lambda: f"foldl(inp, {p2(F2[cb])}, {n})",
        "sum": lambda: "sum(inp)", "product": lambda: "product(inp)",
        "contains": lambda: f"contains(inp, {n})",
        "zip": lambda: "zip(inp, inp2)",
        "zip_with": lambda: f"zip_with({p2(F2[cb])}, inp, inp2)",
        "join": lambda: 'join(inp, "-")',
    }[fn]()
    drain = "var rest = Vector(); while (!inp.empty()) { rest.push_back(inp.front()); inp.pop_front() }; "
    return pre + f"var res = fun[inp, inp2, calls]() {{ {call} }}(); " + drain + "[res, calls, rest, src]"


def range_expected(c):
    c2 = dict(c)
    c2["b"] = c["a"]            # slot 4 of the result is the source vector
    c2["a"] = c["rest"]         # slot 3 is what the caller's range still spans
    return expected(c2)


def str_script(c):
    lit = lambda x: json.dumps(x)
    if c["fn"] == "join_ints":
        v = "[" + ", ".join(f"({x})" for x in c["a"]) + "]" if c["a"] else "Vector()"
        return f"join({v}, {lit(c['d'])})"
    v = "[" + ", ".join(lit(x) for x in c["a"]) + "]" if c["a"] else "Vector()"
    return f"join({v}, {lit(c['d'])})" if c["fn"] == "join" else f"to_string({v})"


CH = {"T": "\\t"}


def chars(a):
    return "".join(CH.get(x, x) for x in a)


def extra_script(fam, c):
    fn, a, n = c["fn"], c["a"], c["n"]
    if fam == "c":
        lit = '"' + chars(a) + '"'
        ws = "fun(x) { x == ' ' || x == '\\t' }"
        collect = lambda rng: f"var o = \"\"; var r = {rng}; while (!r.empty()) {{ o.push_back(r.front()); r.pop_front() }}; o"
        return {"ltrim": f"{lit}.ltrim()", "rtrim": f"{lit}.rtrim()", "trim": f"{lit}.trim()", "reverse": f"reverse({lit})",
                "retro": collect(f"retro(range({lit}))"), "retro_retro": collect(f"retro(retro(range({lit})))"),
                "take_while_ws": f"take_while({lit}, {ws})", "drop_while_ws": f"drop_while({lit}, {ws})",
                "filter_nows": f"filter({lit}, fun(x) {{ !(x == ' ' || x == '\\t') }})", "concat_self": f"concat({lit}, {lit})", "new": f"new({lit})",
                "take": f"take({lit}, {n})", "drop": f"drop({lit}, {n})"}[fn]
    v = vec(a)
    collect = lambda rng: f"var inp = {v}; var o = Vector(); var r = {rng}; while (!r.empty()) {{ o.push_back(r.front()); r.pop_front() }}; o"
    return {"retro": collect("retro(range(inp))"), "retro_retro": collect("retro(retro(range(inp)))"), "find": collect(f"find(inp, {n})"),
            "collate": f"collate({a[0] if a[0] >= 0 else '(' + str(a[0]) + ')'}, {a[1] if a[1] >= 0 else '(' + str(a[1]) + ')'})" if fn == "collate" else "",
            "new": f"new({v})"}[fn]


def extra_expected(fam, c):
    if fam == "c":
        return "string:" + json.dumps("".join("\t" if x == "T" else x for x in c["exp"])).replace("\\t", "\\u0009")   # the harness renders control characters as \u00XX
    return rvec(c["exp"])


def expected(c):
    e = c["exp"]
    t = e["t"]
    if t == "throw":
        return None
    if t == "void":
        r = "int:0"
    elif t == "vec":
        r = rvec(e["s"])
    elif t == "vecs":
        r = "[" + ", ".join(rvec(p) for p in e["p"]) + "]"
    elif t == "int":
        r = f"int:{e['i']}"
    elif t == "double":
        r = f"double:{e['i']}"
    elif t == "bool":
        r = "bool:true" if e["i"] else "bool:false"
    elif t == "join":
        r = 'string:"' + "-".join(map(str, e["s"])) + '"'
    elif t == "tostr":
        r = 'string:"[' + ", ".join(map(str, e["s"])) + ']"'
    calls = "[" + ", ".join(rvec(x) for x in e["calls"]) + "]"
    return f"[{r}, {calls}, {rvec(c['a'])}, {rvec(c['b'])}]"


def run(ck, tier, seed):
    quick = tier == "quick"
    suffix = "" if quick else "_thorough"
    res = lib.tlc("PreludeM", "PreludeM" + suffix, workers=1, timeout=1200)
    ck.add_tlc("PreludeM (LoopRefinesSpec, Laws)", res)
    m = re.search(r'<<"cases", (\d+)>>', res.output)
    if m:
        ck.states += int(m.group(1))
        ck.transitions += int(m.group(1))
    if not res.ok:
        ck.violation("model", f"Prelude specification inconsistent: {res.violation}", res.output[-2000:])
    work = lib.scratch("c17")
    res = lib.tlc("PreludePinned", "PreludePinned", workers=1, timeout=1200)
    if res.ok or "Assumption" not in (res.violation or ""):
        raise lib.Infra("sanity: with CloneRange = FALSE the model must violate InputRangeKept, it did not (vacuous law)")
    ck.notes.append("sanity: the model in which range(r) returns r itself violates InputRangeKept (expected)")
    o1, o2, o3, o4, o5, o6 = (os.path.join(work, x) for x in ("v.ndjson", "s.ndjson", "t.ndjson", "c.ndjson", "m.ndjson", "r.ndjson"))
    r = lib.tlc("PreludeExport", "PreludeExport" + suffix, workers=1, timeout=1200, env={"OUT": o1, "OUT2": o2, "OUT3": o3, "OUT4": o4, "OUT5": o5, "OUT6": o6}, heap="6g")
    if not r.ok:
        raise lib.Infra("Prelude export failed")
    cs = lib.read_ndjson(o1) + lib.read_ndjson(o2)
    cases = [{"id": str(i), "to": 30, "steps": [{"op": "eval", "src": script(c)}]} for i, c in enumerate(cs)]
    strs = lib.read_ndjson(o3)
    for i, c in enumerate(strs):
        cases.append({"id": f"s{i}", "to": 30, "steps": [{"op": "eval", "src": str_script(c)}]})
    extra = [("c", c) for c in lib.read_ndjson(o4)] + [("m", c) for c in lib.read_ndjson(o5)]
    for i, (fam, c) in enumerate(extra):
        cases.append({"id": f"x{i}", "to": 30, "steps": [{"op": "eval", "src": extra_script(fam, c)}]})
    rcs = lib.read_ndjson(o6)
    for i, c in enumerate(rcs):
        cases.append({"id": f"r{i}", "to": 30, "steps": [{"op": "eval", "src": range_script(c)}]})
    vdrive = lib.build("vdrive", "plain")
    obs, _ = lib.run_driver(vdrive, cases, work, tag="c17")
    for i, c in enumerate(rcs):
        o = obs[f"r{i}"]
        ck.evaluations += 1
        ck.nontrivial.add((c["form"] + ":" + c["fn"], str(c["cb"]), len(c["a"]), c["exp"]["t"]))
        key = f"{c['fn']}({c['form']} of {vec(c['a'])}{',' + vec(c['b']) if c['b'] else ''},n={c['n']},cb={c['cb']})"
        st = o.get("steps", [{}])[0] if "died" not in o else {"oc": "died"}
        want = range_expected(c)
        if st.get("oc") != "val" or st.get("v", "").replace("double:-0,", "double:0,") != want:
            ck.violation(key, f"{range_script(c)} gave {st.get('v') or str(st.get('oc')) + ' ' + str(st.get('why'))}, specification [result, callback trace, what the range still spans, source] = {want}",
                         {"case": c, "script": range_script(c), "expected": want, "observed": st})
    ck.exhaustive = True
    for i, c in enumerate(cs):
        o = obs[str(i)]
        ck.evaluations += 1
        ck.nontrivial.add((c["fn"], str(c["cb"]), len(c["a"]), c["exp"]["t"]))
        key = f"{c['fn']}({vec(c['a'])}{',' + vec(c['b']) if c['b'] else ''},n={c['n']},cb={c['cb']})"
        if "died" in o:
            ck.violation(key, f"died/timeout ({o['died']}) evaluating {script(c)}", {"case": c})
            continue
        s = o["steps"][0]
        want = expected(c)
        if want is None:
            if s["oc"] == "val":
                ck.violation(key, f"{script(c)} returned {s.get('v')}, the specification says the call is rejected", {"case": c, "observed": s})
        elif s["oc"] != "val" or s["v"].replace("double:-0,", "double:0,") != want:   # -0.0 == 0.0 numerically
            ck.violation(key, f"{script(c)} gave {s.get('v') or s['oc'] + ' ' + str(s.get('why'))}, specification [result, callback trace, input, input2] = {want}",
                         {"case": c, "script": script(c), "expected": want, "observed": s})
    for i, c in enumerate(strs):
        o = obs[f"s{i}"]
        ck.evaluations += 1
        ck.nontrivial.add((c["fn"], c["d"], len(c["a"]), "text"))
        key = f"{c['fn']}({json.dumps(c['a'])},{json.dumps(c['d'])})"
        s = o.get("steps", [{}])[0] if "died" not in o else {"oc": "died"}
        want = "string:" + json.dumps(c["exp"])
        if s.get("oc") != "val" or s.get("v") != want:
            ck.violation(key, f"{str_script(c)} gave {s.get('v') or s.get('oc')}, the specification says {want}", {"case": c, "observed": s})
    for i, (fam, c) in enumerate(extra):
        o = obs[f"x{i}"]
        ck.evaluations += 1
        ck.nontrivial.add((fam + ":" + c["fn"], len(c["a"]), len(c["exp"])))
        key = f"{c['fn']}({json.dumps(c['a'])},n={c['n']})"
        st = o.get("steps", [{}])[0] if "died" not in o else {"oc": "died"}
        want = extra_expected(fam, c)
        if st.get("oc") != "val" or st.get("v") != want:
            ck.violation(key, f"{extra_script(fam, c)} gave {st.get('v') or st.get('oc')}, the specification says {want}", {"case": c, "observed": st})
    ck.rule = ("all vectors of length 0..%d over {-1,0,1,2} x callbacks {gt0,true,false,odd | inc,neg | add,sub,first} x numeric arguments "
               "{-1,0,1,size,size+1}; scalars -5..5; distinct = (function, callback, length, result kind)" % (3 if quick else 4))
    ck.sample({"script": script(cs[0]), "expected": expected(cs[0])})
    ck.sample({"script": script(cs[len(cs) // 2]), "expected": expected(cs[len(cs) // 2])})
    ck.assumptions += ["range objects (range, retro, range of a range) as inputs of the algorithms that accept them, with the caller's range drained afterwards", "strings as containers (trim family, take/drop/filter/reverse/concat), retro, find, collate, new and string vectors for join/to_string are covered; map inputs, find and the trim helpers are not in the exported family yet"]
    lib.rm(work)
