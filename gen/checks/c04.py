"""C04 - a name resolves to its innermost live binding; lookup caches are invisible.
M: EvalStack.tla with the hint machine of get_object (policy "validated"), CacheInvisible in every state.
G: Layout.tla enumerates layout programs with by-name expected outputs; each is replayed into the real
   engine with lookup hints enabled and disabled; both must equal the reference.
V: every get_object of those runs is traced (H2) and TLC checks the resolution taken against by-name
   resolution in the reconstructed stack (EvalStackTrace.tla)."""
import os
import re
from concurrent.futures import ThreadPoolExecutor

from .. import lib
from . import c09


def val_of(path):
    return 10 + path


def print_body(body, path):
    parts = []
    for i, st in enumerate(body, 1):
        k = st["k"]
        if k == "D":
            parts.append(f"var {st['n']} = {val_of(path + i)}")
        elif k == "Y":
            parts.append(f"F{st['f']} && eval(\"var {st['n']} = {val_of(path + i)}; true\")")
        elif k == "S":
            parts.append(f"out(tier({st['n']}))")
        elif k == "B":
            parts.append("{ var z = 0; " + print_body(st["b"], path + 10 * i) + " }")
    return "; ".join(parts)


def to_case(rec, hints, trace):
    p = rec["prog"]
    # tier(): what a lookup site shows - the value, or 801/802 when the name resolved to the function of that name
    setup = ["global F1 = false; global F2 = false; def tier(int x) { x }; def tier(x) { x() }"]
    fundefs = [f"def {fn}() {{ {801 if fn == 'a' else 802} }}" for fn in sorted(p.get("funs", []))]
    for g in sorted(p["globals"]):
        setup.append(f"global {g} = {901 if g == 'a' else 902}")
    for c in sorted(p["caps"]):
        setup.append(f"var {c} = {701 if c == 'a' else 702}")
    caps = "[" + ", ".join(sorted(p["caps"])) + "]" if p["caps"] else ""
    params = "p" if p["nparams"] else ""
    setup.append(f"var L = fun{caps}({params}) {{ var z = 0; {print_body(p['body'], 0)} }}")
    setup.append("var o = Dynamic_Object(); o.f = L")
    # the lambda under test is a local (not part of the engine state); the functions of the names come after the snapshot
    steps = [{"op": "eval", "src": "; ".join(setup)}, {"op": "get_state", "slot": 1}]
    if fundefs:
        steps.append({"op": "eval", "src": "; ".join(fundefs) + "; 0"})
    arg = "555" if p["nparams"] else ""
    for c in rec["calls"]:
        fl = "; ".join(f"F{f} = {'true' if f in c['flags'] else 'false'}" for f in (1, 2))
        for gname in sorted(c.get("mk", [])):
            fl += f"; global {gname} = {901 if gname == 'a' else 902}"
        call = f"L({arg})" if c["kind"] == "free" else f"o.f({arg})"
        if c.get("redef"):
            steps.append({"op": "set_state", "slot": 1})
            steps.append({"op": "eval", "src": "def zz_filler() { 0 }; " + "; ".join(reversed(fundefs)) + "; 0"})
        steps.append({"op": "eval", "src": f"{fl}; {call}; 0", "call": 1})
    return {"id": f"{rec['id']}.h{hints}", "to": 20, "hints": hints, "trace": 1 if trace else 0, "steps": steps}


def export(family, n_random, shards, work, seed):
    def one(k):
        out = os.path.join(work, f"layout.{family}.{k}.ndjson")
        cfg = os.path.join(lib.SPEC, f"Layout_run_{os.getpid()}_{family}_{k}.cfg")
        with open(cfg, "w") as f:
            f.write(f'INIT Init\nNEXT Next\nCONSTANTS\n  Family = "{family}"\n  NRandom = {n_random}\n  ShardK = {k}\n  ShardN = {shards}\n')
        try:
            res = lib.tlc("Layout", os.path.basename(cfg)[:-4], workers=1, env={"OUT": out}, timeout=900, heap="3g",
                          tag=f"layout{family}{k}", seed=seed * 100 + k)
        finally:
            os.unlink(cfg)
        if not res.ok:
            raise lib.Infra(f"Layout export failed: {res.violation}\n{res.output[-2000:]}")
        return lib.read_ndjson(out)

    recs = []
    with ThreadPoolExecutor(max_workers=shards) as ex:
        for r in ex.map(one, range(shards)):
            recs += r
    return recs


def shape_of_failure(rec, step, got, hints):
    """a key that names the specific failing layout shape, not just the property"""
    body = "".join(st["k"] + (st["n"] or "") + (str(st["f"]) if st["k"] == "Y" else "") +
                   ("(" + "".join(b["k"] + b["n"] for b in st["b"]) + ")" if st["k"] == "B" else "") for st in rec["prog"]["body"])
    calls = ",".join(c["kind"][0] + "".join(map(str, c["flags"])) + ("+g" + "".join(sorted(c.get("mk", []))) if c.get("mk") else "") for c in rec["calls"])
    return f"layout:{body}|g={''.join(sorted(rec['prog']['globals']))}|fn={''.join(sorted(rec['prog'].get('funs', [])))}|c={''.join(sorted(rec['prog']['caps']))}|p={rec['prog']['nparams']}|{calls}|h{hints}"


def run(ck, tier, seed):
    quick = tier == "quick"
    # ---------------- M
    for cfg in (["EvalStack_C04"] if quick else ["EvalStack_C04", "EvalStack_C04_thorough"]):
        res = lib.tlc("EvalStack", cfg, timeout=2400, heap="16g")
        ck.add_tlc(cfg, res)
        if not res.ok:
            ck.violation(f"model:{cfg}", f"hint machine violates {res.violation}", lib.tlc_trace_text(res))
    res = lib.tlc("EvalStack", "EvalStack_C04_pinned", timeout=300)
    if res.ok:
        raise lib.Infra("sanity: the trusted-hint policy must violate CacheInvisible in the model, it did not")
    ck.notes.append(f"sanity: model of the unvalidated positional hint violates {res.violation} after {res.distinct} states (expected)")

    # ---------------- G
    vdrive = lib.build("vdrive", "plain")
    work = lib.scratch("c04")
    recs = export("small", 0, 8, work, seed)
    recs += export("random", 1500 if quick else 40000, 8, work, seed)
    tiers = export("tiers", 0, 4, work, seed)
    for r in tiers:
        r["id"] += 50000000
    recs += tiers
    if quick:
        # the exhaustive family is 62,720 cases; quick replays a seeded third of it, thorough all
        import random
        rnd = random.Random(seed)
        small = [r for r in recs if r["id"] < 1000000]
        # (the tiers family - 2,304 three-call cases - is always replayed completely)
        keep = set(x["id"] for x in rnd.sample(small, len(small) // 3))
        recs = [r for r in recs if r["id"] >= 1000000 or r["id"] in keep]
    byid = {}
    callidx = {}
    cases = []
    for i, r in enumerate(recs):
        for h in (1, 0):
            c = to_case(r, h, trace=(i % (40 if quick else 25) == 0))
            byid[c["id"]] = r
            callidx[c["id"]] = [k for k, stp in enumerate(c["steps"]) if stp.get("call")]
            cases.append(c)
    obs, traces = lib.run_driver(vdrive, cases, work, tag="layout", trace=True)
    ck.exhaustive = not quick
    for cid, o in obs.items():
        rec = byid[cid]
        hints = int(cid.endswith("h1"))
        ck.evaluations += 1
        exp = rec["expect"]
        if "died" in o:
            ck.violation(shape_of_failure(rec, 0, None, hints), f"process died ({o['died']}) evaluating a layout program with hints {'on' if hints else 'off'}",
                         {"case": cid, "program": [st.get("src", st["op"]) for st in to_case(rec, hints, False)["steps"]], "expected": exp})
            continue
        steps = [o["steps"][k] for k in callidx[cid]]
        ck.nontrivial.add(tuple((e["ok"], tuple(e["out"])) for e in exp))
        if o["steps"][0]["oc"] != "val":
            raise lib.Infra(f"layout setup failed: {o['steps'][0]}")
        for si, (e, s) in enumerate(zip(exp, steps)):
            got_ok = s["oc"] == "val"
            got_out = [int(x) if re.fullmatch(r"-?\d+", x) else x for x in s["out"]]
            if got_ok != e["ok"] or got_out != e["out"]:
                ck.violation(shape_of_failure(rec, si, s, hints),
                             f"call {si + 1} of the layout program printed {got_out} (outcome {s['oc']}) with lookup hints "
                             f"{'enabled' if hints else 'disabled'}; by-name resolution gives {e['out']} ({'ok' if e['ok'] else 'error'})",
                             {"case": cid, "program": [st.get("src", st["op"]) for st in to_case(rec, hints, False)["steps"]], "expected": exp,
                              "observed": [{"oc": x["oc"], "out": x["out"], "why": x.get("why")} for x in steps]})
                break
    # ---------------- V
    for tp, line, evt, res in c09.validate_traces(ck, traces, tag="C04"):
        cid, ctx = c09.case_of_line(tp, line)
        ek = re.search(r'e \|-> "([^"]+)"', str(evt))
        ck.violation(f"trace:{ek.group(1) if ek else 'postcondition'}:{shape_of_failure(byid[cid], 0, None, int(cid.endswith('h1'))) if cid in byid else cid}",
                     f"recorded lookup is not the by-name resolution: event {evt} rejected (case {cid})",
                     {"case": cid, "rejected_event": str(evt), "preceding_events": ctx,
                      "program": [st.get("src", st["op"]) for st in to_case(byid[cid], 1, False)["steps"]] if cid in byid else None})
    ck.traces += sum(1 for c in cases if c["trace"])
    ck.extra["trace_events"] = sum(sum(1 for _ in open(t)) for t in traces)
    ck.extra["layout_cases"] = len(recs)
    ck.rule = ("layout programs enumerated by TLC (Layout.tla: exhaustive family of 62,720 two-call cases" +
               (" - a seeded third in the quick tier" if quick else "") + " plus seeded random three-call cases), each replayed with hints on and off; "
               "distinct = distinct expected (status, output) vectors")
    ck.sample({"case": cases[0]["id"], "steps": [s.get("src", s["op"]) for s in cases[0]["steps"]], "expected": byid[cases[0]["id"]]["expect"]})
    ck.sample({"case": cases[-1]["id"], "steps": [s.get("src", s["op"]) for s in cases[-1]["steps"]], "expected": byid[cases[-1]["id"]]["expect"]})
    ck.assumptions += ["the hint-ignoring switch (hook H2) makes get_object search by name; it is itself compared with the TLA+ by-name reference",
                       "layout family: names a/h, two flags, one nested block, captures, one parameter, globals, functions of the same name and globals created between calls (see spec/Layout.tla)"]
    lib.rm(work)
