"""C07 - const values cannot be modified from script.
M: ConstAlias.tla - objects, handles (object + const flag), routes that share the object and keep the flag or clone it,
   mutators that check the handle first; ConstObjectsUnchanged, ConstFlagSurvives and FailedAttemptsLeaveNoTrace over all
   chains of <= MaxRoutes routes followed by any mutator from every const source; a `:=`/reference binding that drops the
   flag (DropOnBind) must be refuted.
G: every chain (source x routes x mutator) is exported with its prediction and printed as a script from per-action
   templates; run against C++-owned const objects whose value is read from C++ before and after, and against mutable
   CONTROLS of the same type: a chain+mutator counts as exercised only if it succeeds (and is seen from C++) on the control."""
import os
import random
from concurrent.futures import ThreadPoolExecutor

from .. import lib

SRC = {"lit_int": "5", "lit_str": '"lit"', "lit_neg": "-5", "lit_compl": "~5", "lit_plus": "+5", "lit_fold": "(2 + 3)", "cv_int": "CV_INT", "cv_str": "CV_STR", "cv_vec": "CV_VEC", "cv_map": "CV_MAP", "gc_int": "G_CI",
       "cref_int": "cref_int()", "cptr_int": "cptr_int()", "cref_str": "cref_str()", "cref_vec": "cref_vec()", "cref_map": "cref_map()",
       "cref_tk": "tk_cref()", "cptr_tk": "tk_cptr()", "csp_tk": "CSP_TK", "cw_int": "CW_INT",
       "cx_int": "CX_INT", "cx_str": "CX_STR", "cxp_int": "CXP_INT", "cxsp_tk": "CXSP_TK",
       "nc_int": "NC_INT", "nc_str": "NC_STR", "nc_vec": "NC_VEC", "nc_map": "NC_MAP", "nc_tk": "NC_TK"}
# which C++-side value each source is (None: the value lives only in the script / is a temporary)
CVAL = {"cv_int": "cv_int", "cv_str": "cv_str", "cv_vec": "cv_vec", "cv_map": "cv_map", "cref_int": "c_int", "cptr_int": "c_int", "cw_int": "c_int",
        "cx_int": "x_int", "cx_str": "x_str", "cxp_int": "xp_int", "cxsp_tk": "xsp_tk",
        "cref_str": "c_str", "cref_vec": "c_vec", "cref_map": "c_map", "cref_tk": "c_tk", "cptr_tk": "c_tk", "csp_tk": "csp_tk",
        "nc_int": "nc_int", "nc_str": "nc_str", "nc_vec": "nc_vec", "nc_map": "nc_map", "nc_tk": "nc_tk"}
CONTROL = {"int": "nc_int", "str": "nc_str", "vec": "nc_vec", "map": "nc_map", "tk": "nc_tk"}
SHOW = {"int": "to_string({x})", "str": "to_string({x})", "vec": "to_string({x})", "map": "to_string({x}.size())", "tk": "to_string({x}.get())"}

MUT = {
    "int": {":=": "{x} := 7", "=": "{x} = 7", "+=": "{x} += 1", "-=": "{x} -= 1", "*=": "{x} *= 2", "/=": "{x} /= 2", "%=": "{x} %= 3", "&=": "{x} &= 1", "|=": "{x} |= 2",
            "^=": "{x} ^= 1", "<<=": "{x} <<= 1", ">>=": "{x} >>= 1", "++": "++{x}", "--": "--{x}", "fn_ref": "mut_int_ref({x})", "fn_ptr": "mut_int_ptr({x})",
            "f=": "`=`({x}, 99)", "f+=": "`+=`({x}, 5)", "f++": "`++`({x})", "bind*=": "bind(`*=`, {x}, _)(2)"},
    "str": {":=": '{x} := "new"', "=": '{x} = "new"', "+=": '{x} += "x"', "push_back": "{x}.push_back('x')", "clear": "{x}.clear()", "erase_at": "{x}.erase_at(0)",
            "elem=": "{x}[0] = 'z'", "fn_ref": "mut_str_ref({x})", "fn_ptr": "mut_str_ptr({x})"},
    "vec": {":=": "{x} := [9]", "=": "{x} = [9]", "push_back": "{x}.push_back(9)", "pop_back": "{x}.pop_back()", "clear": "{x}.clear()", "erase_at": "{x}.erase_at(0)",
            "insert_at": "{x}.insert_at(0, 9)", "resize": "{x}.resize(5)", "elem=": "{x}[0] = 99", "elem+=": "{x}[0] += 1", "fn_ref": "mut_vec_ref({x})"},
    "map": {":=": '{x} := ["z": 1, "y": 2, "w": 3]', "=": '{x} = ["z": 1]', "clear": "{x}.clear()", "elem=": '{x}["a"] = 99', "insert_new": '{x}["fresh"] = 1', "erase": '{x}.erase("a")',
            "fn_ref": "mut_map_ref({x})"},
    "tk": {":=": "{x} := Tk(50)", "=": "{x} = Tk(50)", "set": "{x}.set(50)", "attr=": "{x}.v = 50", "fn_ref": "mut_tk_ref({x})", "fn_ptr": "tk_by_ptr({x})", "fn_sp": "tk_by_sp({x})"},
}
KNOWN = {
    # design section 6 row 20: const of Vector / Map is shallow - the elements are separate mutable Boxed_Values, reachable through `c[i]`
    # on the const container and (a by-value copy of a container shares its element objects) through any copy of it
    ("vec", "elem="): "known:shallow-const-vector-elements", ("vec", "elem+="): "known:shallow-const-vector-elements",
    ("map", "elem="): "known:shallow-const-map-elements",
}


def chain(routes, i, cur, tail):
    """code for routes[i:] applied to the handle expression `cur`, then tail(cur)"""
    if i == len(routes):
        return tail(cur)
    r = routes[i]
    n = f"{i}"
    nxt = lambda c: chain(routes, i + 1, c, tail)
    if r == "ref":
        return f"var &r{n} = {cur}; " + nxt(f"r{n}")
    if r == "bind":
        return f"var r{n} := {cur}; " + nxt(f"r{n}")
    if r == "copy":
        return f"var r{n} = {cur}; " + nxt(f"r{n}")
    if r == "param":
        return f"fun(p{n}) {{ " + nxt(f"p{n}") + f" }}({cur})"
    if r == "capture":
        return f"var &c{n} = {cur}; fun[c{n}]() {{ " + nxt(f"c{n}") + " }()"
    if r == "idf":
        return nxt(f"c7_idf({cur})")
    if r == "retlam":
        return nxt(f"fun(q{n}) {{ return q{n} }}({cur})")
    if r == "tern":
        return nxt(f"(true ? {cur} : {cur})")
    if r == "push_back_ref":
        return f"var v{n} = Vector(); v{n}.push_back_ref({cur}); " + nxt(f"v{n}[0]")
    if r == "attr_bind":
        return f"var o{n} = Dynamic_Object(); o{n}.a := {cur}; " + nxt(f"o{n}.a")
    if r == "inline_vec":
        return f"var v{n} = [{cur}]; " + nxt(f"v{n}[0]")
    if r == "push_back":
        return f"var v{n} = Vector(); v{n}.push_back({cur}); " + nxt(f"v{n}[0]")
    if r == "rfor_inline":
        return f"for (e{n} : [{cur}]) {{ " + nxt(f"e{n}") + " }"
    if r == "map_insert":
        return f'var m{n} = Map(); m{n}["k"] = {cur}; ' + nxt(f'm{n}["k"]')
    if r == "clone_fn":
        return nxt(f"clone({cur})")
    raise KeyError(r)


def script(p):
    ty = p["ty"]
    body = chain(p["routes"], 0, SRC[p["src"]], lambda c: "hout(\"reached\"); " + MUT[ty][p["mut"]].format(x=c) + "; hout(\"done\")")
    return f"def prog() {{ hout({SHOW[ty].format(x=SRC[p['src']])}); {body} }}"


def run(ck, tier, seed):
    quick = tier == "quick"
    res = lib.tlc("ConstAlias", "ConstAlias" if quick else "ConstAlias_thorough", timeout=1200)
    ck.add_tlc("ConstAlias (ConstObjectsUnchanged, ConstFlagSurvives, FailedAttemptsLeaveNoTrace)", res)
    if not res.ok:
        ck.violation("model", f"ConstAlias violates {res.violation}", lib.tlc_trace_text(res))
    r2 = lib.tlc("ConstAlias", "ConstAlias_pinned", timeout=600)
    if r2.ok:
        raise lib.Infra("sanity: a binding that drops the const flag must be refuted by TLC")
    ck.notes.append("sanity: with `:=` / reference binding dropping the const flag TLC finds ConstFlagSurvives and ConstObjectsUnchanged violated")
    work = lib.scratch("c07")
    shards = 8

    def one(k):
        out = os.path.join(work, f"paths.{k}.ndjson")
        name = f"ConstAliasExport_run_{os.getpid()}_{k}"
        with open(os.path.join(lib.SPEC, name + ".cfg"), "w") as f:
            f.write(f"INIT Init\nNEXT Next\nCONSTANTS\n  MaxRoutes = 2\n  DropOnBind = FALSE\n  ShardK = {k}\n  ShardN = {shards}\n")
        try:
            r = lib.tlc("ConstAliasExport", name, workers=1, env={"OUT": out}, timeout=900, heap="3g")
        finally:
            os.unlink(os.path.join(lib.SPEC, name + ".cfg"))
        if not r.ok:
            raise lib.Infra(f"ConstAlias export failed: {r.violation} {r.output[-800:]}")
        return lib.read_ndjson(out)
    paths = []
    with ThreadPoolExecutor(max_workers=shards) as ex:
        for r in ex.map(one, range(shards)):
            paths += r
    paths.sort(key=lambda p: (p["src"], p["routes"], p["mut"]))
    if quick:
        rnd = random.Random(seed)
        short = [p for p in paths if len(p["routes"]) <= 1]
        longer = [p for p in paths if len(p["routes"]) == 2 and not p["src"].startswith("nc_")]
        pick = rnd.sample(longer, 2500)
        need = {(p["ty"], tuple(p["routes"]), p["mut"]) for p in pick}
        ctl = [p for p in paths if p["src"].startswith("nc_") and len(p["routes"]) == 2 and (p["ty"], tuple(p["routes"]), p["mut"]) in need]
        paths = short + pick + ctl
    ck.states += len(paths)
    ck.transitions += sum(len(p["routes"]) + 1 for p in paths)
    cases = []
    for i, p in enumerate(paths):
        p["id"] = str(i)
        p["script"] = script(p)
        cases.append({"id": str(i), "to": 20, "p": "opt" if i % 2 == 0 else "noopt",
                      "steps": [{"op": "cvals"}, {"op": "eval", "src": p["script"]}, {"op": "eval", "src": "prog()"}, {"op": "cvals"}, {"op": "eval", "src": "prog()"}, {"op": "cvals"}]})
    vdrive = lib.build("vdrive", "plain")
    obs, _ = lib.run_driver(vdrive, cases, work, tag="c07")
    # ---- controls first: which (type, routes, mutator) combinations really mutate a mutable object
    works = {}
    for p in paths:
        if not p["src"].startswith("nc_"):
            continue
        o = obs[p["id"]]
        combo = (p["ty"], tuple(p["routes"]), p["mut"])
        if "died" in o:
            works[combo] = False
            continue
        st = o["steps"]
        before, after = st[0]["cvals"][CVAL[p["src"]]], st[3]["cvals"][CVAL[p["src"]]]
        ok = st[2]["oc"] == "val" and st[2]["out"][-1:] == ["done"]
        if p["mut"] == ":=":
            # `:=` re-seats the cell every holder of the value shares: the C++ object stays, but the name reads the new value from then on
            seen1, seen2 = st[2]["out"][:1], st[4]["out"][:1]
            works[combo] = ok and ((seen1 != seen2) if not p["onclone"] else (seen1 == seen2))
            continue
        works[combo] = ok and ((before != after) if not p["onclone"] else (before == after))
        if p["onclone"] and ok and before != after and (p["ty"], p["mut"]) not in KNOWN:
            ck.violation(f"clone:{p['ty']}:{'>'.join(p['routes'])}:{p['mut']}", f"a cloning route shares the object: {p['script']} changed the C++ value {before} -> {after}", {"path": p})
    exercised = sum(1 for v in works.values() if v)
    ck.extra.update({"control_combinations": len(works), "control_combinations_mutating": exercised})
    unverifiable = 0
    for p in paths:
        if p["src"].startswith("nc_"):
            continue
        o = obs[p["id"]]
        ck.evaluations += 1
        combo = (p["ty"], tuple(p["routes"]), p["mut"])
        key = KNOWN.get((p["ty"], p["mut"]))
        name = key or f"path:{p['src']}:{'>'.join(p['routes'])}:{p['mut']}"
        if "died" in o:
            ck.violation("died:" + name, f"process died ({o['died']}) on {p['script']}", {"path": p})
            continue
        st = o["steps"]
        cv = CVAL.get(p["src"])
        b0 = st[0]["cvals"].get(cv) if cv else None
        b1 = st[3]["cvals"].get(cv) if cv else None
        b2 = st[5]["cvals"].get(cv) if cv else None
        run1, run2 = st[2], st[4]
        ck.nontrivial.add((p["ty"], p["mut"], tuple(p["routes"]), p["res"]))
        # (1) the object keeps its value: as C++ sees it, and as the script sees it on the next run
        if cv and not (b0 == b1 == b2):
            ck.violation(name, f"the const object behind `{SRC[p['src']]}` changed as seen from C++: {b0} -> {b1} -> {b2} after: {p['script']}; prog()", {"path": p, "runs": [run1, run2]})
            continue
        if run1["out"][:1] != run2["out"][:1]:
            ck.violation(name, f"the const value `{SRC[p['src']]}` reads {run1['out'][:1]} before and {run2['out'][:1]} after the attempt: {p['script']}", {"path": p, "runs": [run1, run2]})
            continue
        # (2) an attempt through a const handle fails
        if p["res"] == "error":
            if not works.get(combo, False):
                unverifiable += 1        # the same chain+mutator does not mutate the control either: nothing is shown by its failing here
                continue
            if run1["oc"] == "val" and run1["out"][-1:] == ["done"]:
                ck.violation(name, f"the mutation attempt through a const handle succeeded without error: {p['script']}; prog()", {"path": p, "run": run1})
    ck.extra["const_paths_without_working_control"] = unverifiable
    ck.rule = ("every chain source x routes (<=1 all" + (", a seeded 2500 of length 2" if quick else ", length 2 all") + ") x mutator of Pred() in ConstAlias.tla: 22 const sources "
               "(literals, const_var / add_global_const values, C++ objects by const&, const*, cref wrapper, shared_ptr<const>, const return), 15 routes, "
               "6-19 mutators per type, each also on a mutable control; distinct = (type, mutator, routes, predicted result)")
    ck.sample({"path": {k: paths[0][k] for k in ("src", "routes", "mut", "res")}, "script": paths[0]["script"]})
    ck.sample({"path": {k: paths[len(paths) // 2][k] for k in ("src", "routes", "mut", "res")}, "script": paths[len(paths) // 2]["script"]})
    ck.assumptions += ["a chain+mutator is counted only where the same chain+mutator provably mutates a mutable control of the same type (vacuity guard)",
                       "trusted: the per-action script templates in gen/checks/c07.py",
                       "a value returned BY VALUE as `const T` is a fresh script-owned object (Handle_Return<const Ret> boxes it as a plain value) and a function taking "
                       "shared_ptr<int> receives a converted copy of a number: neither concerns a const object of the property, so they are not among the sources / mutators"]
    lib.rm(work)
