"""C12 - built-in containers/strings are bounds-safe and match their C++ models.
M: Containers.tla state graphs (Vector, string, Map, range views) with WithinModel/Total.
G: one test per transition of the model + model-walked operation sequences, replayed through the script
   API in the ASan/UBSan build; result (or 'throws') and full contents compared after every step."""
import random

from .. import lib

HUGE = 1073741824
NPOS = "ulong:18446744073709551615"


def q(chars):
    return '"' + "".join(chars) + '"'


def elem(v):
    return "undef" if v == 0 else f"int:{v}"


def render_vec(s):
    return "[" + ", ".join(elem(v) for v in s) + "]"


def render_map(pairs):
    return "{" + ", ".join(f'"{k}": {elem(v)}' for k, v in pairs) + "}"


def expect_res(r):
    t = r["t"]
    if t == "void":
        return "void"
    if t == "int":
        return f"int:{r['i']}"
    if t == "undef":
        return "undef"
    if t == "size":
        return f"ulong:{r['i']}"
    if t == "bool":
        return "bool:true" if r["i"] else "bool:false"
    if t == "char":
        return f"char:{ord(r['q'][0])}"
    if t == "str":
        return "string:" + q(r["q"])
    if t == "npos":
        return NPOS
    if t == "throw":
        return None
    raise ValueError(t)


def build(kind, st):
    if kind == "vec":
        nz = [v for v in st if v != 0]
        s = f"var c = [{', '.join(map(str, nz))}]" if nz else "var c = Vector()"
        if len(nz) != len(st):
            s += f"; c.resize({len(st)})"
        return s
    if kind == "str":
        return f"var c = {q(st)}"
    if kind == "map":
        nz = [(k, v) for k, v in st if v != 0]
        s = "var c = [" + ", ".join(f'"{k}":{v}' for k, v in nz) + "]" if nz else "var c = Map()"
        for k, v in st:
            if v == 0:
                s += f'; c["{k}"]'
        return s
    if kind == "range":
        s, b, e = st
        t = f"var v = [{', '.join(map(str, s))}]" if s else "var v = Vector()"
        t += "; var c = range(v)" + "; c.pop_front()" * b + "; c.pop_back()" * (len(s) - e)
        t += "; def dumpr(r) { var d = r; var o = Vector(); while (!d.empty()) { o.push_back(d.front()); d.pop_front() }; o }"
        return t
    raise ValueError(kind)


def typed_index(a, t):
    """the index value in another arithmetic type: size_t, long, unsigned int"""
    return {1: f"size_t({a})", 2: f"{a}l" if a >= 0 else f"(0l - {-a}l)", 3: f"{a}u" if a >= 0 else f"size_t({a})"}[t]


def op_src(kind, op):
    n, a, b, s = op["n"], op["a"], op["b"], op["s"]
    if n == "idx_t":
        return f"c[{typed_index(a, b)}]"
    if kind == "vec":
        return {"idx": f"c[{a}]", "front": "c.front()", "back": "c.back()", "pop_back": "c.pop_back()", "push_back": f"c.push_back({a})",
                "insert_at": f"c.insert_at({a}, {b})", "erase_at": f"c.erase_at({a})", "resize": f"c.resize({a})",
                "resize2": f"c.resize({a}, {b})", "reserve": f"c.reserve({a})", "clear": "c.clear()", "size": "c.size()",
                "empty": "c.empty()"}[n]
    if kind == "str":
        if n in ("find", "rfind", "find_first_of", "find_last_of", "find_first_not_of", "find_last_not_of"):
            return f"c.{n}({q(s)}, {a})"
        return {"idx": f"c[{a}]", "clear": "c.clear()", "size": "c.size()", "empty": "c.empty()",
                "push_back": f"c.push_back('{(s or ['a'])[0]}')", "append": f"c += {q(s)}", "substr": f"c.substr({a}, {b})",
                "insert_at": f"c.insert_at({a}, 'b')", "erase_at": f"c.erase_at({a})"}[n]
    if kind == "map":
        k = s[0] if s else ""
        return {"idx": f'c["{k}"]', "at": f'c.at("{k}")', "count": f'c.count("{k}")', "erase": f'c.erase("{k}")',
                "set": f'c["{k}"] = {a}; 0', "size": "c.size()", "empty": "c.empty()", "clear": "c.clear()"}[n]
    if kind == "range":
        return f"c.{n}()"
    raise ValueError(kind)


DUMP = {"vec": "c", "str": "c", "map": "c",
        "range": "dumpr(c)"}


def contents(kind, st):
    if kind == "vec":
        return render_vec(st)
    if kind == "str":
        return "string:" + q(st)
    if kind == "map":
        return render_map(st)
    s, b, e = st
    return render_vec(s[b:e])


READS = {"vec": {"idx", "idx_t", "front", "back", "size", "empty"},
         "str": {"idx", "idx_t", "size", "empty", "substr", "find", "rfind", "find_first_of", "find_last_of", "find_first_not_of", "find_last_not_of"},
         "map": {"at", "count", "size", "empty"}}


def build_const(kind, st):
    """the same state as a const container: a reference bound to a literal"""
    if kind == "vec":
        if 0 in st or not st:
            return None
        return f"var &c = [{', '.join(map(str, st))}]"
    if kind == "str":
        return f"var &c = {q(st)}"
    if kind == "map":
        if not st or any(v == 0 for _, v in st):
            return None
        return "var &c = [" + ", ".join(f'"{k}":{v}' for k, v in st) + "]"
    return None


def const_variant(t):
    """expected behaviour of the transition on a const container: reads as in the model, every mutator raises"""
    if t["op"]["n"] in READS.get(t["kind"], ()):
        return dict(t, const=1)
    return dict(t, const=1, res={"t": "throw", "i": 0, "q": []}, st2=t["st"])


def key_of(kind, st, op):
    return f"{kind}:{st}:{op['n']}({op['a']},{op['b']},{''.join(op['s'])})".replace(" ", "")


def run(ck, tier, seed):
    quick = tier == "quick"
    suffix = "" if quick else "_thorough"
    for w in ("vec", "str", "map", "rng"):
        res = lib.tlc("Containers", f"Containers_{w}{suffix}", timeout=1200)
        ck.add_tlc(f"Containers_{w}{suffix}", res)
        if not res.ok:
            ck.violation(f"model:{w}", f"container model violates {res.violation}", lib.tlc_trace_text(res))
    work = lib.scratch("c12")
    out = f"{work}/trans.ndjson"
    res = lib.tlc("ContainersExport", "ContainersExport" + suffix, workers=1, env={"OUT": out}, timeout=900)
    if not res.ok:
        raise lib.Infra("Containers export failed: " + str(res.violation))
    trans = lib.read_ndjson(out)
    table = {}
    cases = []
    meta = {}
    for i, t in enumerate(trans):
        kind = t["kind"]
        table.setdefault(kind, {}).setdefault(json_key(t["st"]), []).append(t)
        cid = f"t{i}"
        meta[cid] = [t]
        cases.append({"id": cid, "to": 30, "steps": [{"op": "eval", "src": build(kind, t["st"])}, {"op": "eval", "src": op_src(kind, t["op"])},
                                                      {"op": "eval", "src": DUMP[kind]}]})
    for i, t in enumerate(trans):
        b = build_const(t["kind"], t["st"])
        if b is None:
            continue
        cid = f"c{i}"
        meta[cid] = [const_variant(t)]
        cases.append({"id": cid, "to": 30, "steps": [{"op": "eval", "src": b}, {"op": "eval", "src": op_src(t["kind"], t["op"])},
                                                      {"op": "eval", "src": DUMP[t["kind"]]}]})
    # operation sequences: walks through the model's transition table from the empty container
    rnd = random.Random(seed)
    nseq = 300 if quick else 4000
    for j in range(nseq):
        kind = rnd.choice(["vec", "vec", "str", "map", "range"])
        st = {"vec": [], "str": [], "map": [], "range": None}[kind]
        if kind == "range":
            st = rnd.choice([k for k in table["range"]])
            st = table["range"][st][0]["st"]
        steps = [{"op": "eval", "src": build(kind, st)}]
        path = []
        for _ in range(rnd.randint(3, 10)):
            outs = table[kind].get(json_key(st))
            if not outs:
                break
            t = rnd.choice(outs)
            path.append(t)
            steps.append({"op": "eval", "src": op_src(kind, t["op"])})
            steps.append({"op": "eval", "src": DUMP[kind]})
            st = t["st2"]
        cid = f"s{j}"
        meta[cid] = path
        cases.append({"id": cid, "to": 30, "steps": steps})
    vd = lib.build("vdrive", "asan")
    obs, _ = lib.run_driver(vd, cases, work, tag="c12", timeout=2400)
    ck.exhaustive = True
    for cid, o in obs.items():
        path = meta[cid]
        ck.evaluations += 1
        if "died" in o:
            # find which transition: replay is cheap, name the first operation of the path conservatively
            t = path[0] if len(path) == 1 else None
            ck.violation("died:" + (("const:" if t.get("const") else "") + key_of(t["kind"], t["st"], t["op"]) if t else cid),
                         f"process died ({o['died']}) on container operation" + (f" {op_src(t['kind'], t['op'])} from state {t['st']}" if t else "s of a sequence"),
                         {"case": cid, "steps": [s["src"] for s in next(c for c in cases if c["id"] == cid)["steps"]]})
            continue
        steps = o["steps"]
        if steps[0]["oc"] != "val":
            raise lib.Infra(f"cannot build container state: {steps[0]} for {cid}")
        for k, t in enumerate(path):
            r, d = steps[1 + 2 * k], steps[2 + 2 * k]
            ck.nontrivial.add((t["kind"], t["op"]["n"], t["res"]["t"], len(t["st"])))
            want = expect_res(t["res"])
            got_throw = r["oc"] in ("ex", "ee", "bv")
            bad = None
            if want is None:
                if not got_throw:
                    bad = f"expected an exception, got {r['oc']} {r.get('v')}"
            elif r["oc"] != "val" or (r["v"] != want and not (t["op"]["n"] == "set")):
                bad = f"expected {want}, got {r['oc']} {r.get('v', r.get('ex'))}"
            if bad is None and (d["oc"] != "val" or d["v"] != contents(t["kind"], t["st2"])):
                bad = f"contents afterwards {d.get('v', d['oc'])}, expected {contents(t['kind'], t['st2'])}"
            if bad:
                ck.violation(("const:" if t.get("const") else "") + key_of(t["kind"], t["st"], t["op"]),
                             f"{op_src(t['kind'], t['op'])} on {'const ' if t.get('const') else ''}{contents(t['kind'], t['st'])}: {bad}",
                             {"case": cid, "transition": t, "observed": [r, d]})
                break
    ck.extra["transitions_replayed"] = len(trans)
    ck.extra["sequences_replayed"] = nseq
    ck.rule = ("every transition (state, operation, argument class) of the Containers.tla state graphs replayed as its own test, plus "
               "seeded walks of 3-10 operations through the same graph; distinct = (container, operation, result kind, size) tuples")
    ck.sample({"transition": trans[0], "script": [s["src"] for s in cases[0]["steps"]]})
    ck.sample({"sequence": [s["src"] for s in cases[-1]["steps"]]})
    ck.assumptions += ["memory safety is observed by ASan/UBSan on the replayed cases only (TLC decides the abstract bounds)",
                       "range views are exercised only while their container is not structurally modified (the property's exclusion)"]
    lib.rm(work)


def json_key(st):
    import json
    return json.dumps(st, sort_keys=True)
