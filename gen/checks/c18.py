"""C18 - JSON conversion round-trips and tolerates any input.
M: JsonSpec.tla - JSONParser / dump / json_escape transcribed over (text, offset) with bounds-checked reads;
   RoundTrip, Idempotent, ParsesOrThrows, OffsetSafe on all texts <= L over 14 characters and on value trees.
G: every text with the model's outcome (value or error) and every tree are sent through the real from_json/to_json
   in the ASan build; values compared structurally (floats numerically), plus nesting ramps and seeded byte strings."""
import os
import random
import re

from .. import lib

CH = {"NL": "\n", "NUL": "\x00"}


def txt(seq):
    return "".join(CH.get(c, c) for c in seq)


def jq(s):
    out = '"'
    for ch in s:
        c = ord(ch)
        if ch in '"\\':
            out += "\\" + ch
        elif c < 0x20 or c >= 0x7f:
            out += "\\u%04x" % c
        else:
            out += ch
    return out + '"'


def num(digits):
    """chaiscript::parse_num over the digit string (empty -> 0)"""
    s = "".join(digits)
    if not s or s == ".":
        return 0
    return float(s) if "." in s else int(s)


def render(v):
    t = v["t"]
    if t == "null":
        return "undef"
    if t == "bool":
        return "bool:true" if v["i"] else "bool:false"
    if t == "int":
        n = num(v["s"])
        return f"long:{-n if v['i'] else n}"
    if t == "dbl":
        neg, expneg = v["i"] & 1, v["i"] & 2
        e = int("".join(v["keys"][0]) or "0")
        val = float(num(v["s"])) * (10.0 ** (-e if expneg else e))
        return "double:%.17g" % (-val if neg else val)
    if t == "str":
        return "string:" + jq(txt(v["s"]))
    if t == "arr":
        return "[" + ", ".join(render(k) for k in v["kids"]) + "]"
    pairs = sorted(((txt(k), render(x)) for k, x in zip(v["keys"], v["kids"])), key=lambda p: p[0].encode("latin-1"))
    return "{" + ", ".join(f"{jq(k)}: {x}" for k, x in pairs) + "}"


def close(a, b):
    """structural equality with the property's float tolerance"""
    if a == b:
        return True
    fa, fb = re.findall(r"double:([-+0-9.eEinfa]+)", a), re.findall(r"double:([-+0-9.eEinfa]+)", b)
    if len(fa) != len(fb) or re.sub(r"double:[-+0-9.eEinfa]+", "D", a) != re.sub(r"double:[-+0-9.eEinfa]+", "D", b):
        return False
    for x, y in zip(fa, fb):
        x, y = float(x), float(y)
        if x != y and abs(x - y) > 1e-6 * max(1.0, abs(x), abs(y)):
            return False
    return True


def run(ck, tier, seed):
    quick = tier == "quick"
    suffix = "" if quick else "_thorough"
    res = lib.tlc("JsonSpecM", "JsonSpecM" + suffix, workers=1, timeout=2400, heap="8g")
    ck.add_tlc("JsonSpecM (RoundTrip, Idempotent, ParsesOrThrows, OffsetSafe)", res)
    m = re.search(r'<<"texts", (\d+), "trees", (\d+)>>', res.output)
    if m:
        ck.states += int(m.group(1)) + int(m.group(2))
        ck.transitions += 2 * int(m.group(1)) + int(m.group(2))
    if not res.ok:
        ck.violation("model", f"JSON transcription violates {res.violation}", res.output[-2500:])
    work = lib.scratch("c18")
    o1, o2 = os.path.join(work, "texts.ndjson"), os.path.join(work, "trees.ndjson")
    r = lib.tlc("JsonSpecExport", "JsonSpecExport" + suffix, workers=1, timeout=2400, env={"OUT": o1, "OUT2": o2}, heap="8g")
    if not r.ok:
        raise lib.Infra("JsonSpec export failed " + r.output[-1500:])
    texts, trees = lib.read_ndjson(o1), lib.read_ndjson(o2)
    rnd = random.Random(seed)
    cases, meta = [], {}
    for t in texts:
        cid = f"t{t['id']}"
        meta[cid] = ("text", t)
        cases.append({"id": cid, "to": 30, "steps": [{"op": "json_rt", "arg": txt(t["text"])}]})
    for t in trees:
        cid = f"v{t['id']}"
        meta[cid] = ("tree", t)
        cases.append({"id": cid, "to": 30, "steps": [{"op": "json_rt", "arg": txt(t["text"])}]})
    # robustness: nesting ramps and seeded arbitrary bytes / mutations ("returns a value or throws, never crashes")
    ramps = []
    for n in ([10, 600, 5000, 200000] if quick else [10, 600, 5000, 200000, 1000000]):
        ramps += ["[" * n, '{"a":' * n, "[" * n + "]" * n, "[[" * (n // 2) + "1",
                  "{" * n, " {\n" * n, "{[" * (n // 2), '[{"a":' * (n // 2), "{" * n + "}" * n]        # nesting through every position a value can start in, keys included
    for i, s in enumerate(ramps):
        meta[f"r{i}"] = ("robust", s[:40] + f"... ({len(s)} bytes)")
        cases.append({"id": f"r{i}", "to": 120, "steps": [{"op": "json_rt", "arg": s}]})
    base = ['{"a": [1, 2.5, true, null, "x\\n"], "b": {"c": -3e2}}', '[1,[2,[3,[4]]]]', '"\\u00e9\\\\"']
    for i in range(300 if quick else 5000):
        s = list(rnd.choice(base))
        for _ in range(rnd.randint(1, 4)):
            k = rnd.random()
            pos = rnd.randrange(len(s) + 1)
            if k < 0.4 and s:
                del s[min(pos, len(s) - 1)]
            elif k < 0.8:
                s.insert(pos, chr(rnd.randrange(256)))
            else:
                s = s[:pos]
        meta[f"f{i}"] = ("robust", "".join(s))
        cases.append({"id": f"f{i}", "to": 30, "steps": [{"op": "json_rt", "arg": "".join(s)}]})
    vd = lib.build("vdrive", "asan")
    # json_rt does not change engine state: many inputs share one engine (a crash is attributed by re-running that batch singly)
    batch, batches = [], []
    for c in cases:
        if c["id"][0] in "tv":
            batch.append(c)
            if len(batch) == 100:
                batches.append(batch)
                batch = []
        else:
            batches.append([c])
    if batch:
        batches.append(batch)
    bcases = [{"id": f"b{i}", "to": 120, "steps": [c["steps"][0] for c in b]} for i, b in enumerate(batches)]
    bobs, _ = lib.run_driver(vd, bcases, work, tag="c18", timeout=2400, shards=16)
    obs = {}
    redo = []
    for i, b in enumerate(batches):
        o = bobs[f"b{i}"]
        if "died" in o:
            if len(b) == 1:
                obs[b[0]["id"]] = o
            else:
                redo += b
        else:
            for c, st in zip(b, o["steps"]):
                obs[c["id"]] = {"id": c["id"], "steps": [st]}
    if redo:
        o2, _ = lib.run_driver(vd, redo, work, tag="c18redo", timeout=2400)
        obs.update(o2)
    ck.exhaustive = True
    for cid, (kind, t) in meta.items():
        o = obs[cid]
        ck.evaluations += 1
        if "died" in o:
            what = t if kind == "robust" else repr(txt(t["text"]))
            ck.violation(f"died:{what[:60]}", f"from_json killed the process ({o['died']}) on input {what[:80]}", {"input": what})
            continue
        s = o["steps"][0]
        if kind == "robust":
            ck.nontrivial.add(("robust", s["oc"]))
            if s["oc"] not in ("val", "ex", "ee", "bv"):
                ck.violation(f"robust:{t[:40]}", f"from_json ended with {s['oc']} {s.get('ex')}", {"input": t, "observed": s})
            continue
        text = txt(t["text"])
        if kind == "text":
            ck.nontrivial.add((t["ok"], t["err"], t["v"]["t"]))
            if t["ok"] != (s["oc"] == "val"):
                ck.violation(f"text:{text!r}", f"from_json({text!r}) {'returned ' + s.get('v', '') if s['oc'] == 'val' else 'raised ' + str(s.get('ex'))}; "
                             f"the transcription says {'value ' + render(t['v']) if t['ok'] else 'error (' + t['err'] + ')'}", {"text": text, "model": t, "observed": s})
                continue
            if not t["ok"]:
                continue
            want = render(t["v"])
        else:
            ck.nontrivial.add(("tree", t["v"]["t"], len(t["v"]["kids"])))
            want = render(t["v"])
            if s["oc"] != "val":
                ck.violation(f"tree:{text!r}", f"from_json of the dumped tree {text!r} raised {s.get('ex')}", {"text": text, "observed": s})
                continue
        if not close(s["v"], want):
            ck.violation(f"{kind}:{text!r}", f"from_json({text!r}) = {s['v']}, the transcription says {want}", {"text": text, "observed": s, "expected": want})
        elif s.get("oc2") != "val" or s.get("oc3") != "val" or not close(s["v3"], s["v"]):
            ck.violation(f"roundtrip:{text!r}", f"from_json(to_json(from_json({text!r}))) = {s.get('v3')} via {s.get('text2')!r}, first parse gave {s['v']}",
                         {"text": text, "observed": s})
    ck.extra["texts"] = len(texts)
    ck.extra["trees"] = len(trees)
    ck.rule = ("all texts of length <= %d over 14 characters with the transcribed parser's outcome, all value trees of the family dumped and re-parsed, "
               "nesting ramps up to 10^6 and seeded byte-level mutations; distinct = (accepted?, error kind, value kind)" % (4 if quick else 5))
    ck.sample({"text": txt(texts[100]["text"]), "model": {"ok": texts[100]["ok"], "value": render(texts[100]["v"]) if texts[100]["ok"] else None}})
    ck.sample({"tree_text": txt(trees[50]["text"])})
    ck.assumptions += ["reads outside the input are observed by ASan on the replayed inputs; floating values are compared numerically (1e-6), outside TLC",
                       "the model's dump uses a one-line layout (the parser skips the white space the real dump inserts)"]
    lib.rm(work)
