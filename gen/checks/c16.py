"""C16 - literals denote the values and types they denote in C++.
M: CharParser.tla (escape automaton refines C++ escape decoding on every literal body <= L over 13 characters plus the long
   forms) and Literals.tla (buildInt ladder = [lex.icon] table on all boundary cells); pinned automaton refuted.
G: every literal body is evaluated as a string literal (and as a char literal when one byte) and its bytes compared with
   the reference decoding; every ladder cell is instantiated with concrete literals at the threshold; seeded float
   spellings are compared with correctly rounded values; identifiers that collide with a special word under the
   parser's hash, and case variants of the word literals, must be ordinary usable names."""
import os
import random
import re
import subprocess
from decimal import Decimal, getcontext
from fractions import Fraction

from .. import lib

BYTE = {"a": "a", "\\": "\\", "x": "x", "u": "u", "U": "U", "f": "f", "g": "g", "n": "n", "'": "'"}


def jbytes(bs):
    out = 'string:"'
    for b in bs:
        if b in (0x22, 0x5c):
            out += "\\" + chr(b)
        elif b < 0x20 or b >= 0x7f:
            out += "\\u%04x" % b
        else:
            out += chr(b)
    return out + '"'


def body_text(seq):
    return "".join(BYTE.get(c, c) for c in seq)


def spell(n, base):
    if base == 10:
        return str(n)
    if base == 16:
        return "0x%x" % n
    if base == 8:
        return "0%o" % n if n else "00"
    return "0b" + bin(n)[2:]


SUFFIX_SPELLINGS = {"": [""], "u": ["u", "U"], "l": ["l", "L"], "ul": ["ul", "UL", "lu", "Lu"], "ll": ["ll", "LL"], "ull": ["ull", "ULL", "llu", "LLU"]}


def run(ck, tier, seed):
    quick = tier == "quick"
    suffix = "" if quick else "_thorough"
    res = lib.tlc("CharParserM", "CharParserM" + suffix, workers=1, timeout=2400, heap="8g")
    ck.add_tlc("CharParserM (automaton refines C++ escape decoding)", res)
    m = re.search(r'<<"bodies", (\d+), "disagreements", (\d+)>>', res.output)
    if m:
        ck.states += int(m.group(1))
        ck.transitions += 2 * int(m.group(1))
    if not res.ok:
        ck.violation("model:escapes", f"escape automaton does not refine the reference: {res.violation}", res.output[-2000:])
    r2 = lib.tlc("CharParserM", "CharParserM_pinned", workers=1, timeout=900)
    if r2.ok:
        raise lib.Infra("sanity: the pinned escape automaton must be refuted")
    res = lib.tlc("LiteralsM", workers=1, timeout=600)
    ck.add_tlc("LiteralsM (ladder = [lex.icon])", res)
    ck.states += 384
    ck.transitions += 384
    if not res.ok:
        ck.violation("model:ladder", f"buildInt ladder differs from the C++ literal typing table: {res.violation}", res.output[-2500:])

    work = lib.scratch("c16")
    o1, o2 = os.path.join(work, "esc.ndjson"), os.path.join(work, "lad.ndjson")
    r = lib.tlc("CharParserExport", "CharParserExport" + suffix, workers=1, timeout=2400, env={"OUT": o1}, heap="8g")
    if not r.ok:
        raise lib.Infra("CharParser export failed")
    r = lib.tlc("LiteralsExport", workers=1, timeout=600, env={"OUT": o2})
    if not r.ok:
        raise lib.Infra("Literals export failed")
    esc, lad = lib.read_ndjson(o1), lib.read_ndjson(o2)
    rnd = random.Random(seed)
    cases, meta = [], {}
    # ---- escapes: 100 literal bodies per engine
    batch = []
    for e in esc:
        t = body_text(e["body"])
        want = None if e["bytes"] == [-1] else e["bytes"]
        batch.append(("s", t, want, '"' + t + '"'))
        if want is not None and len(want) == 1 and "'" not in t:
            batch.append(("c", t, want, "'" + t + "'"))
    for i in range(0, len(batch), 100):
        cid = f"e{i}"
        meta[cid] = ("esc", batch[i:i + 100])
        cases.append({"id": cid, "to": 60, "steps": [{"op": "eval", "src": b[3]} for b in batch[i:i + 100]]})
    # ---- integer ladder
    lits = []
    for c in lad:
        n = 2 ** c["k"] + c["d"]
        for sp in SUFFIX_SPELLINGS[c["sfx"]]:
            lits.append((spell(n, c["base"]) + sp, c["type"], n))
    for i in range(0, len(lits), 100):
        cid = f"l{i}"
        meta[cid] = ("lad", lits[i:i + 100])
        cases.append({"id": cid, "to": 60, "steps": [{"op": "eval", "src": b[0]} for b in lits[i:i + 100]]})
    # ---- floats: seeded decimal / exponent spellings, suffix f / l / none
    floats = []
    for i in range(600 if quick else 6000):
        digs = "".join(rnd.choice("0123456789") for _ in range(rnd.randint(1, 17))).lstrip("0") or "0"
        k = rnd.random()
        if k < 0.4:
            p = rnd.randint(0, len(digs))
            sp = (digs[:p] or "0") + "." + (digs[p:] or "0")
        elif k < 0.8:
            sp = digs[0] + "." + (digs[1:] or "0") + rnd.choice("eE") + rnd.choice(["", "+", "-"]) + str(rnd.randint(0, 30))
        else:
            sp = digs + rnd.choice("eE") + rnd.choice(["", "-"]) + str(rnd.randint(0, 20))
        sfx = rnd.choice(["", "", "f", "F", "l", "L"])
        floats.append((sp + sfx, {"": "double", "f": "float", "l": "ldouble"}[sfx.lower()], sp))
    for i in range(0, len(floats), 100):
        cid = f"f{i}"
        meta[cid] = ("flt", floats[i:i + 100])
        cases.append({"id": cid, "to": 60, "steps": [{"op": "eval", "src": b[0]} for b in floats[i:i + 100]]})
    # ---- words: collisions under the parser's hash, and case variants of the word literals
    hb = os.path.join(lib.BUILD, "bin", "vd_hash")
    os.makedirs(os.path.dirname(hb), exist_ok=True)
    cp = subprocess.run(["g++", "-O2", "-std=c++17", "-I", os.path.join(lib.REPO, "include"), os.path.join(lib.HARNESS, "vd_hash.cpp"), "-o", hb],
                        capture_output=True, text=True)
    if cp.returncode != 0:
        raise lib.Infra("vd_hash build failed: " + cp.stderr[-1500:])
    known = open(os.path.join(lib.VERIF, "gen", "hash_collisions.txt")).read()
    still = subprocess.run([hb, "1", "verify"], input=known, capture_output=True, text=True).stdout.split("\n")
    pairs = [x.split() for x in still if x.strip()]
    if len(pairs) < 5 and not quick:
        found = subprocess.run(["timeout", "600", hb, "1"], capture_output=True, text=True).stdout.split("\n")
        pairs = [x.split() for x in found if x.strip()]
    ck.notes.append(f"{len(pairs)} identifiers colliding with a special word under the parser's current hash function were tested")
    words = [(i, w, "collides with " + w) for i, w in pairs]
    for w in ["True", "TRUE", "False", "infinity", "INFINITY", "nan", "NAN", "Nan", "__line__", "__File__", "__func__", "__class__", "truee", "fals", "NaNx", "_x", "x_"]:
        words.append((w, w, "near-miss spelling"))
    for i, (ident, w, why) in enumerate(words):
        cid = f"w{i}"
        meta[cid] = ("word", (ident, w, why))
        cases.append({"id": cid, "to": 30, "steps": [{"op": "eval", "src": f"var {ident} = 5; {ident} = {ident} + 1; {ident}"},
                                                      {"op": "eval", "src": f"def f_{ident}({ident}) {{ {ident} * 2 }}; f_{ident}(4)"}]})
    exact = [("true", "bool:true"), ("false", "bool:false"), ("__LINE__", "int:1"), ("\n\n__LINE__", "int:3"), ("__FILE__", 'string:"FNAME"'),
             ("def fq() { __FUNC__ }; fq()", 'string:"fq"'), ("Infinity > 1e300", "bool:true"), ("NaN == NaN", "bool:false")]
    cases.append({"id": "exact", "to": 30, "steps": [{"op": "eval", "src": s, "file": "FNAME"} for s, _ in exact]})
    vdrive = lib.build("vdrive", "plain")
    obs, _ = lib.run_driver(vdrive, cases, work, tag="c16")
    getcontext().prec = 60
    ck.exhaustive = True
    for cid, (kind, items) in meta.items():
        o = obs[cid]
        if "died" in o:
            redo = [{"id": f"{cid}.{j}", "to": 30, "steps": [st]} for j, st in enumerate(next(c for c in cases if c["id"] == cid)["steps"])]
            o2, _ = lib.run_driver(vdrive, redo, work, tag="c16redo", shards=4)
            steps = [(o2[f"{cid}.{j}"]["steps"][0] if "steps" in o2[f"{cid}.{j}"] else {"oc": "died", "v": o2[f"{cid}.{j}"]["died"]}) for j in range(len(redo))]
        else:
            steps = o["steps"]
        if kind == "word":
            ident, w, why = items
            ck.evaluations += 1
            ck.nontrivial.add(("word", w))
            if [s.get("v") for s in steps] != ["int:6", "int:8"]:
                ck.violation(f"word:{ident}", f"`{ident}` ({why}) is not an ordinary name: var/assign gives {steps[0].get('v') or steps[0].get('why')}, "
                             f"as a parameter {steps[1].get('v') or steps[1].get('why')}", {"identifier": ident, "observed": steps})
            continue
        for it, s in zip(items, steps):
            ck.evaluations += 1
            if kind == "esc":
                k2, t, want, src = it
                ck.nontrivial.add(("esc", t[:2], want is None))
                if s["oc"] == "died":
                    ck.violation(f"escape:{src}", f"literal {src} killed the process ({s['v']})", {"literal": src})
                elif want is None:
                    if s["oc"] == "val":
                        ck.violation(f"escape:{src}", f"malformed literal {src} accepted as {s['v']}", {"literal": src, "observed": s})
                else:
                    exp = jbytes(want) if k2 == "s" else f"char:{want[0] - 256 if want[0] > 127 else want[0]}"
                    if s["oc"] != "val" or s["v"] != exp:
                        ck.violation(f"escape:{src}", f"literal {src} gives {s.get('v') or s['oc'] + ' ' + str(s.get('why'))}, C++ decoding gives {exp}",
                                     {"literal": src, "observed": s, "expected": exp})
            elif kind == "lad":
                src, ty, n = it
                ck.nontrivial.add(("lad", ty, src[-3:]))
                exp = f"{ty}:{n}"
                if s["oc"] != "val" or s["v"] != exp:
                    ck.violation(f"literal:{src}", f"integer literal {src} gives {s.get('v') or s['oc']}, C++ gives {exp}", {"literal": src, "observed": s})
            else:
                src, ty, sp = it
                ck.nontrivial.add(("flt", ty))
                ok = s["oc"] == "val" and s["v"].startswith(ty + ":")
                if ok:
                    got = Decimal(s["v"].split(":", 1)[1]) if "inf" not in s["v"] and "nan" not in s["v"] else None
                    true = Decimal(sp)
                    ulp = {"float": Decimal(2) ** -23, "double": Decimal(2) ** -52, "ldouble": Decimal(2) ** -63}[ty]
                    if got is None:
                        ok = false_if_finite(true, ty)
                    elif true == 0:
                        ok = got == 0
                    else:
                        ok = abs(got - true) <= 4 * ulp * abs(true) or abs(true) < Decimal("1e-37")
                if not ok:
                    ck.violation(f"float:{src}", f"floating literal {src} gives {s.get('v') or s['oc']}, expected a {ty} within 4 ulp of {sp}", {"literal": src, "observed": s})
    for (src, want), s in zip(exact, obs["exact"]["steps"]):
        if s.get("v") != want:
            ck.violation(f"word-literal:{src!r}", f"{src!r} gives {s.get('v') or s.get('oc')}, expected {want}", s)
    ck.extra.update({"escape_bodies": len(esc), "ladder_literals": len(lits), "float_spellings": len(floats), "identifiers": len(words)})
    ck.rule = ("all literal bodies of length <= %d over {a \\\\ 0 3 7 8 x u U f g n '} + 31 long forms as string and char literals; every ladder cell "
               "(4 bases x 6 suffix classes x boundary values 2^k+d) in every suffix spelling; seeded float spellings; hash-colliding and near-miss "
               "identifiers; distinct by (kind, shape)" % (4 if quick else 5))
    ck.sample({"literal": batch[200][3], "expected_bytes": batch[200][2]})
    ck.sample({"literal": lits[50][0], "expected": f"{lits[50][1]}:{lits[50][2]}"})
    ck.assumptions += ["float rounding (4 ulp) is decided natively with decimal arithmetic, not by TLC; spellings that are not C++ literals (08, 1e, 1uu, values "
                       "above 2^64-1) are outside the property and not generated"]
    lib.rm(work)


def false_if_finite(true, ty):
    lim = {"float": Decimal("3.5e38"), "double": Decimal("1.8e308"), "ldouble": Decimal("1e4932")}[ty]
    return abs(true) > lim
