"""C06 - C++ functions are only ever entered with correctly typed arguments.
V: the driver records, for every ordered pair of an 18-entry unary and a 12-entry binary catalogue of signatures registered
   under one name and every argument kind, which overload was entered, how often and what it received (also for the seven forms of a
   parameter reached through a user type_conversion, registered or not), plus boxed_cast<T> of every argument kind to every requested form; TLC validates every recorded call against the property laws of
   Dispatch.tla (TypeSafe/ConstSafe, ExactWins, ExactlyOnce, NoMatchNoEntry, ReceivedIsConverted, CastSound) and against the
   transcription of dispatch()/boxed_cast (differences there are reported as drift, not as violations).
M: SpecSound - the transcription itself satisfies the laws for every catalogue pair and argument."""
import json
import os
import re
import subprocess

from .. import lib


def run(ck, tier, seed):
    drv = lib.build("vd_dispatch", "plain")
    work = lib.scratch("c06")
    rows, facts, out = (os.path.join(work, x) for x in ("rows.ndjson", "facts.json", "verdicts.ndjson"))
    p = subprocess.run(["timeout", "900", drv, rows, facts], capture_output=True, text=True)
    if p.returncode != 0:
        ck.violation("driver-died", f"the dispatch driver died (exit {p.returncode}): a registered function was entered with something that crashed it", p.stderr[-3000:])
        return
    res = lib.tlc("Dispatch", workers=1, timeout=1800, env={"ROWS": rows, "FACTS": facts, "OUT": out}, heap="8g")
    mo = re.search(r'<<\s*"order",(.*?)>>', res.output, re.S)
    if mo:
        facts_txt = re.sub(r"\s+", " ", mo.group(1)).strip()
        ck.notes.append("function_less_than as an order over the catalogue signatures (informational): " + facts_txt)
        ck.extra["order_facts"] = facts_txt
    mn = re.search(r'<<\s*"nontransitive",(.*?)>>\s*>>', res.output, re.S)
    if mn:
        ck.extra["order_nontransitive"] = re.sub(r"\s+", " ", mn.group(1)).strip()[:600]
    m = re.search(r'<<"rows", (\d+), "property", (\d+), "transcription", (\d+)>>', res.output)
    if not m:
        raise lib.Infra("Dispatch.tla did not report counts:\n" + res.output[-2000:])
    nrows = int(m.group(1))
    ck.add_tlc("Dispatch (recorded calls against the laws + transcription; SpecSound)", res)
    ck.states += nrows
    ck.transitions += nrows
    ck.traces += nrows
    ck.evaluations += nrows
    if not res.ok and "SpecSound" in (res.violation or ""):
        ck.violation("model:SpecSound", "the transcription of dispatch() itself violates the laws", res.output[-2000:])
    elif not res.ok:
        raise lib.Infra("Dispatch.tla failed: " + str(res.violation) + res.output[-1500:])
    drift = 0
    for v in lib.read_ndjson(out):
        r = v["row"]
        if v["why"] == "transcription":
            drift += 1
            continue
        if r["k"] == "u":
            key = f"u:{r['first']}|{r['second']}|{r['arg']}"
            what = (f"overloads ov({r['first']})" + (f", ov({r['second']})" if r["second"] else "") + f" called with {r['arg']}: entered "
                    f"{r['entered'] or 'nothing'} {r['n']} time(s), received {r['recv']!r}, outcome {r['oc']}")
        elif r["k"] == "b":
            key = f"b:{r['first']}|{r['second']}|{r['a1']},{r['a2']}"
            what = f"overloads ov({r['first']}), ov({r['second']}) called with ({r['a1']}, {r['a2']}): entered {r['entered'] or 'nothing'} {r['n']} time(s), outcome {r['oc']}"
        elif r["k"] == "c":
            key = f"c:{r['form']}|{r['arg']}"
            what = f"boxed_cast<{r['form']}>({r['arg']}) gave {r['oc']} {r['got']!r}"
        elif r["k"] == "m":
            key = f"m:{r['member']}|{r['arg']}|{r['route']}"
            what = f"data member accessor `{r['member']}` reached by route {r['route']} with receiver {r['arg']}: outcome {r['oc']}, value {r['got']!r}"
        elif r["k"] == "t":
            key = f"t:{r['first']}|{r['second']}|{r['arg']}|conv{r['conv']}"
            what = (f"overloads ov({r['first']})" + (f", ov({r['second']})" if r["second"] else "") + f" in an engine {'with' if r['conv'] else 'WITHOUT'} type_conversion<From, To>, called with {r['arg']}: "
                    f"entered {r['entered'] or 'nothing'} {r['n']} time(s), received {r['recv']!r}, outcome {r['oc']}")
        elif r["k"] == "v":
            key = f"v:{r['first']}|{r['second']}|{r['arg']}|conv{r['conv']}"
            what = (f"overloads ov({r['first']})" + (f", ov({r['second']})" if r["second"] else "") + f" in an engine {'with' if r['conv'] else 'WITHOUT'} vector_conversion<std::vector<int>>, called with the "
                    f"{r['arg']} argument: entered {r['entered'] or 'nothing'} {r['n']} time(s), received {r['recv']!r}, outcome {r['oc']}")
        elif r["k"] == "w":
            key = f"w:{r['first']}|{r['second']}|{r['arg']}|conv{r['conv']}"
            what = (f"overloads ov({r['first']})" + (f", ov({r['second']})" if r["second"] else "") + f" in an engine {'with' if r['conv'] else 'WITHOUT'} map_conversion<std::map<std::string, int>>, called with the "
                    f"{r['arg']} argument: entered {r['entered'] or 'nothing'} {r['n']} time(s), received {r['recv']!r}, outcome {r['oc']}")
        elif r["k"] == "x":
            key = f"x:{r['case']}"
            what = f"case {r['case']}: overloads entered in sequence {r['seq']!r} ({r['n']} entries), outcome {r['oc']}"
        else:
            key = f"a:{r['first']}|{r['second']}|{r['src']}"
            what = f"{r['src']} with unary overloads entered a function {r['n']} time(s), outcome {r['oc']}"
        ck.violation(key, what + " - not allowed by the property", v)
    for line in open(rows):
        r = json.loads(line)
        ck.nontrivial.add((r["k"], r.get("entered", r.get("oc")), r.get("arg", r.get("a1", ""))))
        if len(ck.samples) < 3 and r.get("entered"):
            ck.sample(r)
    ck.exhaustive = True
    ck.extra["transcription_drift_rows"] = drift
    if drift:
        ck.notes.append(f"{drift} recorded calls chose a different (still allowed) overload than the transcription of dispatch() predicts: the code path changed, the property did not fail")
    ck.rule = ("every ordered pair (and singleton) of 18 unary and 12 binary signatures x 18 (8) argument kinds, arity errors, boxed_cast of every argument "
               "kind to 13 requested forms, two data-member accessors x 12 receivers x 4 routes (call, dot, function value, bind), and 7 forms of a parameter reached through a user type_conversion (alone, beside an overload of the argument's own type, beside a catch-all, both registration orders) x 7 arguments x conversion registered or not, and std::vector<int> parameters reached through vector_conversion x 9 script arguments (int elements, empty, mixed, doubles, longs, nested, non-vectors), likewise std::map<std::string, int> parameters through map_conversion; distinct = (row kind, entered overload, argument kind)")
    ck.assumptions += ["signature catalogue and argument kinds are those of harness/vd_dispatch.cpp; std::function wrappers are not in it yet (beyond the recorded callback case)"]
    lib.rm(work)
