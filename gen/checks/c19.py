"""C19 - evaluating a file means evaluating its bytes; use() evaluates once.
M: Files.tla - load_file/skip_bom with the ifstream state transcribed must equal Content (bytes minus one BOM) for
   every file over 6 byte classes up to length 5; the pinned stream handling must be refuted.
G: (a) every such file is written to disk and eval_file(path) is compared with eval(Content) in the real engine;
   (b) histories of use()/eval_file() over file systems with two search paths, with the reference's outcome and
   per-file evaluation counts after every step, are replayed."""
import os
import re
from concurrent.futures import ThreadPoolExecutor

from .. import lib

BYTE = {"EF": b"\xef", "BB": b"\xbb", "BF": b"\xbf", "1": b"1", "NL": b"\n", "NUL": b"\0", "CR": b"\r", "SUB": b"\x1a"}
PROGRAMS = ["", "1", "12", "1+1", " 1", "1\n", "1\r\n2", "#!/usr/bin/chai\n3", "var x = 4; x", "\"s\"", "1 +", "out(5); 5", "// c\n6",
            "def f() { 7 }; f()", "8\0", "9\0\0", "\0", "\r\n", "[1,2]", "nosuch()"]


def esc(b):
    return "".join(chr(c) for c in b)


def run(ck, tier, seed):
    quick = tier == "quick"
    res = lib.tlc("FilesM", "FilesM", workers=1, timeout=600)
    ck.add_tlc("FilesM (LoadImpl = Content on every file)", res)
    m = re.search(r'<<"files", (\d+), "disagreements", (\d+)>>', res.output)
    if m:
        ck.states += int(m.group(1))
        ck.transitions += int(m.group(1))
    if not res.ok:
        ck.violation("model:load", f"load_file transcription differs from Content: {res.violation}", res.output[-2000:])
    r2 = lib.tlc("FilesM", "FilesM_pinned", workers=1, timeout=600)
    if r2.ok:
        raise lib.Infra("sanity: load_file without clearing the stream state must be refuted")
    ck.notes.append("sanity: the transcription that rewinds a failed stream without clear() is refuted (files shorter than 3 bytes)")

    work = lib.scratch("c19")
    import random
    rnd = random.Random(seed)
    kinds = ["ok", "bad", "nest", "nestmiss", "none"]
    hists = []
    for i in range(1000 if quick else 10000):
        fs = {p: {"a": rnd.choice(kinds), "b": rnd.choice([k for k in kinds if k != "nest"])} for p in ("p1", "p2")}
        ops = []
        for _ in range(rnd.randint(1, 5 if quick else 7)):
            if rnd.random() < 0.65:
                ops.append({"k": "use", "n": rnd.choice(["a", "b", "a", "b", "zz"]), "p": ""})
            else:
                ops.append({"k": "eval_file", "n": rnd.choice(["a", "b"]), "p": rnd.choice(["p1", "p2"])})
        hists.append({"id": i, "fs": fs, "ops": ops})
    inp = os.path.join(work, "hists.ndjson")
    lib.write_ndjson(inp, hists)
    out = os.path.join(work, "use.ndjson")
    out2 = os.path.join(work, "load.ndjson")
    name = f"FilesExport_run_{os.getpid()}"
    with open(os.path.join(lib.SPEC, name + ".cfg"), "w") as f:
        f.write(f"INIT Init\nNEXT Next\nCONSTANTS\n  MaxLen = {4 if quick else 5}\n  ClearOnShort = TRUE\n")
    try:
        r = lib.tlc("FilesExport", name, workers=1, env={"IN": inp, "OUT": out, "OUT2": out2}, timeout=900, heap="4g")
    finally:
        os.unlink(os.path.join(lib.SPEC, name + ".cfg"))
    if not r.ok:
        raise lib.Infra(f"Files export failed: {r.violation} {r.output[-1500:]}")
    uses, loads = lib.read_ndjson(out), lib.read_ndjson(out2)
    cases, meta = [], {}
    fdir = os.path.join(work, "files")
    os.makedirs(fdir)
    # (a) load: every byte-class file, and real programs with / without BOM
    items = [("m%d" % r["id"], b"".join(BYTE[x] for x in r["bytes"]), b"".join(BYTE[x] for x in r["content"])) for r in loads]
    for i, p in enumerate(PROGRAMS):
        b = p.encode("latin-1")
        items.append((f"p{i}", b, b))
        items.append((f"p{i}b", b"\xef\xbb\xbf" + b, b))
        items.append((f"p{i}bb", b"\xef\xbb\xbf\xef\xbb\xbf" + b, b"\xef\xbb\xbf" + b))
    for cid, raw, content in items:
        path = os.path.join(fdir, cid + ".chai")
        with open(path, "wb") as f:
            f.write(raw)
        meta[cid] = ("load", raw, content)
        cases.append({"id": cid, "to": 30, "steps": [{"op": "eval_file", "path": path}]})
        cases.append({"id": cid + ".ref", "to": 30, "steps": [{"op": "eval", "src": esc(content), "file": path}]})
    cases.append({"id": "missing", "to": 30, "steps": [{"op": "eval_file", "path": os.path.join(fdir, "no_such_file.chai")}]})
    # (b) use histories
    for r in uses:
        d = os.path.join(work, "fs", str(r["id"]))
        for p in ("p1", "p2"):
            os.makedirs(os.path.join(d, p))
            for n in ("a", "b"):
                k = r["fs"][p][n]
                if k == "none":
                    continue
                body = f'hout("{p}/{n}")'
                body += {"ok": "", "bad": "; nosuch_function_xyz()", "nest": '; use("b.chai")', "nestmiss": '; use("zz.chai")'}[k]
                with open(os.path.join(d, p, n + ".chai"), "w") as f:
                    f.write(body + "\n")
        steps = []
        for op in r["ops"]:
            if op["k"] == "use":
                steps.append({"op": "use", "path": op["n"] + ".chai"})
            else:
                steps.append({"op": "eval_file", "path": os.path.join(d, op["p"], op["n"] + ".chai")})
        cid = "u%d" % r["id"]
        meta[cid] = ("use", r, None)
        cases.append({"id": cid, "to": 30, "usepaths": [os.path.join(d, "p1") + "/", os.path.join(d, "p2") + "/"], "steps": steps})
    vdrive = lib.build("vdrive", "plain")
    obs, _ = lib.run_driver(vdrive, cases, work, tag="c19")

    def view(o):
        if "died" in o:
            return ("died", o["died"])
        s = o["steps"][0]
        return (s["oc"], s.get("v"), s.get("ex"), tuple(s["out"]))

    for cid, (kind, a, b) in meta.items():
        ck.evaluations += 1
        if kind == "load":
            got, want = view(obs[cid]), view(obs[cid + ".ref"])
            ck.nontrivial.add((len(a), want[0]))
            if got != want:
                ck.violation(f"load:{a!r}", f"eval_file of the {len(a)}-byte file {a!r} gives {got}, eval of its content {b!r} gives {want}",
                             {"file_bytes": repr(a), "content": repr(b), "eval_file": got, "eval": want})
        else:
            r = a
            o = obs[cid]
            if "died" in o:
                ck.violation("use:died", f"process died replaying {r['ops']}", {"history": r})
                continue
            counts = {}
            for i, (op, exp, s) in enumerate(zip(r["ops"], r["expect"], o["steps"])):
                for x in s["out"]:
                    counts[x] = counts.get(x, 0) + 1
                want_counts = {f"{p}/{n}": exp["evals"][p][n] for p in ("p1", "p2") for n in ("a", "b") if exp["evals"][p][n]}
                want = exp["res"]
                got = "ok" if s["oc"] == "val" else "err" if s["oc"] == "ee" else \
                    "notfound" if s.get("ex") == "chaiscript::exception::file_not_found_error" else s["oc"] + ":" + str(s.get("ex"))
                ck.nontrivial.add((want, tuple(sorted(want_counts.items()))))
                if got != want.split(":")[0] or counts != want_counts:
                    hk = ";".join(f"{x['k']}.{x['p'] + '/' if x['p'] else ''}{x['n']}" for x in r["ops"][:i + 1])
                    fsk = ",".join(f"{p}/{n}={r['fs'][p][n]}" for p in ("p1", "p2") for n in ("a", "b") if r["fs"][p][n] != "none")
                    ck.violation(f"use:{fsk}|{hk}", f"step {i + 1} ({op['k']} {op['n']}): outcome {got}, files evaluated so far {counts}; "
                                 f"the reference says {want}, {want_counts}", {"file_system": r["fs"], "history": r["ops"], "step": i + 1,
                                                                               "expected": exp, "observed": s})
                    break
    mo = obs["missing"]["steps"][0]
    if mo.get("ex") != "chaiscript::exception::file_not_found_error":
        ck.violation("missing-file", f"eval_file of a missing file gives {mo.get('oc')} {mo.get('ex')}", mo)
    ck.exhaustive = True
    ck.extra["files_replayed"] = len(items)
    ck.extra["use_histories"] = len(uses)
    ck.rule = (f"every file over byte classes {{EF,BB,BF,'1',LF,NUL}} up to length {4 if quick else 5} plus {len(PROGRAMS)} programs with 0/1/2 BOMs: "
               "eval_file(path) vs eval(content); seeded random histories of use()/eval_file() on random file systems (2 paths x 2 names x 5 file kinds); "
               "distinct = (file length, outcome) and (result, evaluation counts) tuples")
    ck.sample({"file_bytes": repr(items[7][1]), "content": repr(items[7][2])})
    if uses:
        ck.sample({"file_system": uses[0]["fs"], "history": uses[0]["ops"], "expected": uses[0]["expect"]})
    lib.rm(work)
