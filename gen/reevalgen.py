"""Seeded generator of C08 programs: functions whose bodies build and mutate local values from literals along every
escape route (declaration by value / by reference / by `:=`, argument, return value, ternary, container element, capture,
loop variable), called k >= 3 times interleaved with other calls.  A program is a list of SEGMENTS
{"g": group, "b": [statements]}: segment 0 holds the definitions (g = 0), every later segment is one call; segments with
the same non-zero group are the same call in an equal environment and must give equal results.
Every literal node carries an "id": its identity in the syntax tree (ChaiCore.tla keeps ONE cell per identity)."""
import random


class RG:
    def __init__(self, seed):
        self.r = random.Random(seed)
        self.n = 0
        self.lid = 0

    def fresh(self, p):
        self.n += 1
        return f"{p}{self.n}"

    def nid(self):
        self.lid += 1
        return self.lid

    # ------------------------------------------------------------ literals and sources
    def lit(self, t):
        r = self.r
        if t == "int":
            if r.random() < 0.4:
                return {"k": "neg", "e": {"k": "int", "v": r.randint(1, 6), "id": self.nid()}}
            return {"k": "int", "v": r.randint(0, 6), "id": self.nid()}
        if t == "str":
            return {"k": "str", "v": r.choice(["a", "bc", "", "q"]), "id": self.nid()}
        return {"k": "bool", "v": r.random() < 0.5, "id": self.nid()}

    def src(self, t, env, d=2):
        """an expression of type t that may hand out a literal's own cell"""
        r = self.r
        c = r.random()
        same = [n for n, tt in env if tt == t or (t == "int" and tt == "pint")]
        if d <= 0 or c < 0.30:
            return self.lit(t)
        if c < 0.42:
            return {"k": "call", "f": r.choice(["idf", "idr"]), "a": [self.src(t, env, d - 1)]}
        if c < 0.52:
            return {"k": "tern", "c": {"k": "bool", "v": r.random() < 0.5, "id": self.nid()}, "t": self.src(t, env, d - 1), "f": self.src(t, env, d - 1)}
        if c < 0.62 and self.makers.get(t):
            return {"k": "call", "f": r.choice(self.makers[t]), "a": []}
        if c < 0.78 and same:
            return {"k": "id", "n": r.choice(same)}
        if c < 0.86 and t == "int":
            vs = [n for n, tt in env if tt == "vec"]
            if vs:
                return {"k": "idx", "e": {"k": "id", "n": r.choice(vs)}, "i": {"k": "int", "v": r.randint(0, 1), "id": self.nid()}}
        if c < 0.92 and t == "int":
            return {"k": "bin", "op": r.choice(["+", "*", "-"]), "l": self.src(t, env, d - 1), "r": self.src(t, env, d - 1)}
        if c < 0.92 and t == "str":
            return {"k": "bin", "op": "+", "l": self.src(t, env, d - 1), "r": self.src(t, env, d - 1)}
        return self.lit(t)

    # ------------------------------------------------------------ statements of a body
    def decl(self, env):
        r = self.r
        c = r.random()
        if c < 0.62:
            t = r.choice(["int", "int", "str", "bool"])
            n = self.fresh({"int": "i", "str": "s", "bool": "b"}[t])
            form = r.choice(["var", "var", "ref&", "ref:="])
            e = self.src(t, env)
            env.append((n, t))
            if form == "var":
                return {"k": "var", "n": n, "e": e}
            return {"k": "ref", "n": n, "e": e, "style": "&" if form == "ref&" else ":="}
        if c < 0.85:
            n = self.fresh("v")
            if r.random() < 0.3:
                lo = r.randint(0, 3)           # an inline range with literal bounds: rebuilt from its bounds on every evaluation
                e = {"k": "range", "lo": {"k": "int", "v": lo, "id": self.nid()}, "hi": {"k": "int", "v": lo + r.randint(1, 3), "id": self.nid()}}
            else:
                e = {"k": "vec", "a": [self.src("int", env, 1) for _ in range(r.randint(2, 3))]}
            env.append((n, "vec"))
            form = r.choice(["var", "var", "var", "ref&", "ref:="])
            if form == "var":
                return {"k": "var", "n": n, "e": e}
            return {"k": "ref", "n": n, "e": e, "style": "&" if form == "ref&" else ":="}
        n = self.fresh("m")
        e = {"k": "map", "a": [[k, self.src("int", env, 1)] for k in r.sample(["a", "b", "c"], r.randint(1, 2))]}
        env.append((n, ("map", tuple(k for k, _ in e["a"]))))
        return {"k": "var", "n": n, "e": e}

    def mutate(self, env):
        r = self.r
        ints = [n for n, t in env if t == "int"]
        strs = [n for n, t in env if t == "str"]
        bools = [n for n, t in env if t == "bool"]
        vecs = [n for n, t in env if t == "vec"]
        maps = [(n, t[1]) for n, t in env if isinstance(t, tuple)]
        opts = []
        if ints:
            opts += ["iasg", "icasg", "icasg", "inc", "bump", "lam"]
        if strs:
            opts += ["sasg", "scasg", "scasg", "bumps"]
        if bools:
            opts += ["basg"]
        if vecs:
            opts += ["push", "vasg", "vcasg", "vinc", "rfor"]
        if maps:
            opts += ["masg", "mcasg"]
        opts += ["bumplit", "bumpslit", "rforlit", "cfor"]
        o = r.choice(opts)
        iid = lambda n: {"k": "id", "n": n}
        if o == "iasg":
            return [{"k": "asg", "l": iid(r.choice(ints)), "e": self.src("int", env, 1)}]
        if o == "icasg":
            op = r.choice(["+=", "-=", "*="])
            return [{"k": "casg", "op": op, "bop": op[0], "l": iid(r.choice(ints)), "e": self.src("int", env, 1)}]
        if o == "inc":
            return [{"k": "inc", "l": iid(r.choice(ints))}]
        if o == "bump":
            return [{"k": "expr", "e": {"k": "call", "f": "bump", "a": [iid(r.choice(ints))]}}]
        if o == "lam":
            cap = r.choice(ints)
            f = self.fresh("l")
            body = [{"k": "casg", "op": "+=", "bop": "+", "l": iid(cap), "e": self.lit("int")}, {"k": "expr", "e": iid(cap)}]
            return [{"k": "var", "n": f, "e": {"k": "lambda", "caps": [cap], "params": [], "b": body}},
                    {"k": "out", "e": {"k": "call", "f": f, "a": []}}, {"k": "out", "e": {"k": "call", "f": f, "a": []}}]
        if o == "sasg":
            return [{"k": "asg", "l": iid(r.choice(strs)), "e": self.src("str", env, 1)}]
        if o == "scasg":
            return [{"k": "casg", "op": "+=", "bop": "+", "l": iid(r.choice(strs)), "e": self.src("str", env, 1)}]
        if o == "bumps":
            return [{"k": "expr", "e": {"k": "call", "f": "bumps", "a": [iid(r.choice(strs))]}}]
        if o == "basg":
            return [{"k": "asg", "l": iid(r.choice(bools)), "e": self.src("bool", env, 1)}]
        if o == "push":
            return [{"k": "expr", "e": {"k": "dot", "e": iid(r.choice(vecs)), "m": "push_back", "a": [self.src("int", env, 1)]}}]
        elem = lambda v: {"k": "idx", "e": iid(v), "i": {"k": "int", "v": r.randint(0, 1), "id": self.nid()}}
        if o == "vasg":
            return [{"k": "asg", "l": elem(r.choice(vecs)), "e": self.src("int", env, 1)}]
        if o == "vcasg":
            return [{"k": "casg", "op": "+=", "bop": "+", "l": elem(r.choice(vecs)), "e": self.src("int", env, 1)}]
        if o == "vinc":
            return [{"k": "inc", "l": elem(r.choice(vecs))}]
        if o == "rfor":
            e = self.fresh("e")
            return [{"k": "rfor", "n": e, "e": iid(r.choice(vecs)), "b": [{"k": "casg", "op": "+=", "bop": "+", "l": iid(e), "e": self.lit("int")}, {"k": "out", "e": iid(e)}]}]
        if o in ("masg", "mcasg"):
            m, keys = r.choice(maps)
            l = {"k": "idx", "e": iid(m), "i": {"k": "str", "v": r.choice(keys), "id": self.nid()}}
            if o == "masg":
                return [{"k": "asg", "l": l, "e": self.src("int", env, 1)}]
            return [{"k": "casg", "op": "+=", "bop": "+", "l": l, "e": self.src("int", env, 1)}]
        if o == "bumplit":
            return [{"k": "out", "e": {"k": "call", "f": "bump", "a": [self.src("int", [], 1)]}}]
        if o == "bumpslit":
            return [{"k": "out", "e": {"k": "call", "f": "bumps", "a": [self.src("str", [], 1)]}}]
        if o == "rforlit":
            e = self.fresh("e")
            src = {"k": "vec", "a": [self.lit("int"), self.lit("int")]} if r.random() < 0.6 else \
                {"k": "range", "lo": {"k": "int", "v": 1, "id": self.nid()}, "hi": {"k": "int", "v": 3, "id": self.nid()}}
            return [{"k": "rfor", "n": e, "e": src,
                     "b": [dict(zip(("op", "bop"), r.choice([("+=", "+"), ("*=", "*")])), k="casg", l=iid(e), e=self.lit("int")), {"k": "out", "e": iid(e)}]}]
        # a counted loop (compiled by the optimizer) declaring and mutating a local from a literal on every pass
        i, y = self.fresh("i"), self.fresh("y")
        return [{"k": "for", "i": {"k": "var", "n": i, "e": {"k": "int", "v": 0, "id": self.nid()}},
                 "c": {"k": "bin", "op": "<", "l": iid(i), "r": {"k": "int", "v": 2, "id": self.nid()}}, "s": {"k": "inc", "l": iid(i)},
                 "b": [{"k": r.choice(["var", "ref"]), "n": y, "e": self.lit("int"), "style": "&"},
                       {"k": "casg", "op": "+=", "bop": "+", "l": iid(y), "e": iid(i)}, {"k": "out", "e": iid(y)}]}]

    def observe(self, env):
        r = self.r
        pr = [n for n, t in env if t in ("int", "str", "bool", "vec") or isinstance(t, tuple)]
        if not pr:
            return []
        return [{"k": "out", "e": {"k": "id", "n": r.choice(pr)}}]

    def fundef(self, name, np):
        r = self.r
        params = [{"n": f"a{i}", "ty": ""} for i in range(np)]
        # a parameter is bound to the caller's literal: it is read everywhere and a mutation target only now and then
        env = [(p["n"], "int" if r.random() < 0.25 else "pint") for p in params]
        body = []
        for _ in range(r.randint(1, 3)):
            body.append(self.decl(env))
        for _ in range(r.randint(1, 4)):
            body += self.mutate(env) if r.random() < 0.8 else [self.decl(env)]
            if r.random() < 0.5:
                body += self.observe(env)
        body += self.observe(env)
        rets = [n for n, t in env if t in ("int", "str", "bool")]
        body.append({"k": "expr", "e": {"k": "id", "n": r.choice(rets)} if rets else self.lit("int")})
        return {"k": "def", "n": name, "params": params, "guarded": False, "guard": {"k": "bool", "v": True}, "b": body}

    def loopescape(self, name, kind):
        """a counted loop of the shape the optimizer compiles, whose counter's handle leaves the loop (returned from inside it) or
        which is entered again while it runs (recursion from its body): every entry has its own counter"""
        iid = lambda n: {"k": "id", "n": n}
        lit = lambda v: {"k": "int", "v": v, "id": self.nid()}
        i = self.fresh("i")
        loop = lambda hi, body: {"k": "for", "i": {"k": "var", "n": i, "e": lit(0)}, "c": {"k": "bin", "op": "<", "l": iid(i), "r": lit(hi)},
                                 "s": {"k": "inc", "l": iid(i)}, "b": body}
        iff = lambda c, t: {"k": "if", "c": c, "t": t, "ei": [], "haselse": False, "f": []}
        params = [{"n": "a0", "ty": ""}]
        if kind == "ret":
            body = [loop(4, [iff({"k": "bin", "op": "==", "l": iid(i), "r": iid("a0")}, [{"k": "ret", "e": iid(i)}])]), {"k": "ret", "e": lit(9)}]
        else:
            r_ = self.fresh("r")
            rec = {"k": "call", "f": name, "a": [{"k": "bin", "op": "-", "l": iid("a0"), "r": lit(1)}]}
            body = [{"k": "var", "n": r_, "e": lit(0)},
                    loop(2, [iff({"k": "bin", "op": ">", "l": iid("a0"), "r": lit(0)}, [{"k": "casg", "op": "+=", "bop": "+", "l": iid(r_), "e": rec}]),
                             {"k": "casg", "op": "+=", "bop": "+", "l": iid(r_), "e": {"k": "bin", "op": "+", "l": iid(i), "r": lit(1)}}]),
                    {"k": "expr", "e": iid(r_)}]
        return {"k": "def", "n": name, "params": params, "guarded": False, "guard": {"k": "bool", "v": True}, "b": body}

    def helpers(self):
        p = [{"n": "p", "ty": ""}]
        iid = {"k": "id", "n": "p"}
        d = lambda n, b: {"k": "def", "n": n, "params": p, "guarded": False, "guard": {"k": "bool", "v": True}, "b": b}
        return [d("idf", [{"k": "expr", "e": iid}]), d("idr", [{"k": "ret", "e": iid}]),
                d("bump", [{"k": "casg", "op": "+=", "bop": "+", "l": iid, "e": {"k": "int", "v": 1, "id": self.nid()}}, {"k": "expr", "e": iid}]),
                d("bumps", [{"k": "casg", "op": "+=", "bop": "+", "l": iid, "e": {"k": "str", "v": "x", "id": self.nid()}}, {"k": "expr", "e": iid}])]

    def program(self):
        r = self.r
        self.n = 0
        self.lid = 0
        self.makers = {}
        defs = self.helpers()
        for t in ("int", "str"):
            if r.random() < 0.8:
                n = self.fresh("mk")
                ret = r.random() < 0.5
                defs.append({"k": "def", "n": n, "params": [], "guarded": False, "guard": {"k": "bool", "v": True},
                             "b": [{"k": "ret", "e": self.lit(t)} if ret else {"k": "expr", "e": self.lit(t)}]})
                self.makers.setdefault(t, []).append(n)
        funs = []
        for _ in range(r.randint(2, 3)):
            name = self.fresh("f")
            np = r.randint(0, 1)
            defs.append(self.fundef(name, np))
            funs.append((name, np))
        segs = [{"g": 0, "b": defs}]
        calls = []
        for gi, (name, np) in enumerate(funs):
            arg = [{"k": "int", "v": r.randint(0, 5), "id": self.nid()}] if np else []
            for _ in range(r.randint(3, 4)):
                calls.append({"g": gi + 1, "b": [{"k": "expr", "e": {"k": "call", "f": name, "a": arg}}]})
        if r.random() < 0.5:
            # the counter of a compiled loop leaving the loop, or the loop entered again while it runs
            kind = r.choice(["ret", "rec"])
            name = self.fresh("le")
            defs.append(self.loopescape(name, kind))
            g = len(funs) + 1
            call = lambda v: {"k": "call", "f": name, "a": [{"k": "int", "v": v, "id": self.nid()}]}
            a, b = r.sample([0, 1, 2, 3], 2)
            e = {"k": "bin", "op": "+", "l": call(a), "r": call(b)} if kind == "ret" else call(r.choice([1, 2]))
            for _ in range(3):
                calls.append({"g": g, "b": [{"k": "expr", "e": e}]})
        r.shuffle(calls)
        return segs + calls


def pinned(prog, which):
    """marks the which-th literal (by id) of the program as a mutable literal: the defect the property is about"""
    import copy
    p = copy.deepcopy(prog)

    def walk(x):
        if isinstance(x, dict):
            if x.get("id") == which:
                x["mut"] = True
            for v in x.values():
                walk(v)
        elif isinstance(x, list):
            for v in x:
                walk(v)
    walk(p)
    return p
