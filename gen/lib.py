"""Shared plumbing for /verif checks: content-addressed builds of the C++ drivers from /repo's
working tree, TLC runner with statistics parsing, NDJSON helpers, known findings, evidence."""
import hashlib
import json
import os
import re
import shutil
import subprocess
import sys
import time
from concurrent.futures import ThreadPoolExecutor

VERIF = os.path.dirname(os.path.dirname(os.path.abspath(__file__)))
REPO = os.environ.get("VERIF_REPO", "/repo")
BUILD = os.path.join(VERIF, "build")
SPEC = os.path.join(VERIF, "spec")
HARNESS = os.path.join(VERIF, "harness")
EVID = os.path.join(VERIF, "evidence")
NCPU = os.cpu_count() or 4
TLA_JAR = "/opt/veriftools/tla/tla2tools.jar"


class Infra(Exception):
    """Infrastructure failure: exit 2, never a VIOLATION."""


def log(*a):
    print(*a, file=sys.stderr, flush=True)


# ------------------------------------------------------------------ builds

FLAVOURS = {
    # -fno-var-tracking: dispatchkit-heavy TUs otherwise spend minutes in debug info; no -g at all for speed
    "plain": ["g++", "-std=c++17", "-O1", "-pthread", "-DCHAISCRIPT_VERIF=1"],
    "asan": ["clang++", "-std=c++17", "-O1", "-g", "-pthread", "-DCHAISCRIPT_VERIF=1",
             "-fsanitize=address,bounds,null,alignment,object-size,vptr,return,unreachable",
             "-fno-sanitize-recover=all", "-fno-omit-frame-pointer"],
    "tsan": ["clang++", "-std=c++17", "-O1", "-g", "-pthread", "-DCHAISCRIPT_VERIF=1", "-fsanitize=thread"],
}


def _tree_hash(paths):
    h = hashlib.sha256()
    for root in paths:
        if os.path.isfile(root):
            h.update(root.encode())
            h.update(open(root, "rb").read())
            continue
        for d, dirs, files in sorted(os.walk(root)):
            dirs.sort()
            for f in sorted(files):
                p = os.path.join(d, f)
                h.update(p.encode())
                with open(p, "rb") as fh:
                    h.update(fh.read())
    return h.hexdigest()[:20]


_repo_hash = None


def repo_hash():
    global _repo_hash
    if _repo_hash is None:
        _repo_hash = _tree_hash([os.path.join(REPO, "include"), os.path.join(REPO, "static_libs")])
    return _repo_hash


def build(name, flavour="plain", extra_flags=(), libs=()):
    """Returns the path of harness/<name>.cpp compiled against REPO's current working tree.
    Rebuilt whenever /repo/include, the harness sources or the flags change."""
    src = os.path.join(HARNESS, name + ".cpp")
    hdrs = [os.path.join(HARNESS, f) for f in sorted(os.listdir(HARNESS)) if f.endswith(".hpp")]
    flags = FLAVOURS[flavour] + list(extra_flags)
    key = hashlib.sha256((repo_hash() + _tree_hash([src] + hdrs) + " ".join(flags) + " ".join(libs)).encode()).hexdigest()[:16]
    outdir = os.path.join(BUILD, "bin")
    os.makedirs(outdir, exist_ok=True)
    out = os.path.join(outdir, f"{name}.{flavour}.{key}")
    if os.path.exists(out):
        return out
    # drop stale binaries of the same name/flavour
    for f in os.listdir(outdir):
        if f.startswith(f"{name}.{flavour}."):
            os.unlink(os.path.join(outdir, f))
    cmd = flags + ["-I", os.path.join(REPO, "include"), "-I", REPO, "-I", HARNESS, src, "-o", out + ".tmp", "-ldl"] + list(libs)
    t0 = time.time()
    r = subprocess.run(cmd, capture_output=True, text=True)
    if r.returncode != 0:
        raise Infra(f"build of {name} ({flavour}) failed:\n{r.stderr[-4000:]}")
    os.rename(out + ".tmp", out)
    log(f"[build] {name}.{flavour} {time.time() - t0:.0f}s")
    return out


def build_many(specs):
    """specs: list of (name, flavour[, extra_flags[, libs]]); built in parallel."""
    with ThreadPoolExecutor(max_workers=min(len(specs), NCPU) or 1) as ex:
        futs = [ex.submit(build, *s) for s in specs]
        return [f.result() for f in futs]


# ------------------------------------------------------------------ scratch dirs

def scratch(tag):
    d = os.path.join(BUILD, "run", f"{tag}.{os.getpid()}")
    shutil.rmtree(d, ignore_errors=True)
    os.makedirs(d)
    return d


def rm(path):
    shutil.rmtree(path, ignore_errors=True)


# ------------------------------------------------------------------ NDJSON

def write_ndjson(path, records):
    with open(path, "w") as f:
        for r in records:
            f.write(json.dumps(r, separators=(",", ":")) + "\n")


def read_ndjson(path):
    out = []
    with open(path) as f:
        for line in f:
            line = line.strip()
            if line:
                out.append(json.loads(line))
    return out


# ------------------------------------------------------------------ drivers

def run_driver(binary, cases, workdir, tag="cases", trace=False, shards=None, timeout=1800, env=None, supervise=True):
    """Runs vdrive-style binaries over `cases` sharded across processes.
    Returns (observations by id, list of trace paths)."""
    shards = shards or min(NCPU, max(1, len(cases) // 50))
    cpath = os.path.join(workdir, tag + ".ndjson")
    write_ndjson(cpath, cases)
    procs = []
    traces = []
    for k in range(shards):
        opath = os.path.join(workdir, f"{tag}.out.{k}.ndjson")
        cmd = [binary, "run", cpath, opath]
        if trace:
            tpath = os.path.join(workdir, f"{tag}.trace.{k}.ndjson")
            cmd += ["--trace", tpath]
            traces.append(tpath)
        cmd += ["--shard", f"{k}/{shards}"]
        if supervise:
            cmd.append("--supervise")
        e = dict(os.environ)
        e.setdefault("ASAN_OPTIONS", "detect_leaks=0:detect_stack_use_after_return=1:abort_on_error=1:handle_abort=1")
        e.setdefault("UBSAN_OPTIONS", "halt_on_error=1:abort_on_error=1:print_stacktrace=1")
        if env:
            e.update(env)
        procs.append((subprocess.Popen(["timeout", str(timeout)] + cmd, stderr=subprocess.PIPE, text=True, env=e), opath))
    obs = {}
    for p, opath in procs:
        _, err = p.communicate()
        if p.returncode != 0:
            raise Infra(f"driver {os.path.basename(binary)} exited {p.returncode}: {err[-3000:]}")
        for r in read_ndjson(opath):
            if "harness_error" in r:
                raise Infra(f"driver harness error on case {r.get('id')}: {r['harness_error']}")
            obs[r["id"]] = r
    missing = [c["id"] for c in cases if c["id"] not in obs]
    if missing:
        raise Infra(f"driver produced no observation for {len(missing)} cases, e.g. {missing[:3]}")
    return obs, traces


# ------------------------------------------------------------------ TLC

class TlcResult:
    def __init__(self):
        self.ok = False
        self.violation = None  # text of the violated invariant/property
        self.generated = 0
        self.distinct = 0
        self.depth = 0
        self.output = ""
        self.coverage = {}
        self.wall = 0.0
        self.postcondition_failed = False


def tlc(module, cfg=None, workers=None, env=None, timeout=1200, simulate=None, depth=None, coverage=False,
        extra=(), heap="8g", deadlock=False, tag=None, dfs=False, seed=None, extra_java=()):
    """Runs TLC on spec/<module>.tla with spec/<cfg>.cfg. Never raises on violation; raises Infra on
    parse/semantic errors and timeouts."""
    cfg = cfg or module
    tag = tag or cfg
    meta = os.path.join(BUILD, "tlc", f"{tag}.{os.getpid()}.{int(time.time() * 1000) % 100000}")
    os.makedirs(meta, exist_ok=True)
    workers = workers or min(NCPU, 16)
    java = ["java", f"-Xmx{heap}", "-XX:+UseParallelGC", *(extra_java or ["-Xss64m"]), "-cp", TLA_JAR + ":/opt/veriftools/tla/CommunityModules-deps.jar"]
    if dfs:
        java.insert(1, "-Dtlc2.tool.queue.IStateQueue=StateDeque")
    cmd = ["timeout", str(timeout)] + java + ["tlc2.TLC", "-workers", str(workers), "-metadir", meta, "-config", cfg + ".cfg", "-noGenerateSpecTE"]
    if not deadlock:
        cmd.append("-deadlock")
    if simulate:
        cmd += ["-simulate", f"num={simulate}"]
        if depth:
            cmd += ["-depth", str(depth)]
    if seed is not None:
        cmd += ["-seed", str(seed)]
    if coverage:
        cmd += ["-coverage", "1"]
    cmd += list(extra) + [module + ".tla"]
    e = dict(os.environ)
    if env:
        e.update({k: str(v) for k, v in env.items()})
    t0 = time.time()
    r = subprocess.run(cmd, cwd=SPEC, capture_output=True, text=True, env=e)
    res = TlcResult()
    res.wall = time.time() - t0
    res.output = r.stdout + r.stderr
    rm(meta)
    # TLC leaves <module>_TTrace files and states dirs behind in cwd sometimes
    for f in os.listdir(SPEC):
        if "_TTrace_" in f or f == "states":
            p = os.path.join(SPEC, f)
            (rm if os.path.isdir(p) else os.unlink)(p)
    m = re.findall(r"(\d+) states generated, (\d+) distinct states found", res.output)
    if m:
        res.generated, res.distinct = int(m[-1][0]), int(m[-1][1])
    m = re.search(r"The depth of the complete state graph search is (\d+)", res.output)
    if m:
        res.depth = int(m.group(1))
    for cm in re.finditer(r"<(\w+) line \d+, col \d+ to line \d+, col \d+ of module (\w+)>: (\d+):(\d+)", res.output):
        res.coverage[cm.group(1)] = res.coverage.get(cm.group(1), 0) + int(cm.group(4))
    if r.returncode == 124:
        raise Infra(f"TLC timed out on {module}/{cfg} after {timeout}s")
    if "Parsing or semantic analysis failed" in res.output or "Error: TLC threw an unexpected exception" in res.output \
            or "TLC encountered an unexpected exception" in res.output or "java.lang.OutOfMemoryError" in res.output:
        raise Infra(f"TLC failed on {module}/{cfg}:\n{res.output[-3000:]}")
    if "Model checking completed. No error has been found" in res.output or \
            (simulate and r.returncode == 0):
        res.ok = True
        return res
    vm = re.search(r"Error: (Invariant (\S+) is violated|Action property (\S+) is violated|Temporal properties were violated|"
                   r"Deadlock reached|Postcondition \S+ .* is false|Assumption .* is false|Evaluating assumption.*)", res.output)
    if vm:
        res.violation = vm.group(1)
        res.postcondition_failed = "Postcondition" in vm.group(1)
        return res
    if "is violated" in res.output or "Error:" in res.output:
        em = re.search(r"Error: (.*)", res.output)
        # evaluation errors inside the spec are infrastructure problems, not violations
        raise Infra(f"TLC error on {module}/{cfg}: {em.group(1) if em else ''}\n{res.output[-3000:]}")
    if r.returncode == 0:
        res.ok = True
        return res
    raise Infra(f"TLC exit {r.returncode} on {module}/{cfg}:\n{res.output[-3000:]}")


def tlc_trace_text(res, limit=60):
    """Extracts the counterexample states TLC printed."""
    lines = res.output.splitlines()
    out = []
    on = False
    for l in lines:
        if l.startswith("Error:"):
            on = True
        if on:
            out.append(l)
        if len(out) > limit * 12:
            break
    return "\n".join(out)


# ------------------------------------------------------------------ findings / evidence

def known_findings():
    p = os.path.join(VERIF, "known_findings.json")
    if not os.path.exists(p):
        return {"findings": [], "fixed": []}
    return json.load(open(p))


class Check:
    """Accumulates what one run of one property's check did and turns it into exit code + evidence."""

    def __init__(self, pid, tier, seed):
        self.pid = pid
        self.tier = tier
        self.seed = seed
        self.t0 = time.time()
        self.states = 0
        self.transitions = 0
        self.traces = 0
        self.evaluations = 0
        self.nontrivial = set()
        self.samples = []
        self.violations = []  # (key, what, replay record), one per distinct key
        self._vkeys = {}
        self.known_seen = []
        self.notes = []
        self.assumptions = []
        self.rule = ""
        self.exhaustive = False
        self.extra = {}
        self.models = []
        kf = known_findings()
        self.known = {f["key"]: f for f in kf.get("findings", []) if f["property"] == pid}

    def add_tlc(self, name, res):
        self.states += res.distinct
        self.transitions += res.generated
        self.models.append({"model": name, "distinct_states": res.distinct, "states_generated": res.generated,
                            "depth": res.depth, "wall_s": round(res.wall, 1), "ok": res.ok})

    def sample(self, s, cap=6):
        if len(self.samples) < cap:
            self.samples.append(s)

    def violation(self, key, what, record=None):
        """A disagreement with the property. `key` identifies the specific failing input/history."""
        if key in self.known:
            if key not in [k for k, _ in self.known_seen]:
                self.known_seen.append((key, self.known[key]["what"]))
            return
        if key in self._vkeys:
            self._vkeys[key] += 1
            return
        self._vkeys[key] = 1
        self.violations.append((key, what, record))

    def finish(self):
        os.makedirs(EVID, exist_ok=True)
        os.makedirs(os.path.join(EVID, "replay"), exist_ok=True)
        wall = time.time() - self.t0
        for key, what in self.known_seen:
            print(f"KNOWN-FINDING: property={self.pid} {key}: {what}")
        replay_paths = []
        for i, (key, what, record) in enumerate(self.violations[:20]):
            rp = os.path.join(EVID, "replay", f"{self.pid}_{i}.json")
            with open(rp, "w") as f:
                json.dump({"property": self.pid, "key": key, "what": what, "record": record}, f, indent=1, default=str)
            replay_paths.append(rp)
            print(f"VIOLATION property={self.pid} replay={rp}")
            log(f"  {key} (x{self._vkeys[key]}): {what}")
        cov = {
            "states": self.states, "transitions": self.transitions,
            "traces_validated_against_impl": self.traces,
            "samples": self.samples or ["(none)"],
            "evaluations": self.evaluations, "distinct_nontrivial": len(self.nontrivial),
            "rule": self.rule, "exhaustive": self.exhaustive, "models": self.models,
            "known_findings_reobserved": [k for k, _ in self.known_seen],
            "notes": self.notes,
        }
        cov.update(self.extra)
        ev = {"property_id": self.pid, "tier": self.tier, "seed": self.seed, "level": "model_checking",
              "coverage": cov, "assumptions": self.assumptions, "wall_s": round(wall, 1),
              "violations": len(self.violations)}
        with open(os.path.join(EVID, self.pid + ".json"), "w") as f:
            json.dump(ev, f, indent=1)
        log(f"[{self.pid}] tier={self.tier} states={self.states} evals={self.evaluations} traces={self.traces} "
            f"violations={len(self.violations)} known={len(self.known_seen)} wall={wall:.0f}s")
        return 1 if self.violations else 0
