"""Seeded grammar-directed generator of core-language programs for C03 / C02 / C08 (programs are data:
the same AST goes to TLC as JSON and to the real engine as text).  It tracks the types of the names in scope so
that most programs are well typed; the reference interpreter decides what every program must do, including
the ones that fail.  Integers stay small (no overflow; TLC integers and C++ int agree)."""
import random

KEYS = ["a", "b", "c", "k"]


class G:
    def __init__(self, seed):
        self.r = random.Random(seed)
        self.n = 0
        self.funs = []      # (name, nparams, kind) kind: 'int' returns int
        self.classes = []   # (name, attrs, methods[(name, nparams)])
        self.globals = []
        self.frozen = set()   # loop counters and parameters: read, never assigned (termination; parameters may alias literals)
        self.exceptions = True   # try / catch / finally / throw statements are generated (ChaiCore.tla models them)
        self.ticks = False       # set once `def tick(a) { out(a); a }` has been emitted by program()

    def fresh(self, p):
        self.n += 1
        return f"{p}{self.n}"

    # ---------------------------------------------------------------- expressions
    def int_expr(self, env, d):
        r = self.r
        ints = [n for n, t in env if t == "int"]
        c = r.random()
        if d <= 0 or c < 0.22:
            if ints and r.random() < 0.6:
                return {"k": "id", "n": r.choice(ints)}
            return {"k": "int", "v": r.randint(0, 6)}
        if c < 0.55:
            op = r.choice(["+", "-", "*", "+", "-"])
            return {"k": "bin", "op": op, "l": self.int_expr(env, d - 1), "r": self.int_expr(env, d - 1)}
        if c < 0.62:
            return {"k": "bin", "op": r.choice(["/", "%"]), "l": self.int_expr(env, d - 1), "r": {"k": "int", "v": r.randint(1, 4)}}
        if c < 0.68:
            return {"k": "neg", "e": self.int_expr(env, d - 1)}
        if c < 0.76:
            if self.ticks and r.random() < 0.3:
                return {"k": "tern", "c": self.bool_expr(env, d - 1), "t": {"k": "call", "f": "tick", "a": [self.int_expr(env, 0)]}, "f": {"k": "call", "f": "tick", "a": [self.int_expr(env, 0)]}}
            return {"k": "tern", "c": self.bool_expr(env, d - 1), "t": self.int_expr(env, d - 1), "f": self.int_expr(env, d - 1)}
        if c < 0.86:
            fs = [f for f in self.funs if f[2] == "int"] + [(n, t[1], "int") for n, t in env if isinstance(t, tuple) and t[0] == "fn"]
            if fs:
                f = r.choice(fs)
                return {"k": "call", "f": f[0], "a": [self.int_expr(env, d - 1) if r.random() < 0.7 or not ints else {"k": "id", "n": r.choice(ints)} for _ in range(f[1])]}
        if c < 0.92:
            vs = [n for n, t in env if t == "vec"]
            if vs:
                v = r.choice(vs)
                return {"k": "idx", "e": {"k": "id", "n": v}, "i": {"k": "int", "v": r.randint(0, 1)}}
        if c < 0.96:
            os = [(n, t) for n, t in env if isinstance(t, tuple) and t[0] == "obj"]
            if os:
                n, t = r.choice(os)
                cls = next(c2 for c2 in self.classes if c2[0] == t[1])
                if cls[2] and r.random() < 0.6:
                    m = r.choice(cls[2])
                    return {"k": "dot", "e": {"k": "id", "n": n}, "m": m[0], "a": [self.int_expr(env, 0) for _ in range(m[1])]}
                return {"k": "attr", "e": {"k": "id", "n": n}, "n": r.choice(cls[1])}
        return {"k": "int", "v": r.randint(0, 9)}

    def plain_int(self, env, d):
        """integer expression over variables and literals only (embedded in string interpolations)"""
        r = self.r
        ints = [n for n, t in env if t == "int"]
        if d <= 0 or r.random() < 0.4:
            return {"k": "id", "n": r.choice(ints)} if ints and r.random() < 0.6 else {"k": "int", "v": r.randint(0, 6)}
        return {"k": "bin", "op": r.choice(["+", "-", "*"]), "l": self.plain_int(env, d - 1), "r": self.plain_int(env, d - 1)}

    def bool_expr(self, env, d):
        r = self.r
        bools = [n for n, t in env if t == "bool"]
        c = r.random()
        if d <= 0 or c < 0.2:
            if bools and r.random() < 0.5:
                return {"k": "id", "n": r.choice(bools)}
            return {"k": "bool", "v": r.random() < 0.5}
        if c < 0.6:
            return {"k": "bin", "op": r.choice(["<", "<=", ">", ">=", "==", "!="]), "l": self.int_expr(env, d - 1), "r": self.int_expr(env, d - 1)}
        if c < 0.75:
            rhs = self.bool_expr(env, d - 1)
            if self.ticks and r.random() < 0.45:
                # an operand whose evaluation is visible: short-circuit evaluation must skip it exactly when C would
                rhs = {"k": "bin", "op": r.choice([">", "<", "=="]), "l": {"k": "call", "f": "tick", "a": [{"k": "int", "v": r.randint(0, 5)}]}, "r": {"k": "int", "v": r.randint(0, 5)}}
            return {"k": r.choice(["and", "or"]), "l": self.bool_expr(env, d - 1), "r": rhs}
        if c < 0.85:
            return {"k": "not", "e": self.bool_expr(env, d - 1)}
        if c < 0.93:
            return {"k": "bin", "op": r.choice(["==", "!="]), "l": self.str_expr(env, d - 1), "r": self.str_expr(env, d - 1)}
        return {"k": "bin", "op": "==", "l": self.bool_expr(env, d - 1), "r": self.bool_expr(env, d - 1)}

    def str_expr(self, env, d):
        r = self.r
        strs = [n for n, t in env if t == "str"]
        c = r.random()
        if d <= 0 or c < 0.4:
            if strs and r.random() < 0.5:
                return {"k": "id", "n": r.choice(strs)}
            return {"k": "str", "v": r.choice(["", "a", "b", "xy", "q"])}
        if c < 0.7:
            return {"k": "bin", "op": "+", "l": self.str_expr(env, d - 1), "r": self.str_expr(env, d - 1)}
        if c < 0.82:
            return {"k": "call", "f": "to_string", "a": [self.int_expr(env, d - 1) if r.random() < 0.7 else self.bool_expr(env, d - 1)]}
        if c < 0.9:
            # "text ${expr} text": only integer expressions without calls inside (no quotes, braces or side effects in the embedded text)
            parts = []
            for _ in range(r.randint(1, 3)):
                if r.random() < 0.5:
                    parts.append({"k": "txt", "v": r.choice(["a", "x=", " ", "b:"])})
                parts.append({"k": "ex", "e": self.plain_int(env, 1)})
            if r.random() < 0.5:
                parts.append({"k": "txt", "v": r.choice(["!", " end"])})
            return {"k": "interp", "parts": parts}
        return {"k": "tern", "c": self.bool_expr(env, d - 1), "t": self.str_expr(env, d - 1), "f": self.str_expr(env, d - 1)}

    def any_printable(self, env, d):
        r = self.r
        c = r.random()
        cont = [n for n, t in env if t in ("vec", "map")]
        if cont and c < 0.25:
            return {"k": "id", "n": r.choice(cont)}
        if c < 0.6:
            return self.int_expr(env, d)
        if c < 0.8:
            return self.bool_expr(env, d)
        return self.str_expr(env, d)

    def freeze(self, n):
        self.frozen.add(n)
        return None

    # ---------------------------------------------------------------- statements
    def block(self, env, d, inloop, infun, n=None):
        env = list(env)
        out = []
        for _ in range(n or self.r.randint(1, 3)):
            out.append(self.stmt(env, d, inloop, infun))
        return out

    def lvalue_int(self, env):
        r = self.r
        ints = [n for n, t in env if t == "int" and n not in self.frozen]
        vs = [n for n, t in env if t == "vec"]
        if vs and r.random() < 0.25:
            return {"k": "idx", "e": {"k": "id", "n": r.choice(vs)}, "i": {"k": "int", "v": r.randint(0, 1)}}
        if ints:
            return {"k": "id", "n": r.choice(ints)}
        return None

    def stmt(self, env, d, inloop, infun):
        r = self.r
        c = r.random()
        if c < 0.16:
            vs = [n for n, t in env if t in ("vec", "map")]
            if vs and r.random() < 0.15:
                return {"k": "out", "e": {"k": "dot", "e": {"k": "id", "n": r.choice(vs)}, "m": "size", "a": []}}   # size_t: printed, never mixed into int arithmetic
            return {"k": "out", "e": self.any_printable(env, 2)}
        if c < 0.30:
            t = r.choice(["int", "int", "int", "bool", "str", "vec", "map"])
            n = self.fresh({"int": "i", "bool": "b", "str": "s", "vec": "v", "map": "m"}[t])
            if t == "int":
                e = self.int_expr(env, 2)
            elif t == "bool":
                e = self.bool_expr(env, 2)
            elif t == "str":
                e = self.str_expr(env, 2)
            elif t == "vec":
                vs = [x for x, tt in env if tt == "vec"]
                if r.random() < 0.15:
                    lo = r.randint(0, 3)
                    e = {"k": "range", "lo": {"k": "int", "v": lo}, "hi": {"k": "int", "v": lo + r.randint(1, 3)}}
                else:
                    e = {"k": "id", "n": r.choice(vs)} if vs and r.random() < 0.3 else {"k": "vec", "a": [self.int_expr(env, 1) for _ in range(r.randint(2, 3))]}
            else:
                e = {"k": "map", "a": [[k, self.int_expr(env, 1)] for k in r.sample(KEYS, r.randint(1, 2))]}
            env.append((n, t))
            return {"k": "var", "n": n, "e": e}
        if c < 0.42:
            lv = self.lvalue_int(env)
            if lv:
                return {"k": "asg", "l": lv, "e": self.int_expr(env, 2)}
        if c < 0.46:
            ints = [n for n, t in env if t == "int" and n not in self.frozen]
            if ints:
                n = self.fresh("r")
                target = r.choice(ints)
                env.append((n, "int"))
                return {"k": "ref", "n": n, "e": {"k": "id", "n": target}}
        if c < 0.50:
            vs = [n for n, t in env if t == "vec"]
            if vs:
                return {"k": "expr", "e": {"k": "dot", "e": {"k": "id", "n": r.choice(vs)}, "m": "push_back", "a": [self.int_expr(env, 1)]}}
            ms = [n for n, t in env if t == "map"]
            if ms:
                return {"k": "asg", "l": {"k": "idx", "e": {"k": "id", "n": r.choice(ms)}, "i": {"k": "str", "v": r.choice(KEYS)}}, "e": self.int_expr(env, 1)}
        if d <= 0:
            return {"k": "out", "e": self.int_expr(env, 1)}
        if c < 0.58:
            ei = [{"c": self.bool_expr(env, 1), "b": self.block(env, d - 1, inloop, infun, 1)} for _ in range(r.choice([0, 0, 1]))]
            he = r.random() < 0.6
            return {"k": "if", "c": self.bool_expr(env, 2), "t": self.block(env, d - 1, inloop, infun), "ei": ei, "haselse": he,
                    "f": self.block(env, d - 1, inloop, infun) if he else []}
        if c < 0.64:
            i = self.fresh("i")
            return {"k": "for", "i": {"k": "var", "n": i, "e": {"k": "int", "v": 0}},
                    "c": {"k": "bin", "op": "<", "l": {"k": "id", "n": i}, "r": {"k": "int", "v": r.randint(1, 3)}},
                    "s": {"k": "inc", "l": {"k": "id", "n": i}}, "b": self.freeze(i) or self.block(env + [(i, "int")], d - 1, True, infun)}
        if c < 0.69:
            w = self.fresh("w")
            self.frozen.add(w)
            body = [{"k": "inc", "l": {"k": "id", "n": w}}] + self.block(env + [(w, "int")], d - 1, True, infun)
            return {"k": "block", "b": [{"k": "var", "n": w, "e": {"k": "int", "v": 0}},
                                        {"k": "while", "c": {"k": "bin", "op": "<", "l": {"k": "id", "n": w}, "r": {"k": "int", "v": r.randint(1, 3)}}, "b": body}]}
        if c < 0.705:
            ms = [n for n, t in env if t == "map"]
            if ms:
                # for (p : map): the pairs in key order; p.second is the element itself
                m = r.choice(ms)
                pv = self.fresh("p")
                body = [{"k": "out", "e": {"k": "attr", "e": {"k": "id", "n": pv}, "n": "first"}}, {"k": "out", "e": {"k": "attr", "e": {"k": "id", "n": pv}, "n": "second"}}]
                if r.random() < 0.5:
                    body.append({"k": "asg", "l": {"k": "attr", "e": {"k": "id", "n": pv}, "n": "second"}, "e": self.int_expr([(n, t) for n, t in env if n != m], 1)})
                benv = [(n, t) for n, t in env if n != m]
                body += self.block(benv, d - 1, True, infun, 1)
                return {"k": "rfor", "n": pv, "e": {"k": "id", "n": m}, "b": body}
        if c < 0.74:
            vs = [n for n, t in env if t == "vec"]
            e = self.fresh("e")
            src = {"k": "id", "n": r.choice(vs)} if vs and r.random() < 0.7 else {"k": "vec", "a": [{"k": "int", "v": r.randint(0, 5)} for _ in range(2)]}
            # the body never sees the container it iterates over (structural modification during iteration is excluded by C12)
            benv = [(n, t) for n, t in env if not (src["k"] == "id" and n == src["n"])]
            return {"k": "rfor", "n": e, "e": src, "b": self.block(benv + [(e, "int")], d - 1, True, infun)}
        if c < 0.80:
            cases = []
            for v in r.sample([0, 1, 2, 3], r.randint(1, 3)):
                b = self.block(env, d - 1, inloop, infun, 1)
                if r.random() < 0.5:
                    b.append({"k": "break"})
                cases.append({"isdefault": False, "v": {"k": "int", "v": v}, "b": b})
            if r.random() < 0.6:
                cases.insert(r.randint(0, len(cases)), {"isdefault": True, "v": {"k": "int", "v": 0}, "b": self.block(env, d - 1, inloop, infun, 1)})
            return {"k": "switch", "e": self.int_expr(env, 1), "cases": cases}
        if c < 0.84 and inloop:
            return {"k": "if", "c": self.bool_expr(env, 1), "t": [{"k": r.choice(["break", "continue"])}], "ei": [], "haselse": False, "f": []}
        if c < 0.88 and infun:
            return {"k": "if", "c": self.bool_expr(env, 1), "t": [{"k": "ret", "e": self.int_expr(env, 1)}], "ei": [], "haselse": False, "f": []}
        if c < 0.905 and self.exceptions:
            return self.try_stmt(env, d, inloop, infun)
        if c < 0.92:
            return {"k": "block", "b": self.block(env, d - 1, inloop, infun)}
        if c < 0.96:
            # a lambda capturing an int variable, bound and called
            ints = [n for n, t in env if t == "int" and n not in self.frozen]
            if ints:
                cap = r.choice(ints)
                f = self.fresh("l")
                body_env = [(cap, "int"), ("q", "int")]
                body = [{"k": "asg", "l": {"k": "id", "n": cap}, "e": {"k": "bin", "op": "+", "l": {"k": "id", "n": cap}, "r": {"k": "id", "n": "q"}}},
                        {"k": "expr", "e": self.int_expr(body_env, 1)}]
                env.append((f, ("fn", 1)))
                return {"k": "var", "n": f, "e": {"k": "lambda", "caps": [cap], "params": [{"n": "q", "ty": ""}], "b": body}}
        return {"k": "out", "e": self.any_printable(env, 2)}

    def throw_stmt(self, env):
        r = self.r
        return {"k": "throw", "e": self.int_expr(env, 1) if r.random() < 0.6 else (self.str_expr(env, 1) if r.random() < 0.7 else self.bool_expr(env, 0))}

    def try_stmt(self, env, d, inloop, infun):
        """try { ... maybe throw ... } catch(type e) { ... } ... finally { ... }: thrown ints / strings / bools, engine errors, and
        return / break / continue leaving through the handlers"""
        r = self.r
        body = self.block(env, d - 1, inloop, infun, r.randint(1, 2))
        k = r.random()
        if k < 0.55:
            body.insert(r.randint(0, len(body)), {"k": "if", "c": self.bool_expr(env, 1), "t": [self.throw_stmt(env)], "ei": [], "haselse": False, "f": []})
        elif k < 0.7:
            body.append(self.throw_stmt(env))
        elif k < 0.8:
            body.append({"k": "expr", "e": {"k": "id", "n": self.fresh("undefined")}})        # an engine error (eval_error) inside the body
        elif k < 0.88:
            body.append({"k": "out", "e": {"k": "bin", "op": "/", "l": self.int_expr(env, 0), "r": {"k": "int", "v": 0}}})   # arithmetic error
        clauses = []
        for ty in r.sample(["int", "string", "bool", ""], r.choice([0, 1, 1, 2, 2, 3])):
            n = self.fresh("e")
            cenv = env + ([(n, {"int": "int", "string": "str", "bool": "bool"}[ty])] if ty else [])
            h = self.block(cenv, d - 1, inloop, infun, 1)
            if ty and r.random() < 0.7:
                h.insert(0, {"k": "out", "e": {"k": "id", "n": n}})
            if r.random() < 0.12:
                h.append(self.throw_stmt(env))
            clauses.append({"ty": ty, "n": n, "h": h})
        clauses.sort(key=lambda c: c["ty"] == "")          # an untyped clause last (as a script author would write it) most of the time
        if r.random() < 0.15:
            r.shuffle(clauses)
        hasfin = r.random() < 0.45 or not clauses
        fin = self.block(env, 0, False, False, 1) if hasfin else []
        return {"k": "try", "b": body, "cl": clauses, "hasfin": hasfin, "fin": fin}

    def fundef(self):
        r = self.r
        name = self.fresh("f")
        np = r.randint(1, 2)
        params = [{"n": f"a{i}", "ty": r.choice(["", "", "int"])} for i in range(np)]
        env = [(p["n"], "int") for p in params]
        self.frozen.update(p["n"] for p in params)
        body = self.block(env, 2, False, True)
        if self.funs and r.random() < 0.4:
            f = r.choice(self.funs)   # recursion-free call to an earlier function
            body.append({"k": "out", "e": {"k": "call", "f": f[0], "a": [{"k": "id", "n": params[0]["n"]} for _ in range(f[1])]}})
        body.append({"k": "expr", "e": self.int_expr([(p["n"], "int") for p in params], 2)})
        self.funs.append((name, np, "int"))
        return {"k": "def", "n": name, "params": params, "guarded": False, "guard": {"k": "bool", "v": True}, "b": body}

    def overloads(self):
        """typed + guarded + fallback overloads of one name (each returns a distinct int)"""
        r = self.r
        name = self.fresh("o")
        defs = []
        tags = iter(range(100, 200))
        kinds = r.sample(["int", "string", "bool", "guard", "any"], r.randint(2, 4))
        if "guard" in kinds and r.random() < 0.6:
            # several guarded overloads whose guards overlap: the first one DEFINED whose guard holds is the one that runs
            kinds += ["guard"] * r.randint(1, 2)
        if "any" not in kinds and "guard" in kinds and r.random() < 0.7:
            kinds.append("any")
        for k in kinds:
            if k == "guard":
                defs.append({"k": "def", "n": name, "params": [{"n": "x", "ty": r.choice(["int", "int", ""])}], "guarded": True,
                             "guard": {"k": "bin", "op": r.choice([">", "<", "==", ">", ">="]), "l": {"k": "id", "n": "x"}, "r": {"k": "int", "v": r.randint(0, 3)}},
                             "b": [{"k": "expr", "e": {"k": "int", "v": next(tags)}}]})
            else:
                defs.append({"k": "def", "n": name, "params": [{"n": "x", "ty": "" if k == "any" else k}], "guarded": False, "guard": {"k": "bool", "v": True},
                             "b": [{"k": "expr", "e": {"k": "int", "v": next(tags)}}]})
        r.shuffle(defs)
        calls = []
        for a in [{"k": "int", "v": r.randint(0, 4)}, {"k": "str", "v": "s"}, {"k": "bool", "v": True}, {"k": "int", "v": r.randint(0, 4)}]:
            calls.append({"k": "out", "e": {"k": "call", "f": name, "a": [a]}})
        return defs, calls

    def classdef(self):
        r = self.r
        name = self.fresh("K")
        attrs = ["v", "w"][:r.randint(1, 2)]
        ctor_body = [{"k": "asg", "l": {"k": "attr", "e": {"k": "id", "n": "this"}, "n": a}, "e": ({"k": "id", "n": "x"} if i == 0 else {"k": "int", "v": r.randint(0, 5)})}
                     for i, a in enumerate(attrs)]
        methods = []
        m1 = {"n": "bump", "params": [{"n": "d", "ty": ""}],
              "b": [{"k": "asg", "l": {"k": "attr", "e": {"k": "id", "n": "this"}, "n": "v"},
                     "e": {"k": "bin", "op": "+", "l": {"k": "attr", "e": {"k": "id", "n": "this"}, "n": "v"}, "r": {"k": "id", "n": "d"}}},
                    {"k": "expr", "e": {"k": "attr", "e": {"k": "id", "n": "this"}, "n": "v"}}]}
        m2 = {"n": "peek", "params": [], "b": [{"k": "expr", "e": {"k": "bin", "op": "*", "l": {"k": "attr", "e": {"k": "id", "n": "this"}, "n": attrs[-1]}, "r": {"k": "int", "v": 2}}}]}
        methods = [m1, m2]
        self.classes.append((name, attrs, [("bump", 1), ("peek", 0)]))
        return {"k": "class", "n": name, "attrs": attrs, "ctor": {"params": [{"n": "x", "ty": ""}], "b": ctor_body}, "methods": methods}

    def program(self):
        r = self.r
        self.funs, self.classes, self.globals = [], [], []
        self.frozen = set()
        prog = []
        env = []
        self.ticks = r.random() < 0.7
        if self.ticks:
            prog.append({"k": "def", "n": "tick", "params": [{"n": "a", "ty": ""}], "guarded": False, "guard": {"k": "bool", "v": True},
                         "b": [{"k": "out", "e": {"k": "id", "n": "a"}}, {"k": "expr", "e": {"k": "id", "n": "a"}}]})
        for _ in range(r.randint(0, 2)):
            prog.append(self.fundef())
        if r.random() < 0.35:
            ds, cs = self.overloads()
            prog += ds + cs
        if r.random() < 0.4:
            cd = self.classdef()
            prog.append(cd)
            o = self.fresh("o")
            prog.append({"k": "var", "n": o, "e": {"k": "call", "f": cd["n"], "a": [{"k": "int", "v": r.randint(0, 5)}]}})
            env.append((o, ("obj", cd["n"])))
            if r.random() < 0.5:
                o2 = self.fresh("o")
                prog.append({"k": "var", "n": o2, "e": {"k": "id", "n": o}})
                env.append((o2, ("obj", cd["n"])))
        if r.random() < 0.3:
            g = self.fresh("g")
            prog.append({"k": "global", "n": g, "e": {"k": "int", "v": r.randint(0, 5)}})
            # functions see globals
            prog.append({"k": "def", "n": self.fresh("f"), "params": [], "guarded": False, "guard": {"k": "bool", "v": True},
                         "b": [{"k": "asg", "l": {"k": "id", "n": g}, "e": {"k": "bin", "op": "+", "l": {"k": "id", "n": g}, "r": {"k": "int", "v": 1}}}, {"k": "expr", "e": {"k": "id", "n": g}}]})
            self.funs.append((prog[-1]["n"], 0, "int"))
            env.append((g, "int"))
        for _ in range(r.randint(3, 7)):
            prog.append(self.stmt(env, 3, False, False))
        # a definite final value
        prog.append({"k": "expr", "e": self.int_expr([(n, t) for n, t in env if t == "int"], 1)})
        return prog


# ---------------------------------------------------------------------- printer
# C20 prints programs with a layout pass afterwards: statement separators and block braces are then emitted as the control
# characters below, and a node carrying a label "lab" is preceded by \x01<lab>\x02 so that the layout pass knows where it starts.
LAYOUT = {"sep": "; ", "lb": "{ ", "rb": " }", "nl": ";\n", "comma": ", "}


def q(s):
    return '"' + s + '"'


def mark(e):
    return f"\x01{e['lab']}\x02" if "lab" in e else ""


def pe(e):
    k = e["k"]
    if k == "int":
        return str(e["v"])
    if k == "bool":
        return "true" if e["v"] else "false"
    if k == "str":
        return q(e["v"])
    if k == "id":
        return mark(e) + e["n"]
    if k == "bin":
        return f"({pe(e['l'])} {e['op']} {pe(e['r'])})"
    if k == "and":
        return f"({pe(e['l'])} && {pe(e['r'])})"
    if k == "or":
        return f"({pe(e['l'])} || {pe(e['r'])})"
    if k == "not":
        return f"(!{pe(e['e'])})"
    if k == "neg":
        return f"(-{pe(e['e'])})"
    if k == "tern":
        return f"({pe(e['c'])} ? {pe(e['t'])} : {pe(e['f'])})"
    if k == "interp":
        return '"' + "".join(x["v"] if x["k"] == "txt" else "${" + pe(x["e"]) + "}" for x in e["parts"]) + '"'
    if k == "call":
        return f"{mark(e)}{e['f']}({LAYOUT['comma'].join(pe(a) for a in e['a'])})"
    if k == "lambda":
        caps = "[" + ", ".join(e["caps"]) + "]" if e["caps"] else ""
        return f"fun{caps}({', '.join(p['n'] for p in e['params'])}) " + blk(e['b'])
    if k == "range":
        return f"[{pe(e['lo'])}..{pe(e['hi'])}]"
    if k == "vec":
        return "[" + ", ".join(pe(a) for a in e["a"]) + "]"
    if k == "map":
        return "[" + ", ".join(f"{q(kk)}: {pe(v)}" for kk, v in e["a"]) + "]"
    if k == "idx":
        return f"{pe(e['e'])}[{pe(e['i'])}]"
    if k == "attr":
        return f"{pe(e['e'])}.{e['n']}"
    if k == "dot":
        return f"{pe(e['e'])}.{e['m']}({', '.join(pe(a) for a in e['a'])})"
    return ps(e)


def pb(b):
    return LAYOUT["sep"].join(ps(s) for s in b)


def blk(b):
    return LAYOUT["lb"] + pb(b) + LAYOUT["rb"]


def ps(s):
    k = s["k"]
    if k == "var":
        return f"var {s['n']} = {pe(s['e'])}"
    if k == "ref":
        if s.get("style") == ":=":
            return f"var {s['n']} := {pe(s['e'])}"
        return f"var &{s['n']} = {pe(s['e'])}"
    if k == "casg":
        return f"{pe(s['l'])} {s['op']} {pe(s['e'])}"
    if k == "global":
        return f"global {s['n']} = {pe(s['e'])}"
    if k == "asg":
        return f"{pe(s['l'])} = {pe(s['e'])}"
    if k == "inc":
        return f"++{pe(s['l'])}"
    if k == "out":
        return f"{mark(s)}out({pe(s['e'])})"
    if k == "expr":
        return pe(s["e"])
    if k == "block":
        return blk(s["b"])
    if k == "if":
        t = f"if ({pe(s['c'])}) " + blk(s['t'])
        for ei in s["ei"]:
            t += f" else if ({pe(ei['c'])}) " + blk(ei['b'])
        if s["haselse"]:
            t += " else " + blk(s['f'])
        return t
    if k == "while":
        return f"while ({pe(s['c'])}) " + blk(s['b'])
    if k == "for":
        return f"for ({ps(s['i'])}; {pe(s['c'])}; {ps(s['s'])}) " + blk(s['b'])
    if k == "rfor":
        return f"for ({s['n']} : {pe(s['e'])}) " + blk(s['b'])
    if k == "switch":
        t = f"switch ({pe(s['e'])}) {{ "
        for c in s["cases"]:
            t += ("default " + blk(c['b']) + " " if c["isdefault"] else f"case ({pe(c['v'])}) " + blk(c['b']) + " ")
        return t + "}"
    if k in ("break", "continue"):
        return k
    if k == "throw":
        return f"throw({pe(s['e'])})"
    if k == "try":
        t = "try " + blk(s["b"])
        for c in s["cl"]:
            t += (f" catch({c['ty']} {c['n']}) " if c["ty"] else f" catch({c['n']}) ") + blk(c["h"])
        if s["hasfin"]:
            t += " finally " + blk(s["fin"])
        return t
    if k == "ret":
        return f"return {pe(s['e'])}"
    if k == "def":
        params = ", ".join((p["ty"] + " " if p["ty"] else "") + p["n"] for p in s["params"])
        g = f" : {pe(s['guard'])}" if s["guarded"] else ""
        name = s['n'] if s['n'].isidentifier() else f"`{s['n']}`"      # operators are defined under their back-quoted name
        return f"def {name}({params}){g} " + blk(s['b'])
    if k == "class":
        t = f"class {s['n']} {{ " + " ".join(f"var {a};" for a in s["attrs"])
        t += f" def {s['n']}({', '.join(p['n'] for p in s['ctor']['params'])}) " + blk(s['ctor']['b'])
        for m in s["methods"]:
            t += f"; def {m['n']}({', '.join(p['n'] for p in m['params'])}) " + blk(m['b'])
        return t + " }"
    return pe(s)


def program_text(prog):
    return LAYOUT["nl"].join(ps(s) for s in prog)
