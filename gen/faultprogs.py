"""Programs for C09 (and V-mode drivers of C04): every construct that pushes a scope, frame, call or
foist, with harness callbacks cb(k) in every nesting position, so that each invocation can be made
to throw.  After each top-level statement a marker hout("T<i>") records progress."""
import random

FIXED = [
    # (top-level statements, names declared at top level by statement index)
    [("def f(x) { var a = cb(x); { var b = cb(a + 1); if (b > 0) { cb(b) } }; a }", None),
     ("var t = f(1)", "t"),
     ("for (var i = 0; i < 2; ++i) { cb(i) }", None),
     ("var u = [1,2]", "u"),
     ("for (e : u) { cb(e) }", None),
     ("var w = cb(t)", "w")],
    [("class K { var v; def K() { this.v = cb(1) }; def m(y) { cb(y) + this.v } }", None),
     ("var k = K()", "k"),
     ("var o = Dynamic_Object()", "o"),
     ("o.f = fun(z) { cb(z) }", None),
     ("o.f(3)", None),
     ("var r1 = k.m(2)", "r1"),
     ("try { cb(5); throw(1) } catch(e) { cb(6) } finally { cb(7) }", None),
     ("var w = 0", "w"),
     ("while (w < 2) { ++w; switch (w) { case (1) { cb(w) } default { cb(9); break } } }", None)],
    [("var v = [3,1,2]", "v"),
     ("var r = map(v, fun(x) { cb(x) })", "r"),
     ("var s = foldl(v, fun(a, b) { cb(a + b) }, 0)", "s"),
     ("var l = fun[s](q) { cb(q + s) }", "l"),
     ("l(1)", None),
     ("def g(n) { if (n > 0) { cb(n); g(n - 1) } else { 0 } }", None),
     ("g(3)", None),
     ("var z = to_string(cb(4)) + \"x\"", "z"),
     ("var n = [cb(1), cb(2)].size()", "n")],
    [("var d = DerivedC()", "d"),
     ("def tb(x) { var q = takes_base(x); cb(q) }", None),
     ("var a1 = tb(d)", "a1"),
     ("var a2 = takes_base(d) + cb(1)", "a2"),
     ("var oc = OtherC()", "oc"),
     ("var a3 = takes_string(oc) + cb(2)", "a3"),
     ("def h(BaseC b) { cb(3) }", None),
     ("h(d)", None)],
    [("var m = [\"a\":1, \"b\":2]", "m"),
     ("for (p : m) { cb(p.second) }", None),
     ("var b = bind(fun(x, y) { cb(x + y) }, 1, _)", "b"),
     ("b(2)", None),
     ("var q = (cb(1) > 0) ? cb(2) : cb(3)", "q"),
     ("var x = cb(1) > 0 && cb(2) > 0 || cb(3) > 0", "x"),
     ("def rr(n) { return cb(n); }", None),
     ("var y = rr(4)", "y"),
     ("var e2 = eval(\"cb(5) + 1\")", "e2"),
     ("try { try { cb(6); throw(\"in\") } catch(int i) { cb(7) } } catch(s) { cb(8) }", None)],
    # ranged-for over ranges that are neither Vector nor Map, left by break / return / throw / a throwing callback
    [("for (c : \"hello\") { cb(1); if (c == 'l') { break } }", None),
     ("var v = [1, 2, 3]", "v"),
     ("for (e : retro(range(v))) { if (cb(e) > 1) { continue }; break }", None),
     ("def fr(s) { for (c : s) { if (cb(2) > 0) { return 7 } }; 0 }", None),
     ("var r7 = fr(\"xy\")", "r7"),
     ("try { for (c : \"ab\") { cb(3); throw(c) } } catch(e) { cb(4) }", None),
     ("{ for (e : range(v)) { { cb(e); if (e == 2) { break } } } }", None),
     ("var c = 5", "c")],
    # calls whose VALUE IS UNUSED (the optimizer gives them their own node, which saves no parameters) and whose argument needs a conversion,
    # as the outermost call of a statement inside a block / try / if / loop: the converted temporary must not stay behind
    [("var d = DerivedC()", "d"),
     ("{ takes_base(d); 0 }", None),
     ("try { takes_base(DerivedC()); cb(1) } catch(e) { cb(2) }", None),
     ("if (cb(1) > 0) { takes_string(OtherC()); cb(3) }", None),
     ("var wi = 0", "wi"),
     ("while (wi < 2) { takes_base(d); ++wi; cb(wi) }", None),
     ("{ takes_base(d) }", None),
     ("{ takes_string(OtherC()); cb(4); takes_base(d) }", None)],
]


class Gen:
    def __init__(self, seed):
        self.r = random.Random(seed)
        self.n = 0

    def fresh(self, p):
        self.n += 1
        return f"{p}{self.n}"

    def expr(self, d, vars_):
        r = self.r
        c = r.random()
        if d <= 0 or c < 0.25:
            if vars_ and r.random() < 0.4:
                return r.choice(vars_)
            return str(r.randint(0, 5))
        if c < 0.6:
            return f"cb({self.expr(d - 1, vars_)})"
        if c < 0.75:
            return f"({self.expr(d - 1, vars_)} + {self.expr(d - 1, vars_)})"
        if c < 0.85:
            return f"((cb(1) > 0) ? {self.expr(d - 1, vars_)} : {self.expr(d - 1, vars_)})"
        if c < 0.93:
            return f"fun(p) {{ cb(p) }}({self.expr(d - 1, vars_)})"
        return f"[{self.expr(d - 1, vars_)}, cb(2)].size()"

    def stmt(self, d, vars_, in_loop, in_fun):
        r = self.r
        c = r.random()
        if d <= 0 or c < 0.2:
            if r.random() < 0.25:
                # a converting call whose value is unused, right before a callback site
                return r.choice(["takes_base(DerivedC())", "takes_string(OtherC())"]) + f"; cb({self.expr(1, vars_)})"
            return f"cb({self.expr(1, vars_)})"
        if c < 0.32:
            v = self.fresh("l")
            s = f"var {v} = {self.expr(2, vars_)}"
            vars_.append(v)
            return s
        if c < 0.42:
            return "{ " + self.block(d - 1, list(vars_), in_loop, in_fun) + " }"
        if c < 0.52:
            return f"if ({self.expr(1, vars_)} > 1) {{ {self.block(d - 1, list(vars_), in_loop, in_fun)} }} else {{ {self.block(d - 1, list(vars_), in_loop, in_fun)} }}"
        if c < 0.60:
            i = self.fresh("i")
            return f"for (var {i} = 0; {i} < 2; ++{i}) {{ {self.block(d - 1, vars_ + [i], True, in_fun)} }}"
        if c < 0.66:
            e = self.fresh("e")
            # every kind of range the loop iterates: Vector and Map have their own branches, everything else goes through range()/front()/pop_front()
            src = r.choice(["[1, 2]", "[1, 2]", "\"ab\"", "range([1, 2])", "retro(range([1, 2]))", "[\"k\": 1, \"l\": 2]"])
            inner = vars_ + [e] if src.startswith("[1") or "range" in src else list(vars_)
            return f"for ({e} : {src}) {{ {self.block(d - 1, inner, True, in_fun)} }}"
        if c < 0.72:
            w = self.fresh("w")
            vars_.append(w)
            return f"var {w} = 0; while ({w} < 2) {{ ++{w}; {self.block(d - 1, list(vars_), True, in_fun)} }}"
        if c < 0.80:
            fin = f" finally {{ {self.block(d - 1, list(vars_), in_loop, in_fun)} }}" if r.random() < 0.5 else ""
            thr = r.choice(["throw(1)", "throw(\"s\")", "cb(0)", "throw_runtime(\"x\")"])
            return f"try {{ {self.block(d - 1, list(vars_), in_loop, in_fun)}; {thr} }} catch(ex) {{ {self.block(d - 1, list(vars_), in_loop, in_fun)} }}{fin}"
        if c < 0.86:
            return f"switch ({self.expr(1, vars_)}) {{ case (1) {{ {self.block(d - 1, list(vars_), in_loop, in_fun)} }} default {{ cb(3) }} }}"
        if c < 0.90 and in_loop:
            return f"if (cb(1) > {r.choice([0, 0, 5])}) {{ {r.choice(['break', 'continue'])} }}"      # taken (threshold 0) or not (5)
        if c < 0.94 and in_fun:
            return f"if (cb(1) > {r.choice([0, 5, 5])}) {{ return {self.expr(1, vars_)} }}"
        return f"map([1, 2], fun(x) {{ cb(x) }})"

    def block(self, d, vars_, in_loop, in_fun):
        return "; ".join(self.stmt(d, vars_, in_loop, in_fun) for _ in range(self.r.randint(1, 3)))

    def program(self):
        """Returns (list of (stmt, declared-name-or-None))."""
        out = []
        r = self.r
        tops = []
        nfun = r.randint(0, 2)
        funs = []
        for _ in range(nfun):
            f = self.fresh("f")
            body = self.block(2, ["a"], False, True)
            out.append((f"def {f}(a) {{ {body}; cb(a) }}", None))
            funs.append(f)
        if r.random() < 0.4:
            k = self.fresh("K")
            out.append((f"class {k} {{ var v; def {k}() {{ this.v = cb(1) }}; def m(y) {{ {self.block(1, ['y'], False, True)}; cb(y) + this.v }} }}", None))
            o = self.fresh("o")
            out.append((f"var {o} = {k}()", o))
            tops.append(o)
            out.append((f"{o}.m(2)", None))
        for _ in range(r.randint(2, 5)):
            c = r.random()
            if c < 0.4:
                v = self.fresh("t")
                e = self.expr(2, [t for t in tops if t.startswith("t")])
                if funs and r.random() < 0.5:
                    e = f"{r.choice(funs)}({e})"
                out.append((f"var {v} = {e}", v))
                tops.append(v)
            else:
                st = self.stmt(3, [t for t in tops if t.startswith("t")], False, False)
                if st.startswith("var "):
                    st = "{ " + st + " }"   # only the statements above declare top-level names
                out.append((st, None))
        return out


def assemble(stmts):
    """Program text with progress markers, and the list of top-level names per marker index."""
    parts = []
    names = []
    for i, (s, n) in enumerate(stmts):
        parts.append(s)
        parts.append(f'hout("T{i}")')
        names.append(n)
    return ";\n".join(parts), names


def programs(seed, n_random):
    out = [assemble(p) for p in FIXED]
    g = Gen(seed)
    for _ in range(n_random):
        out.append(assemble(g.program()))
    return out
