"""Offline setup: pre-builds the drivers every quick check needs (python3 -m gen.setup)."""
import sys

from . import lib

DRIVERS = [("vdrive", "plain"), ("vdrive", "asan"), ("vd_threads", "plain"), ("vd_threads", "tsan"), ("vd_engines", "plain"), ("vd_arith", "plain"), ("vd_dispatch", "plain")]


def main():
    try:
        lib.build_many(DRIVERS)
    except lib.Infra as e:
        print(e, file=sys.stderr)
        return 2
    return 0


if __name__ == "__main__":
    sys.exit(main())
