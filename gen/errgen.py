"""Seeded generator of C20 cases: multi-line programs in several chunks (each evaluated under its own file name, some
from real files), laid out with random blank lines, comments, indentation and LF / CRLF / mixed line ends; a chain of
script functions defined in different chunks, nested calls at labelled call sites, and ONE injected fault (unknown
identifier, unknown function, no matching overload, wrong arity) at a known place and call depth.
The AST (ChaiCore node kinds, labels "lab" on every call / out node and on the failing identifier) goes to TLC; the text
goes to the engine; the layout pass records the ground-truth (line, column) of every label as it writes the text."""
import random

from . import coregen

SEP, LB, RB, NL, COMMA = "\x03", "\x04", "\x05", "\x06", "\x07"


class EG:
    def __init__(self, seed):
        self.r = random.Random(seed)

    def fresh(self, p):
        self.n += 1
        return f"{p}{self.n}"

    def lab(self):
        self.l += 1
        return self.l

    def call(self, f, args):
        return {"k": "call", "f": f, "a": args, "lab": self.lab()}

    def out(self, e):
        return {"k": "out", "e": e, "lab": self.lab()}

    def iexpr(self, env, d=1):
        r = self.r
        c = r.random()
        if d <= 0 or c < 0.35 or not env:
            return {"k": "int", "v": r.randint(0, 9)} if (not env or r.random() < 0.5) else {"k": "id", "n": r.choice(env)}
        if c < 0.7:
            return {"k": "bin", "op": r.choice(["+", "-", "*"]), "l": self.iexpr(env, d - 1), "r": self.iexpr(env, d - 1)}
        if c < 0.80:
            return self.call(r.choice(["h1", "h2"]), [self.iexpr(env, d - 1)])
        if c < 0.85:
            return self.call("h3", [self.iexpr(env, d - 1), self.iexpr(env, d - 1)])
        return {"k": "tern", "c": {"k": "bin", "op": "<", "l": self.iexpr(env, 0), "r": self.iexpr(env, 0)}, "t": self.iexpr(env, d - 1), "f": self.iexpr(env, d - 1)}

    def filler(self, env, d=1):
        r = self.r
        c = r.random()
        if c < 0.3:
            n = self.fresh("v")
            s = {"k": "var", "n": n, "e": self.iexpr(env, 2)}
            env.append(n)
            return s
        if c < 0.5:
            return self.out(self.iexpr(env, 2))
        if c < 0.62 and [n for n in env if n[0] == "v"]:
            # parameters are never assigned (they are bound to the caller's possibly const argument), nor are loop counters
            return {"k": "asg", "l": {"k": "id", "n": r.choice([n for n in env if n[0] == "v"])}, "e": self.iexpr(env, 1)}
        if c < 0.75 and d > 0:
            he = r.random() < 0.5
            return {"k": "if", "c": {"k": "bin", "op": r.choice(["<", ">", "=="]), "l": self.iexpr(env, 1), "r": self.iexpr(env, 0)},
                    "t": [self.filler(list(env), d - 1) for _ in range(r.randint(1, 2))], "ei": [], "haselse": he,
                    "f": [self.filler(list(env), d - 1)] if he else []}
        if c < 0.85 and d > 0:
            i = self.fresh("i")
            return {"k": "for", "i": {"k": "var", "n": i, "e": {"k": "int", "v": 0}},
                    "c": {"k": "bin", "op": "<", "l": {"k": "id", "n": i}, "r": {"k": "int", "v": r.randint(1, 2)}},
                    "s": {"k": "inc", "l": {"k": "id", "n": i}}, "b": [self.filler(env + [i], d - 1)]}
        return {"k": "expr", "e": self.call(r.choice(["h1", "h2"]), [self.iexpr(env, 1)])}

    def wrap_site(self, site_expr, env):
        """a statement (list) that evaluates site_expr, possibly nested in other constructs that stay on the error's path"""
        r = self.r
        c = r.random()
        if c < 0.18:
            st = [{"k": "expr", "e": site_expr}]
        elif c < 0.34:
            st = [{"k": "var", "n": self.fresh("y"), "e": site_expr}]
        elif c < 0.46:
            st = [self.out(site_expr)]
        elif c < 0.50:
            st = [{"k": "expr", "e": self.call("h1", [site_expr])}]
        elif c < 0.56:
            st = [{"k": "expr", "e": self.call("h3", [self.iexpr(env, 1), site_expr])}]        # after a comma: possibly on a continuation line
        elif c < 0.68:
            st = [{"k": "var", "n": self.fresh("y"), "e": {"k": "bin", "op": "+", "l": self.iexpr(env, 1), "r": site_expr}}]
        elif c < 0.76 and self.infun:
            st = [{"k": "ret", "e": site_expr}]
        elif c < 0.88:
            q = self.fresh("q")
            l = self.fresh("l")
            st = [{"k": "var", "n": l, "e": {"k": "lambda", "caps": [], "params": [{"n": q, "ty": ""}], "b": [{"k": "expr", "e": self.rebind(site_expr, env, q)}]}},
                  {"k": "expr", "e": self.call(l, [self.iexpr(env, 0)])}]
        else:
            st = [{"k": "expr", "e": {"k": "tern", "c": {"k": "bool", "v": True}, "t": site_expr, "f": {"k": "int", "v": 0}}}]
        # nest in blocks
        for _ in range(r.choice([0, 0, 1, 1, 2])):
            k = r.random()
            if k < 0.4:
                st = [{"k": "if", "c": {"k": "bool", "v": True}, "t": [self.filler(list(env), 0)] + st, "ei": [], "haselse": r.random() < 0.4, "f": [self.filler(list(env), 0)]}]
                if not st[0]["haselse"]:
                    st[0]["f"] = []
            elif k < 0.7:
                i = self.fresh("i")
                st = [{"k": "for", "i": {"k": "var", "n": i, "e": {"k": "int", "v": 0}},
                       "c": {"k": "bin", "op": "<", "l": {"k": "id", "n": i}, "r": {"k": "int", "v": 2}}, "s": {"k": "inc", "l": {"k": "id", "n": i}}, "b": st}]
            elif k < 0.85:
                st = [{"k": "block", "b": [self.filler(list(env), 0)] + st}]
            else:
                w = self.fresh("w")
                st = [{"k": "var", "n": w, "e": {"k": "int", "v": 0}},
                      {"k": "while", "c": {"k": "bin", "op": "<", "l": {"k": "id", "n": w}, "r": {"k": "int", "v": 1}}, "b": [{"k": "inc", "l": {"k": "id", "n": w}}] + st}]
        return st

    def rebind(self, e, env, q):
        """inside a lambda nothing of the enclosing scope is visible: identifiers of env become the lambda's parameter"""
        if isinstance(e, dict):
            if e.get("k") == "id" and e["n"] in env:
                return {**e, "n": q}
            return {k: self.rebind(v, env, q) for k, v in e.items()}
        if isinstance(e, list):
            return [self.rebind(v, env, q) for v in e]
        return e

    def fault(self, env):
        r = self.r
        kind = r.choice(["id", "id", "unknown_fn", "overload", "arity", "id_in_args"])
        self.fault_kind = kind
        bad = {"k": "id", "n": self.fresh("nosuch"), "lab": self.lab()}
        if kind == "id":
            return r.choice([bad, {"k": "bin", "op": "+", "l": self.iexpr(env, 1), "r": bad}, {"k": "bin", "op": "*", "l": bad, "r": self.iexpr(env, 0)}])
        if kind == "unknown_fn":
            return self.call(self.fresh("nofn"), [self.iexpr(env, 1)])
        if kind == "overload":
            return self.call("tf", [{"k": "str", "v": "s"}])
        if kind == "arity":
            return self.call("h1", [self.iexpr(env, 0), self.iexpr(env, 0), self.iexpr(env, 0)])
        return self.call("h2", [{"k": "bin", "op": "-", "l": self.iexpr(env, 0), "r": bad}])

    def case(self):
        r = self.r
        self.n = 0
        self.l = 0
        depth = r.choice([0, 1, 1, 2, 2, 3, 3, 4])
        nchunks = r.randint(2, 4)
        one = lambda n, b: {"k": "def", "n": n, "params": [{"n": "a", "ty": ""}], "guarded": False, "guard": {"k": "bool", "v": True}, "b": b}
        helpers = [one("h1", [{"k": "expr", "e": {"k": "bin", "op": "+", "l": {"k": "id", "n": "a"}, "r": {"k": "int", "v": 1}}}]),
                   one("h2", [{"k": "var", "n": "t", "e": {"k": "bin", "op": "*", "l": {"k": "id", "n": "a"}, "r": {"k": "int", "v": 2}}}, {"k": "expr", "e": {"k": "id", "n": "t"}}]),
                   {"k": "def", "n": "h3", "params": [{"n": "a", "ty": ""}, {"n": "b", "ty": ""}], "guarded": False, "guard": {"k": "bool", "v": True},
                    "b": [{"k": "expr", "e": {"k": "bin", "op": "-", "l": {"k": "id", "n": "a"}, "r": {"k": "id", "n": "b"}}}]},
                   {"k": "def", "n": "tf", "params": [{"n": "x", "ty": "int"}], "guarded": False, "guard": {"k": "bool", "v": True}, "b": [{"k": "expr", "e": {"k": "id", "n": "x"}}]}]
        chunks = [[] for _ in range(nchunks)]
        chunks[0] += helpers
        names = [self.fresh("f") for _ in range(depth)]
        self.infun = True
        for k in range(depth - 1, -1, -1):
            env = ["a"]
            body = [self.filler(env) for _ in range(r.randint(0, 3))]
            inner = self.fault(env) if k == depth - 1 else self.call(names[k + 1], [self.iexpr(env, 1)])
            body += self.wrap_site(inner, env)
            body += [self.filler(env) for _ in range(r.randint(0, 2))]
            body.append({"k": "expr", "e": self.iexpr(env, 1)})
            chunks[r.randrange(0, nchunks - 1)].append(one(names[k], body))
        for ci, c in enumerate(chunks[:-1]):
            for _ in range(r.randint(0, 2)):
                c.insert(r.randint(len(helpers) if ci == 0 else 0, len(c)), self.filler([], 1))
        # the trigger chunk
        self.infun = False
        env = []
        top = [self.filler(env) for _ in range(r.randint(0, 3))]
        inner = self.fault(env) if depth == 0 else self.call(names[0], [self.iexpr(env, 1)])
        top += self.wrap_site(inner, env)
        top += [self.filler(env) for _ in range(r.randint(0, 2))]
        chunks[-1] = top
        return {"chunks": chunks, "depth": depth, "fault": self.fault_kind}


COMMENTS = ["// note", "// a // b", "//", "# anno", "/* c */", "/* two\nlines */", "/* a\n\n b */"]


def layout(prog, rnd, mode):
    """prints a chunk and lays it out.  mode: 'lf' | 'crlf' | 'mixed'.  Returns (text, {lab: (line, col)})"""
    saved = dict(coregen.LAYOUT)
    coregen.LAYOUT.update({"sep": SEP, "lb": LB, "rb": RB, "nl": NL, "comma": COMMA})
    try:
        raw = coregen.program_text(prog)
    finally:
        coregen.LAYOUT.update(saved)

    def nl():
        return "\r\n" if mode == "crlf" or (mode == "mixed" and rnd.random() < 0.5) else "\n"

    def indent():
        return rnd.choice(["", "", " ", "  ", "\t", "    "])

    def comment_line():
        c = rnd.choice(COMMENTS)
        return c.replace("\n", nl()) if mode != "lf" else c

    def sep():
        k = rnd.random()
        if k < 0.15:
            return "; "
        if k < 0.40:
            return nl() + indent()
        if k < 0.50:
            return ";" + nl() + indent()
        if k < 0.60:
            return nl() + nl() + indent()
        if k < 0.78:
            return rnd.choice(["", " ", ";", "; "]) + " " + comment_line() + nl() + indent()
        if k < 0.90:
            return nl() + indent() + comment_line() + nl() + indent()
        return nl() + indent() + comment_line() + nl() + nl() + comment_line() + nl() + indent()

    out = []
    pos = {}
    i = 0
    while i < len(raw):
        ch = raw[i]
        if ch == "\x01":
            j = raw.index("\x02", i)
            pos[int(raw[i + 1:j])] = sum(len(x) for x in out)
            i = j + 1
            continue
        if ch in (SEP, NL):
            out.append(sep())
        elif ch == COMMA:
            # an argument list may continue on the next line
            out.append(rnd.choice([", ", ", ", ",", "," + nl() + indent(), ", " + nl() + indent() + " ", ", // arg" + nl() + indent()]))
        elif ch == LB:
            out.append(rnd.choice(["{ ", "{", "{" + nl() + indent(), "{ " + comment_line().split("\n")[0].replace("/* c */", "// c").replace("/* two", "// two").replace("/* a", "// a") + nl() + indent()]))
        elif ch == RB:
            out.append(rnd.choice([" }", "}", nl() + "}", nl() + indent() + "}", " /* end */ }"]))
        else:
            out.append(ch)
        i += 1
    text = "".join(out)
    if rnd.random() < 0.3:
        lead = rnd.choice([nl(), comment_line() + nl(), nl() + nl(), "  "])
        text = lead + text
        pos = {k: v + len(lead) for k, v in pos.items()}
    if rnd.random() < 0.5:
        text += rnd.choice([nl(), " // end", nl() + nl()])
    truth = {}
    for lab, off in pos.items():
        before = text[:off]
        line = before.count("\n") + 1
        col = off - (before.rfind("\n") + 1) + 1
        truth[lab] = (line, col, off)
    return text, truth


CLASS = {"\n": "nl", "\r": "cr", " ": "sp", "\t": "sp", "/": "sl", "*": "st", "#": "hs", ";": "sc", ".": "dot"}


def classes(text):
    return [CLASS.get(c, "v") for c in text]
