INIT Init
NEXT Next
INVARIANT CacheInvisible
CONSTANTS Names = {"a","h","this"} Sites = {1,2} MaxScopes = 3 MaxSlots = 3 MaxSteps = 10 Validated = FALSE
