#include <chaiscript/chaiscript.hpp>
using namespace chaiscript;
struct Obj { int v = 1; void set(int x) { v = x; } int get() const { return v; } };
static void mut_ref(int &x) { x = 77; } static void mut_ptr(int *x) { *x = 78; } static void mut_sp(std::shared_ptr<int> x) { *x = 79; }
static void mut_str(std::string &s) { s = "changed"; } static void mut_obj(Obj &o) { o.v = 80; }
int main() {
  const char *attempts[] = {
    "CI = 5", "CI += 1", "++CI", "CI *= 2", "CI <<= 1", "CI %= 3", "CI &= 1", "mut_ref(CI)", "mut_ptr(CI)", "mut_sp(CI)",
    "var &r = CI; r = 5", "var r := CI; r = 5", "var r; r := CI; ++r", "def f(x) { x = 5 }; f(CI)", "def f(x) { ++x }; f(CI)", "var l = fun[CI]() { CI = 5 }; l()",
    "var v = [CI]; v[0] = 5", "var v = []; v.push_back_ref(CI); v[0] = 5", "var v = []; v.push_back(CI); v[0] = 5; 0", "def id(x) { x }; id(CI) = 5", "var m = [\"k\": CI]; m[\"k\"] = 5; 0",
    "for (x : [CI]) { x = 5 }", "var p = Pair(CI, 1); p.first = 5", "bind(fun(x) { x = 5 }, CI)()", "CI.`=`(5)", "`+=`(CI, 1)", "`++`(CI)",
    "CS = \"x\"", "CS += \"x\"", "CS.push_back('x')", "CS.clear()", "mut_str(CS)", "CS[0] = 'z'", "var &r = CS; r.clear()", "def f(s) { s += \"q\" }; f(CS)", "CS.insert_at(0, 'q')", "CS.erase_at(0)",
    "CO.set(9)", "CO.v = 9", "mut_obj(CO)", "var &r = CO; r.set(9)", "def f(o) { o.v = 9 }; f(CO)", "CO = Obj()",
    "CV.push_back(4)", "CV.clear()", "CV[0] = 9", "CV.pop_back()", "CV.resize(0)", "var &r = CV; r.clear()", "for (x : CV) { x = 9 }", "CV.insert_at(0, 9)", "CV.erase_at(0)", "range(CV).front() = 9", "CV.front() = 9", "CV.back() = 9",
    "CM[\"a\"] = 9", "CM[\"new\"] = 1", "CM.erase(\"a\")", "CM.clear()", "CM.at(\"a\") = 9", "for (p : CM) { p.second = 9 }",
    "1 = 2", "\"lit\" += \"x\"", "var &r = 5; r = 6", "[1,2].push_back(3)",
  };
  for (auto a : attempts) {
    ChaiScript chai;
    const int ci = 1; const std::string cs = "abc"; const Obj co{}; 
    std::vector<Boxed_Value> cvv{var(1), var(2)}; std::map<std::string, Boxed_Value> cmm{{"a", var(1)}};
    chai.add(user_type<Obj>(), "Obj"); chai.add(constructor<Obj()>(), "Obj"); chai.add(constructor<Obj(const Obj &)>(), "Obj"); chai.add(fun(&Obj::set), "set"); chai.add(fun(&Obj::get), "get"); chai.add(fun(&Obj::v), "v");
    chai.add(fun([](Obj &l, const Obj &r) -> Obj & { return l = r; }), "=");
    chai.add(fun(&mut_ref), "mut_ref"); chai.add(fun(&mut_ptr), "mut_ptr"); chai.add(fun(&mut_sp), "mut_sp"); chai.add(fun(&mut_str), "mut_str"); chai.add(fun(&mut_obj), "mut_obj");
    chai.add_global_const(const_var(&ci), "CI"); chai.add_global_const(const_var(&cs), "CS"); chai.add_global_const(const_var(&co), "CO");
    auto cvb = const_var(cvv); auto cmb = const_var(cmm);
    chai.add_global_const(cvb, "CV"); chai.add_global_const(cmb, "CM");
    std::string oc = "ok";
    try { chai.eval(a); } catch (const exception::eval_error &) { oc = "ee"; } catch (const std::exception &) { oc = "ex"; } catch (...) { oc = "other"; }
    const auto &v2 = boxed_cast<const std::vector<Boxed_Value> &>(cvb); const auto &m2 = boxed_cast<const std::map<std::string, Boxed_Value> &>(cmb);
    bool changed = ci != 1 || cs != "abc" || co.v != 1 || v2.size() != 2 || boxed_cast<int>(v2[0]) != 1 || boxed_cast<int>(v2[1]) != 2 || m2.size() != 1 || boxed_cast<int>(m2.at("a")) != 1;
    if (changed || oc == "ok") printf("%-8s %-3s  %s\n", changed ? "CHANGED" : "same", oc.c_str(), a);
  }
}
