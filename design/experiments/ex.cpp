#include <chaiscript/chaiscript.hpp>
using namespace chaiscript;
struct UserEx { int code; };
static std::string out;
int main() {
  const char *throwers[] = {"throw(1)", "throw(\"s\")", "throw(2.5)", "t_runtime()", "t_logic()", "t_oor()", "t_user()", "t_int()", "nosuch_fn()", "throw(runtime_error(\"r\"))", "t_badcast()"};
  const char *clauses[] = {"int", "string", "double", "exception", "runtime_error", "logic_error", "out_of_range", "eval_error", "UserEx", ""};
  printf("%-28s", "thrown \\ catch(T e)");
  for (auto c : clauses) printf("%-14s", *c ? c : "(untyped)"); printf("| uncaught-type\n");
  for (auto t : throwers) {
    printf("%-28s", t);
    for (auto c : clauses) {
      ChaiScript chai;
      chai.add(user_type<UserEx>(), "UserEx");
      chai.add(fun([]() { throw std::runtime_error("rt"); }), "t_runtime");
      chai.add(fun([]() { throw std::logic_error("lg"); }), "t_logic");
      chai.add(fun([]() { throw std::out_of_range("oor"); }), "t_oor");
      chai.add(fun([]() { throw UserEx{3}; }), "t_user");
      chai.add(fun([]() { throw 7; }), "t_int");
      chai.add(fun([]() { throw std::bad_cast(); }), "t_badcast");
      std::string prog = std::string("var r = \"none\"; try { ") + t + " } catch(" + (*c ? std::string(c) + " e" : std::string("e")) + ") { r = \"HIT\" }; r";
      std::string res;
      try { res = chai.eval<std::string>(prog); } catch (const exception::eval_error &) { res = "esc:ee"; } catch (const Boxed_Value &) { res = "esc:bv"; } catch (const std::out_of_range &) { res = "esc:oor"; } catch (const std::logic_error &) { res = "esc:logic"; } catch (const std::runtime_error &) { res = "esc:rt"; } catch (const std::exception &) { res = "esc:std"; } catch (const UserEx &) { res = "esc:user"; } catch (int) { res = "esc:int"; } catch (...) { res = "esc:?"; }
      printf("%-14s", res.c_str());
    }
    printf("\n");
  }
}
