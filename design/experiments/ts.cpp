#include <chaiscript/chaiscript.hpp>
#include <thread>
#include <fstream>
using namespace chaiscript;
struct B0 { virtual ~B0() = default; int v = 1; }; struct D0 : B0 {}; struct D1 : B0 {}; struct D2 : B0 {}; struct D3 : B0 {};
int main(int argc, char **argv) {
  int T = argc > 1 ? atoi(argv[1]) : 4;
  { std::ofstream f("/tmp/exp/t1/used.chai"); f << "global use_counter = 0; use_counter = use_counter + 1; def shared_fn(x) { var loc = x * 2; loc }\n"; }
  ChaiScript chai({}, {"/tmp/exp/t1/"});
  chai.add(user_type<B0>(), "B0"); chai.add(fun([](const B0 &b) { return b.v; }), "takes_b0");
  chai.add(user_type<D0>(), "D0"); chai.add(constructor<D0()>(), "D0"); chai.add(user_type<D1>(), "D1"); chai.add(constructor<D1()>(), "D1");
  chai.add(user_type<D2>(), "D2"); chai.add(constructor<D2()>(), "D2"); chai.add(user_type<D3>(), "D3"); chai.add(constructor<D3()>(), "D3");
  chai.add(base_class<B0, D0>());
  std::vector<std::thread> th; std::atomic<int> errors{0};
  for (int t = 0; t < T; ++t) th.emplace_back([&chai, &errors, t] {
    try {
      chai.use("used.chai");
      if (t % 4 == 1) chai.add(base_class<B0, D1>());
      if (t % 4 == 2) chai.add(base_class<B0, D2>());
      if (t % 4 == 3) chai.add(base_class<B0, D3>());
      for (int i = 0; i < 30; ++i) {
        std::string id = std::to_string(t) + "_" + std::to_string(i);
        int r = chai.eval<int>("def f_" + id + "(x) { x + " + std::to_string(i) + " }; { var loc = shared_fn(" + std::to_string(t) + "); f_" + id + "(loc) + takes_b0(D0()) }");
        if (r != 2 * t + i + 1) ++errors;
        chai.add_global(var(t), "g_" + id);
        if (i % 10 == 0) { auto s = chai.get_state(); (void)s; }
        chai.eval("class C_" + id + " { var a; def C_" + id + "() { this.a = " + std::to_string(i) + " }; def get() { this.a } }; C_" + id + "().get()");
      }
    } catch (const std::exception &e) { fprintf(stderr, "thread %d: %s\n", t, e.what()); ++errors; }
  });
  for (auto &x : th) x.join();
  printf("errors=%d use_counter=%d\n", errors.load(), chai.eval<int>("use_counter"));
}
