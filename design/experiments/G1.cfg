INIT Init
NEXT Next
