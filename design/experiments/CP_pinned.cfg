INIT Init
NEXT Next
INVARIANT Refines
CONSTANTS MaxLen = 5 Repaired = FALSE
CHECK_DEADLOCK FALSE
