#include <chaiscript/chaiscript.hpp>
#include <iostream>
using namespace chaiscript;
struct Base { virtual ~Base() = default; int b = 1; };
struct Derived : Base { int d = 2; };
static int entered = -1; static int count_entered = 0;
#define ENTER(k) do { entered = k; ++count_entered; } while (0)
static std::vector<std::pair<std::string, Proxy_Function>> catalogue() {
  return {
    {"int,int",       fun([](int, int) { ENTER(0); })},
    {"double,double", fun([](double, double) { ENTER(1); })},
    {"int,double",    fun([](int, double) { ENTER(2); })},
    {"cstring&,int",  fun([](const std::string &, int) { ENTER(3); })},
    {"BV,BV",         fun([](const Boxed_Value &, const Boxed_Value &) { ENTER(4); })},
    {"BN,BN",         fun([](const Boxed_Number &, const Boxed_Number &) { ENTER(5); })},
    {"Base&,int",     fun([](Base &, int) { ENTER(6); })},
    {"cBase&,int",    fun([](const Base &, int) { ENTER(7); })},
    {"int&,int",      fun([](int &, int) { ENTER(8); })},
    {"BV,int",        fun([](const Boxed_Value &, int) { ENTER(9); })},
    {"int,BV",        fun([](int, const Boxed_Value &) { ENTER(10); })},
    {"Derived&,double", fun([](Derived &, double) { ENTER(11); })},
  };
}
int main() {
  auto cat = catalogue();
  const Derived cderived{};
  std::vector<std::pair<std::string, std::string>> args = {{"ivar", "iv"}, {"ilit", "5"}, {"dvar", "dv"}, {"svar", "sv"}, {"Dobj", "dobj"}, {"cDobj", "cdobj"}, {"lvar", "lv"}, {"Bobj", "bobj"}};
  for (size_t i = 0; i < cat.size(); ++i) for (size_t j = 0; j <= cat.size(); ++j) {
    if (j == i) continue;
    ChaiScript chai;
    chai.add(user_type<Base>(), "Base"); chai.add(user_type<Derived>(), "Derived"); chai.add(base_class<Base, Derived>());
    chai.add(cat[i].second, "ov"); if (j < cat.size()) chai.add(cat[j].second, "ov");
    chai.add(var(1), "iv"); chai.add(var(2.5), "dv"); chai.add(var(std::string("x")), "sv");
    chai.add(var(Derived()), "dobj"); chai.add(var(Base()), "bobj"); chai.add(const_var(cderived), "cdobj"); chai.add(var(7L), "lv");
    for (auto &a : args) for (auto &b : args) {
      entered = -1; count_entered = 0; std::string oc = "ok";
      try { chai.eval("ov(" + a.second + ", " + b.second + ")"); } catch (const exception::eval_error &) { oc = "ee"; } catch (const std::exception &) { oc = "ex"; } catch (...) { oc = "other"; }
      std::cout << "{\"first\":\"" << cat[i].first << "\",\"second\":\"" << (j < cat.size() ? cat[j].first : "") << "\",\"a1\":\"" << a.first << "\",\"a2\":\"" << b.first << "\",\"oc\":\"" << oc << "\",\"entered\":\"" << (entered >= 0 ? cat[entered].first : "") << "\",\"n\":" << count_entered << "}\n";
    }
  }
}
