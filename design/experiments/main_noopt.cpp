// This file is distributed under the BSD License.
// See "license.txt" for details.
// Copyright 2009-2012, Jonathan Turner (jonathan@emptycrate.com)
// Copyright 2009-2018, Jason Turner (jason@emptycrate.com)
// http://www.chaiscript.com

// This is an open source non-commercial project. Dear PVS-Studio, please check it.
// PVS-Studio Static Code Analyzer for C, C++ and C#: http://www.viva64.com

#include <iostream>
#include <list>
#include <regex>

#ifdef _MSC_VER
#define _CRT_SECURE_NO_WARNINGS
#endif



#include <chaiscript/chaiscript.hpp>
struct NopPass { template<typename T> auto optimize(chaiscript::eval::AST_Node_Impl_Ptr<T> p) { return p; } };

#ifdef READLINE_AVAILABLE
#include <readline/history.h>
#include <readline/readline.h>
#else

char *mystrdup(const char *s) {
  size_t len = strlen(s); // Space for length plus nul
  char *d = static_cast<char *>(malloc(len + 1));
  if (d == nullptr) {
    return nullptr;
  } // No memory
#ifdef CHAISCRIPT_MSVC
  strcpy_s(d, len + 1, s); // Copy the characters
#else
  strncpy(d, s, len); // Copy the characters
#endif
  d[len] = '\0';
  return d; // Return the new string
}

char *readline(const char *p) {
  std::string retval;
  std::cout << p;
  std::getline(std::cin, retval);
  return std::cin.eof() ? nullptr : mystrdup(retval.c_str());
}

void add_history(const char * /*unused*/) {}
void using_history() {}
#endif

void *cast_module_symbol(std::vector<std::string> (*t_path)()) {
  union cast_union {
    std::vector<std::string> (*in_ptr)();
    void *out_ptr;
  };

  cast_union c;
  c.in_ptr = t_path;
  return c.out_ptr;
}

std::vector<std::string> default_search_paths() {
  std::vector<std::string> paths;

#ifndef CHAISCRIPT_NO_DYNLOAD
#ifdef CHAISCRIPT_WINDOWS // force no unicode
  CHAR path[4096];
  int size = GetModuleFileNameA(nullptr, path, sizeof(path) - 1);

  std::string exepath(path, size);

  size_t lastslash = exepath.rfind('\\');
  size_t secondtolastslash = exepath.rfind('\\', lastslash - 1);
  if (lastslash != std::string::npos) {
    paths.push_back(exepath.substr(0, lastslash));
  }

  if (secondtolastslash != std::string::npos) {
    return {exepath.substr(0, secondtolastslash) + "\\lib\\chaiscript\\"};
  }
#else

  std::string exepath;

  std::vector<char> buf(2048);
  ssize_t size = -1;

  if ((size = readlink("/proc/self/exe", &buf.front(), buf.size())) >= 0) {
    exepath = std::string(&buf.front(), static_cast<size_t>(size));
  }

  if (exepath.empty()) {
    if ((size = readlink("/proc/curproc/file", &buf.front(), buf.size())) >= 0) {
      exepath = std::string(&buf.front(), static_cast<size_t>(size));
    }
  }

  if (exepath.empty()) {
    if ((size = readlink("/proc/self/path/a.out", &buf.front(), buf.size())) >= 0) {
      exepath = std::string(&buf.front(), static_cast<size_t>(size));
    }
  }

  if (exepath.empty()) {
    Dl_info rInfo;
    memset(&rInfo, 0, sizeof(rInfo));
    if (dladdr(cast_module_symbol(&default_search_paths), &rInfo) == 0 || rInfo.dli_fname == nullptr) {
      return paths;
    }

    exepath = std::string(rInfo.dli_fname);
  }

  size_t lastslash = exepath.rfind('/');

  size_t secondtolastslash = exepath.rfind('/', lastslash - 1);
  if (lastslash != std::string::npos) {
    paths.push_back(exepath.substr(0, lastslash + 1));
  }

  if (secondtolastslash != std::string::npos) {
    paths.push_back(exepath.substr(0, secondtolastslash) + "/lib/chaiscript/");
  }
#endif
#endif // ifndef CHAISCRIPT_NO_DYNLOAD

  return paths;
}

void help(int n) {
  if (n >= 0) {
    std::cout << "ChaiScript evaluator.  To evaluate an expression, type it and press <enter>.\n";
    std::cout << "Additionally, you can inspect the runtime system using:\n";
    std::cout << "  dump_system() - outputs all functions registered to the system\n";
    std::cout << "  dump_object(x) - dumps information about the given symbol\n";
  } else {
    std::cout << "usage : chai [option]+\n";
    std::cout << "option:" << '\n';
    std::cout << "   -h | --help" << '\n';
    std::cout << "   -i | --interactive" << '\n';
    std::cout << "   -c | --command cmd" << '\n';
    std::cout << "   -v | --version" << '\n';
    std::cout << "   -    --stdin" << '\n';
    std::cout << "   filepath" << '\n';
  }
}

std::string throws_exception(const std::function<void()> &f) {
  try {
    f();
  } catch (const std::exception &e) {
    return e.what();
  }

  return "";
}

chaiscript::exception::eval_error get_eval_error(const std::function<void()> &f) {
  try {
    f();
  } catch (const chaiscript::exception::eval_error &e) {
    return e;
  }

  throw std::runtime_error("no exception throw");
}

std::string get_next_command() {
  std::string retval("quit");
  if (!std::cin.eof()) {
    char *input_raw = readline("eval> ");
    if (input_raw != nullptr) {
      add_history(input_raw);

      std::string val(input_raw);
      size_t pos = val.find_first_not_of("\t \n");
      if (pos != std::string::npos) {
        val.erase(0, pos);
      }
      pos = val.find_last_not_of("\t \n");
      if (pos != std::string::npos) {
        val.erase(pos + 1, std::string::npos);
      }

      retval = val;

      ::free(input_raw);
    }
  }
  if (retval == "quit" || retval == "exit" || retval == "help" || retval == "version") {
    retval += "(0)";
  }
  return retval;
}

// We have to wrap exit with our own because Clang has a hard time with
// function pointers to functions with special attributes (system exit being marked NORETURN)
void myexit(int return_val) {
  exit(return_val);
}

void interactive(chaiscript::ChaiScript_Basic &chai) {
  using_history();

  for (;;) {
    std::string input = get_next_command();
    try {
      // evaluate input
      chaiscript::Boxed_Value val = chai.eval(input);

      // Then, we try to print the result of the evaluation to the user
      if (!val.get_type_info().bare_equal(chaiscript::user_type<void>())) {
        try {
          std::cout << chai.eval<std::function<std::string(const chaiscript::Boxed_Value &bv)>>("to_string")(val) << '\n';
        } catch (...) {
        } // If we can't, do nothing
      }
    } catch (const chaiscript::exception::eval_error &ee) {
      std::cout << ee.what();
      if (!ee.call_stack.empty()) {
        std::cout << "during evaluation at (" << ee.call_stack[0].start().line << ", " << ee.call_stack[0].start().column << ")";
      }
      std::cout << '\n';
    } catch (const std::exception &e) {
      std::cout << e.what();
      std::cout << '\n';
    }
  }
}

double now() {
  using namespace std::chrono;
  auto now = high_resolution_clock::now();
  return duration_cast<duration<double>>(now.time_since_epoch()).count();
}

int main(int argc, char *argv[]) {
// Disable deprecation warning for getenv call.
#ifdef CHAISCRIPT_MSVC
#pragma warning(push)
#pragma warning(disable : 4996)
#endif

  const char *usepath = getenv("CHAI_USE_PATH");
  const char *modulepath = getenv("CHAI_MODULE_PATH");

#ifdef CHAISCRIPT_MSVC
#pragma warning(pop)
#endif

  std::vector<std::string> usepaths;
  usepaths.emplace_back("");
  if (usepath != nullptr) {
    usepaths.emplace_back(usepath);
  }

  std::vector<std::string> modulepaths;
  std::vector<std::string> searchpaths = default_search_paths();
  modulepaths.insert(modulepaths.end(), searchpaths.begin(), searchpaths.end());
  modulepaths.emplace_back("");
  if (modulepath != nullptr) {
    modulepaths.emplace_back(modulepath);
  }

  chaiscript::ChaiScript_Basic chai(chaiscript::Std_Lib::library(), std::make_unique<chaiscript::parser::ChaiScript_Parser<chaiscript::eval::Noop_Tracer, chaiscript::optimizer::Optimizer<NopPass>>>(), modulepaths, usepaths);

  chai.add(chaiscript::fun(&myexit), "exit");
  chai.add(chaiscript::fun(&myexit), "quit");
  chai.add(chaiscript::fun(&help), "help");
  chai.add(chaiscript::fun(&throws_exception), "throws_exception");
  chai.add(chaiscript::fun(&get_eval_error), "get_eval_error");
  chai.add(chaiscript::fun(&now), "now");

  bool eval_error_ok = false;
  bool boxed_exception_ok = false;
  bool any_exception_ok = false;

  for (int i = 0; i < argc; ++i) {
    if (i == 0 && argc > 1) {
      ++i;
    }

    std::string arg(i != 0 ? argv[i] : "--interactive");

    enum {
      eInteractive,
      eCommand,
      eFile
    } mode
        = eCommand;

    if (arg == "-c" || arg == "--command") {
      if ((i + 1) >= argc) {
        std::cout << "insufficient input following " << arg << '\n';
        return EXIT_FAILURE;
      }
      arg = argv[++i];

    } else if (arg == "-" || arg == "--stdin") {
      arg = "";
      std::string line;
      while (std::getline(std::cin, line)) {
        arg += line + '\n';
      }
    } else if (arg == "-v" || arg == "--version") {
      arg = "print(version())";
    } else if (arg == "-h" || arg == "--help") {
      arg = "help(-1)";
    } else if (arg == "-e" || arg == "--evalerrorok") {
      eval_error_ok = true;
      continue;
    } else if (arg == "--exception") {
      boxed_exception_ok = true;
      continue;
    } else if (arg == "--any-exception") {
      any_exception_ok = true;
      continue;
    } else if (arg == "-i" || arg == "--interactive") {
      mode = eInteractive;
    } else if (arg.find('-') == 0) {
      std::cout << "unrecognised argument " << arg << '\n';
      return EXIT_FAILURE;
    } else {
      mode = eFile;
    }

    try {
      switch (mode) {
        case eInteractive:
          interactive(chai);
          break;
        case eCommand:
          chai.eval(arg);
          break;
        case eFile:
          chai.eval_file(arg);
      }
    } catch (const chaiscript::exception::eval_error &ee) {
      std::cout << ee.pretty_print();
      std::cout << '\n';

      if (!eval_error_ok) {
        return EXIT_FAILURE;
      }
    } catch (const chaiscript::Boxed_Value &e) {
      std::cout << "Unhandled exception thrown of type " << e.get_type_info().name() << '\n';

      if (!boxed_exception_ok) {
        return EXIT_FAILURE;
      }
    } catch (const chaiscript::exception::load_module_error &e) {
      std::cout << "Unhandled module load error\n"
                << e.what() << '\n';
    } catch (std::exception &e) {
      std::cout << "Unhandled standard exception: " << e.what() << '\n';
      if (!any_exception_ok) {
        throw;
      }
    } catch (...) {
      std::cout << "Unhandled unknown exception" << '\n';
      if (!any_exception_ok) {
        throw;
      }
    }
  }

  return EXIT_SUCCESS;
}
