#include <algorithm>
#include <chaiscript/chaiscript.hpp>
#include <string>
extern "C" int LLVMFuzzerTestOneInput(const uint8_t *data, size_t size) {
  std::string s(reinterpret_cast<const char *>(data), size);
  try { auto j = chaiscript::json::JSON::Load(s); auto d = j.dump(); auto j2 = chaiscript::json::JSON::Load(d); if (j2.dump() != d) __builtin_trap(); }
  catch (const std::exception &) { }
  return 0;
}
