#include <chaiscript/chaiscript.hpp>
#include <fstream>
#include <iostream>
#include <sys/wait.h>
#include <unistd.h>
using namespace chaiscript;
struct NopPass { template<typename T> auto optimize(eval::AST_Node_Impl_Ptr<T> p) { return p; } };
static std::string out;
template<typename P> std::string run(const std::string& s){
  ChaiScript_Basic chai(Std_Lib::library(), std::make_unique<P>());
  out.clear();
  chai.add(fun([](const std::string &x){ out += x + "|"; }), "hout");
  chai.eval("def out(x) { hout(to_string(x)) }");
  std::string r;
  try { auto v = chai.eval(s); 
        if (v.is_undef()) r = "undef"; else if (v.get_type_info().bare_equal(user_type<void>())) r = "void";
        else { try { r = chai.eval<std::function<std::string (const Boxed_Value&)>>("to_string")(v); } catch (...) { r = std::string("<") + chai.get_type_name(v.get_type_info()) + ">"; } r += ":" + chai.get_type_name(v.get_type_info()) + (v.is_const()?" const":""); } }
  catch (const exception::eval_error &e) { r = "eval_error(" + e.reason + ")"; }
  catch (const Boxed_Value &bv) { r = "thrown Boxed_Value<" + chai.get_type_name(bv.get_type_info()) + ">"; }
  catch (const std::exception &e) { r = std::string("std::exception(") + e.what() + ")"; }
  return "out=[" + out + "] -> " + r;
}
int main(int argc, char**argv){
  std::ifstream f(argv[1]); std::string line;
  while (std::getline(f, line)) { if (line.empty()) continue;
    std::cout.flush(); pid_t p = fork();
    if (p == 0) {
    auto a = run<parser::ChaiScript_Parser<eval::Noop_Tracer, optimizer::Optimizer_Default>>(line);
    auto b = run<parser::ChaiScript_Parser<eval::Noop_Tracer, optimizer::Optimizer<NopPass>>>(line);
    std::cout << line << "\n    " << a << (a==b ? "" : "\n    NOOPT DIFFERS: " + b) << "\n"; std::cout.flush(); _exit(0); }
    int st = 0; waitpid(p, &st, 0); if (!(WIFEXITED(st) && WEXITSTATUS(st) == 0)) std::cout << line << "\n    out=[] -> CHILD DIED status " << st << "\n"; }
}
