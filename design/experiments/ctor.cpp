#include <chaiscript/chaiscript.hpp>
#include <chrono>
int main(){ using namespace std::chrono; auto t0=steady_clock::now(); int n=20; for(int i=0;i<n;++i){ chaiscript::ChaiScript chai; chai.eval("1+1"); } auto t1=steady_clock::now();
 printf("ctor+eval: %.1f ms each\n", duration<double,std::milli>(t1-t0).count()/n);
 chaiscript::ChaiScript chai; auto st = chai.get_state(); t0=steady_clock::now(); int m=2000; for(int i=0;i<m;++i){ chai.eval("def f"+std::to_string(i)+"(x) { var y = x + 1; y * 2 }; f"+std::to_string(i)+"(3)"); } t1=steady_clock::now();
 printf("small program eval: %.3f ms each\n", duration<double,std::milli>(t1-t0).count()/m);
 t0=steady_clock::now(); for(int i=0;i<200;++i){ chai.set_state(st); chai.set_locals({}); } t1=steady_clock::now();
 printf("set_state: %.3f ms each\n", duration<double,std::milli>(t1-t0).count()/200);
}
