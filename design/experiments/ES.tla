---- MODULE ES ----
EXTENDS Integers, Sequences, FiniteSets, TLC, SequencesExt
CONSTANTS Names, Sites, MaxScopes, MaxSlots, MaxSteps, Validated, Full
\* site k always looks up name SiteName[k]
SiteName == [s \in Sites |-> IF s = 1 THEN "a" ELSE IF s = 2 THEN "h" ELSE "a"]
VARIABLES frame,   \* Seq of scopes; scope = Seq of names (current frame only; frames are independent)
          hint,    \* [Sites -> <<kind, dist, slot>>]  kind \in {"none","local","nonlocal"}
          globals, \* set of names
          steps, bad
vars == <<frame, hint, globals, steps, bad>>
None == <<"none", 0, 0>>
Init == frame = << <<>> >> /\ hint = [s \in Sites |-> None] /\ globals \in SUBSET Names /\ steps = 0 /\ bad = "ok"

RECURSIVE Find(_,_,_)
\* innermost-out search: returns <<dist, slot>> (0-based) or <<-1,-1>>
Find(fr, n, d) == IF d >= Len(fr) THEN <<-1, -1>> ELSE
   LET sc == fr[Len(fr) - d] IN LET i == SelectInSeq(sc, LAMBDA x : x = n) IN
   IF i # 0 THEN <<d, i-1>> ELSE Find(fr, n, d+1)
ByName(n) == LET r == Find(frame, n, 0) IN
   IF r[1] >= 0 THEN <<"local", r[1], r[2]>> ELSE IF n \in globals THEN <<"global", 0, 0>> ELSE <<"unbound", 0, 0>>

Push == Len(frame) < MaxScopes /\ frame' = Append(frame, <<>>) /\ UNCHANGED <<hint, globals, bad>>
Pop == Len(frame) > 1 /\ frame' = SubSeq(frame, 1, Len(frame)-1) /\ UNCHANGED <<hint, globals, bad>>
Decl(n) == /\ Len(frame[Len(frame)]) < MaxSlots
           /\ ~ (\E i \in 1..Len(frame[Len(frame)]) : frame[Len(frame)][i] = n)
           /\ frame' = [frame EXCEPT ![Len(frame)] = Append(@, n)]
           /\ UNCHANGED <<hint, globals, bad>>
\* new function call = fresh frame; model as reset of frame to a prologue chosen by TLC
NewCall == \E pro \in {<<>>, <<"this">>} : frame' = << pro >> /\ UNCHANGED <<hint, globals, bad>>

Lookup(s) ==
  LET n == SiteName[s]  h == hint[s]  truth == ByName(n) IN
  /\ truth[1] # "unbound"
  /\ IF h[1] = "none" THEN
        /\ hint' = [hint EXCEPT ![s] = IF truth[1] = "local" THEN truth ELSE <<"nonlocal", 0, 0>>]
        /\ bad' = bad
     ELSE IF h[1] = "local" THEN
        LET inrange == h[2] < Len(frame) /\ h[3] < Len(frame[Len(frame) - h[2]]) IN
        IF ~inrange THEN
            IF Validated THEN hint' = [hint EXCEPT ![s] = IF truth[1] = "local" THEN truth ELSE <<"nonlocal",0,0>>] /\ bad' = bad
            ELSE bad' = "oob" /\ hint' = hint
        ELSE LET got == frame[Len(frame) - h[2]][h[3] + 1] IN
            IF (Validated /\ got # n) \/ (Full /\ truth # <<"local", h[2], h[3]>>)
              THEN hint' = [hint EXCEPT ![s] = IF truth[1] = "local" THEN truth ELSE <<"nonlocal",0,0>>] /\ bad' = bad
              ELSE /\ hint' = hint
                   /\ bad' = IF truth = <<"local", h[2], h[3]>> THEN bad ELSE "wrong-binding"
     ELSE \* nonlocal: never looks at locals again
        /\ hint' = IF Full /\ truth[1] = "local" THEN [hint EXCEPT ![s] = truth] ELSE hint
        /\ bad' = IF ~Full /\ truth[1] = "local" THEN "shadow-missed" ELSE bad
  /\ UNCHANGED <<frame, globals>>

Next == /\ steps < MaxSteps /\ bad = "ok" /\ steps' = steps + 1
        /\ (Push \/ Pop \/ NewCall \/ (\E n \in Names : Decl(n)) \/ (\E s \in Sites : Lookup(s)))
CacheInvisible == bad = "ok"
====
