INIT Init
NEXT Next
