---- MODULE LK ----
EXTENDS Integers, Sequences, FiniteSets, TLC, Json, IOUtils
Tr == ndJsonDeserialize(IOEnv.TRACE)
Threads == {Tr[i].t : i \in 1..Len(Tr)}
Mutexes == {Tr[i].p : i \in 1..Len(Tr)}
VARIABLES l, ex, sh, evals     \* ex[m] = [t |-> holder or -1, n |-> recursion count]; sh[m] = bag of shared holders; evals[file] count
vars == <<l, ex, sh, evals>>
Files == {Tr[i].m : i \in {j \in 1..Len(Tr) : Tr[j].e = "useev"}}
Init == l = 1 /\ ex = [m \in Mutexes |-> [t |-> -1, n |-> 0]] /\ sh = [m \in Mutexes |-> [t \in Threads |-> 0]] /\ evals = [f \in Files |-> 0]
E == Tr[l]
K(k) == l <= Len(Tr) /\ E.e = k /\ l' = l + 1
NoShared(m) == \A t \in Threads : sh[m][t] = 0
Acq == /\ K("acq")
       /\ IF E.a = 1
          THEN /\ (ex[E.p].t = -1 \/ ex[E.p].t = E.t)        \* exclusive (recursive allowed for same thread)
               /\ \A t \in Threads \ {E.t} : sh[E.p][t] = 0
               /\ ex' = [ex EXCEPT ![E.p] = [t |-> E.t, n |-> @.n + 1]] /\ UNCHANGED sh
          ELSE /\ (ex[E.p].t = -1 \/ ex[E.p].t = E.t)
               /\ sh' = [sh EXCEPT ![E.p][E.t] = @ + 1] /\ UNCHANGED ex
       /\ UNCHANGED evals
Rel == /\ K("rel")
       /\ IF E.a = 1
          THEN /\ ex[E.p].t = E.t /\ ex[E.p].n > 0
               /\ ex' = [ex EXCEPT ![E.p] = IF @.n = 1 THEN [t |-> -1, n |-> 0] ELSE [t |-> @.t, n |-> @.n - 1]] /\ UNCHANGED sh
          ELSE /\ sh[E.p][E.t] > 0 /\ sh' = [sh EXCEPT ![E.p][E.t] = @ - 1] /\ UNCHANGED ex
       /\ UNCHANGED evals
Acc == /\ K("acc")
       /\ IF E.a = 1 THEN ex[E.p].t = E.t          \* write: must hold the guarding mutex exclusively
                     ELSE (ex[E.p].t = E.t \/ sh[E.p][E.t] > 0)
       /\ UNCHANGED <<ex, sh, evals>>
UseEv == K("useev") /\ evals[E.m] = 0 /\ evals' = [evals EXCEPT ![E.m] = 1] /\ UNCHANGED <<ex, sh>>   \* UsedOnce
Next == Acq \/ Rel \/ Acc \/ UseEv
Spec == Init /\ [][Next]_vars
Accepted == TLCGet("stats").diameter - 1 = Len(Tr)
====
