import json, sys
def ex(e):
    k=e['k']
    if k=='num': return str(e['v'])
    if k=='bool': return 'true' if e['b']==1 else 'false'
    if k=='id': return e['n']
    if k=='bin': return '(%s %s %s)'%(ex(e['l']),e['op'],ex(e['r']))
    if k=='and': return '(%s && %s)'%(ex(e['l']),ex(e['r']))
    raise Exception(k)
def st(s):
    k=s['k']
    if k=='decl': return 'var %s = %s'%(s['n'],ex(s['e']))
    if k=='asg': return '%s = %s'%(s['n'],ex(s['e']))
    if k=='print': return 'out(%s)'%ex(s['e'])
    if k=='break': return 'break'
    if k=='block': return '{ '+'; '.join(st(x) for x in s['b'])+' }'
    if k=='while': return 'while (%s) %s'%(ex(s['c']),st(s['b']))
    return ex(s)
for line in sys.stdin:
    d=json.loads(line)
    print('%d\t%s'%(d['id'],'; '.join(st(x) for x in d['prog'])))
