#include <chaiscript/chaiscript.hpp>
#include <fstream>
using namespace chaiscript;
static int cnt(ChaiScript &c, const std::string &n){ int k=0; for (auto &f : c.eval<std::map<std::string,Boxed_Value>>("get_functions()")) if (f.first==n) ++k; return k; }
static std::string tryev(ChaiScript &c, const std::string &s){ try { auto v = c.eval(s); try { return std::to_string(c.boxed_cast<int>(v)); } catch (...) { return "<val>"; } } catch (const exception::eval_error &e) { return "EE:" + e.reason.substr(0,40); } catch (const exception::file_not_found_error &e) { return std::string("FNF:") + e.filename; } catch (const std::exception &e) { return std::string("EX:") + e.what(); } catch (const Boxed_Value &) { return "BV"; } }
int main(){
  { // C15
    ChaiScript chai;
    chai.eval("def f(x) { 1 }");
    auto s1 = chai.get_state();
    chai.eval("def f(x, y) { 2 }; def g() { 3 }; global G = 5; class K { def K() {} }");
    chai.add(fun([](int){ return 9; }), "cpp");
    chai.add(user_type<std::pair<int,int>>(), "PII");
    auto s2 = chai.get_state();
    printf("before restore: f(1)=%s f(1,2)=%s g()=%s G=%s cpp=%s exists(g)=%s type(PII)=%s\n", tryev(chai,"f(1)").c_str(), tryev(chai,"f(1,2)").c_str(), tryev(chai,"g()").c_str(), tryev(chai,"G").c_str(), tryev(chai,"cpp(1)").c_str(), tryev(chai,"function_exists(\"g\") ? 1 : 0").c_str(), tryev(chai,"type(\"PII\", false).is_type_undef() ? 0 : 1").c_str());
    chai.set_state(s1);
    printf("after  restore: f(1)=%s f(1,2)=%s g()=%s G=%s cpp=%s exists(g)=%s type(PII)=%s K=%s\n", tryev(chai,"f(1)").c_str(), tryev(chai,"f(1,2)").c_str(), tryev(chai,"g()").c_str(), tryev(chai,"G").c_str(), tryev(chai,"cpp(1)").c_str(), tryev(chai,"function_exists(\"g\") ? 1 : 0").c_str(), tryev(chai,"type(\"PII\", false).is_type_undef() ? 0 : 1").c_str(), tryev(chai,"K(); 1").c_str());
    printf("re-add: %s %s\n", tryev(chai,"def g() { 30 }; g()").c_str(), tryev(chai,"def f(x, y) { 20 }; f(1,2)").c_str());
    chai.set_state(s2);
    printf("back to s2: f(1,2)=%s g()=%s G=%s\n", tryev(chai,"f(1,2)").c_str(), tryev(chai,"g()").c_str(), tryev(chai,"G").c_str());
    chai.eval("var loc = 77"); chai.set_state(s1); printf("locals kept: loc=%s\n", tryev(chai,"loc").c_str());
  }
  { // C19
    { std::ofstream("/tmp/exp/p3/u2/a.chai") << "global A_CNT = 0\nA_CNT = A_CNT + 1\nuse(\"b.chai\")\n"; }
    { std::ofstream("/tmp/exp/p3/u1/b.chai") << "global B_CNT = 0; B_CNT = B_CNT + 1\n"; }
    { std::ofstream("/tmp/exp/p3/u2/b.chai") << "global B2 = 1\n"; }
    { std::ofstream("/tmp/exp/p3/u1/c.chai") << "use(\"missing.chai\")\n"; }
    { std::ofstream("/tmp/exp/p3/u1/bad.chai") << "global BAD = 1\n 1 +\n"; }
    ChaiScript chai({}, {"/tmp/exp/p3/u1/", "/tmp/exp/p3/u2/"});
    printf("use a: %s ; again: %s ; A_CNT=%s B_CNT=%s B2=%s\n", tryev(chai,"use(\"a.chai\")").c_str(), tryev(chai,"use(\"a.chai\")").c_str(), tryev(chai,"A_CNT").c_str(), tryev(chai,"B_CNT").c_str(), tryev(chai,"B2").c_str());
    printf("use missing: %s ; nested missing: %s\n", tryev(chai,"use(\"nope.chai\")").c_str(), tryev(chai,"use(\"c.chai\")").c_str());
    printf("use bad: %s ; again %s\n", tryev(chai,"use(\"bad.chai\")").c_str(), tryev(chai,"use(\"bad.chai\")").c_str());
    try { chai.use("c.chai"); } catch (const exception::file_not_found_error &e) { printf("C++ use c.chai -> FNF filename=%s\n", e.filename.c_str()); } catch (const Boxed_Value &) { printf("C++ use c.chai -> Boxed_Value\n"); } catch (const std::exception &e) { printf("C++ use c.chai -> %s\n", e.what()); }
    for (int len = 0; len <= 4; ++len) { std::string body = std::string("1234").substr(0, len); { std::ofstream f("/tmp/exp/p3/u1/len.chai", std::ios::binary); f << body; } printf("len %d: file=%s eval=%s | ", len, tryev(chai, "eval_file(\"len.chai\")").c_str(), tryev(chai, body).c_str()); }
    printf("\n");
    { std::ofstream f("/tmp/exp/p3/u1/bom.chai", std::ios::binary); f << "\xef\xbb\xbf" << "7"; } printf("bom+7: %s ; ", tryev(chai, "eval_file(\"bom.chai\")").c_str());
    { std::ofstream f("/tmp/exp/p3/u1/bom.chai", std::ios::binary); f << "\xef\xbb\xbf"; } printf("bom only: %s ; ", tryev(chai, "eval_file(\"bom.chai\")").c_str());
    { std::ofstream f("/tmp/exp/p3/u1/bom.chai", std::ios::binary); f << "\xef\xbb"; } printf("partial bom: %s\n", tryev(chai, "eval_file(\"bom.chai\")").c_str());
  }
}
