INIT Init
NEXT Next
INVARIANT Refines
CONSTANTS MaxLen = 5 Repaired = TRUE
CHECK_DEADLOCK FALSE
