#include <chaiscript/chaiscript.hpp>
#include <chaiscript/language/chaiscript_parser.hpp>
using namespace chaiscript;
extern "C" int LLVMFuzzerTestOneInput(const uint8_t *data, size_t size) {
  static parser::ChaiScript_Parser<eval::Noop_Tracer, optimizer::Optimizer_Default> p;
  std::string s(reinterpret_cast<const char *>(data), size);
  try { auto ast = p.parse(s, "fuzz"); (void)ast; }
  catch (const exception::eval_error &) { }
  return 0;
}
