#include <chaiscript/chaiscript.hpp>
#include <iostream>
using namespace chaiscript;
static std::vector<std::string> outs;
static std::string esc(const std::string&s){ std::string r; for(char c: s){ if(c=='"'||c=='\\'){r+='\\';} r+=c;} return r; }
int main(){
  std::string line;
  while (std::getline(std::cin, line)) {
    auto tab = line.find('\t'); std::string id = line.substr(0, tab), src = line.substr(tab+1);
    ChaiScript chai; outs.clear();
    chai.add(fun([](const std::string &x){ outs.push_back(x); }), "hout");
    chai.eval("def out(x) { hout(to_string(x)) }");
    const char *oc = "ok";
    try { chai.eval(src); } catch (const exception::eval_error &) { oc = "err"; } catch (const Boxed_Value &) { oc = "bv"; } catch (const std::exception &) { oc = "ex"; }
    std::cout << "{\"id\":" << id << ",\"oc\":\"" << oc << "\",\"out\":[";
    for (size_t i = 0; i < outs.size(); ++i) std::cout << (i?",":"") << '"' << esc(outs[i]) << '"';
    std::cout << "]}\n";
  }
}
