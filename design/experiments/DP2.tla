---- MODULE DP2 ----
EXTENDS Integers, Sequences, FiniteSets, TLC, Json, IOUtils, SequencesExt
Rows == ndJsonDeserialize(IOEnv.ROWS)
BeforeMap == JsonDeserialize(IOEnv.BEFORE).before
P(b, c, f, tid) == [bare |-> b, const |-> c, form |-> f, tid |-> tid]
pInt == P("int", FALSE, "val", "int")  pDouble == P("double", FALSE, "val", "double")
pCStr == P("string", TRUE, "cref", "string")  pBV == P("BV", TRUE, "cref", "BV")  pBN == P("BN", TRUE, "cref", "BN")
pBaseR == P("Base", FALSE, "ref", "Base")  pCBaseR == P("Base", TRUE, "cref", "Base")  pIntR == P("int", FALSE, "ref", "int")
pDerivedR == P("Derived", FALSE, "ref", "Derived")
Sig(n) == CASE n = "int,int" -> <<pInt, pInt>> [] n = "double,double" -> <<pDouble, pDouble>> [] n = "int,double" -> <<pInt, pDouble>>
            [] n = "cstring&,int" -> <<pCStr, pInt>> [] n = "BV,BV" -> <<pBV, pBV>> [] n = "BN,BN" -> <<pBN, pBN>>
            [] n = "Base&,int" -> <<pBaseR, pInt>> [] n = "cBase&,int" -> <<pCBaseR, pInt>> [] n = "int&,int" -> <<pIntR, pInt>>
            [] n = "BV,int" -> <<pBV, pInt>> [] n = "int,BV" -> <<pInt, pBV>> [] n = "Derived&,double" -> <<pDerivedR, pDouble>>
Names == {"int,int","double,double","int,double","cstring&,int","BV,BV","BN,BN","Base&,int","cBase&,int","int&,int","BV,int","int,BV","Derived&,double"}
A(b, c, st, dyn) == [bare |-> b, const |-> c, st |-> st, dyn |-> dyn]
Arg(n) == CASE n = "ivar" -> A("int", FALSE, "own", "int") [] n = "ilit" -> A("int", TRUE, "own", "int") [] n = "dvar" -> A("double", FALSE, "own", "double")
            [] n = "svar" -> A("string", FALSE, "own", "string") [] n = "Dobj" -> A("Derived", FALSE, "own", "Derived")
            [] n = "cDobj" -> A("Derived", TRUE, "own", "Derived") [] n = "lvar" -> A("long", FALSE, "own", "long") [] n = "Bobj" -> A("Base", FALSE, "own", "Base")
Arith == {"int", "double", "long", "char"}
Convertible == {"Base", "Derived"}
Before(a, b) == a # b /\ BeforeMap[a \o "<" \o b] = 1
Direct(a, p) ==
  CASE p.form = "cref" /\ p.bare = "BV" -> TRUE
    [] p.form = "cref" /\ p.bare = "BN" -> a.bare \in Arith
    [] p.form \in {"val", "cref"} -> a.bare = p.bare
    [] p.form = "ref" -> a.bare = p.bare /\ ~a.const
Up(a) == [a EXCEPT !.bare = "Base"]
BoxedCast(a, p) ==
  LET conv == p.bare \in Convertible IN
  IF (a.bare = p.bare \/ ~conv) /\ Direct(a, p) THEN TRUE
  ELSE IF ~conv THEN FALSE
  ELSE IF a.bare = "Derived" /\ p.bare = "Base" THEN Direct(Up(a), p)
  ELSE IF a.bare = "Base" /\ p.bare = "Derived" THEN (a.dyn = "Derived" /\ Direct([a EXCEPT !.bare = "Derived"], p))
  ELSE FALSE
CastAll(as, ps) == \A i \in 1..Len(ps) : BoxedCast(as[i], ps[i])
\* function_less_than over all parameters
RECURSIVE LessFrom(_,_,_)
LessFrom(l, r, i) ==
  IF i > Len(l) \/ i > Len(r) THEN FALSE ELSE
  LET lt == l[i]  rt == r[i] IN
  IF lt.bare = rt.bare /\ lt.const = rt.const THEN LessFrom(l, r, i+1)
  ELSE IF lt.bare = rt.bare /\ lt.const /\ ~rt.const THEN FALSE
  ELSE IF lt.bare = rt.bare /\ ~lt.const THEN TRUE
  ELSE IF lt.bare = "BV" THEN FALSE ELSE IF rt.bare = "BV" THEN TRUE
  ELSE IF lt.bare = "BN" THEN FALSE ELSE IF rt.bare = "BN" THEN TRUE
  ELSE Before(lt.tid, rt.tid)
Less(l, r) == LessFrom(l, r, 1)
Sorted(f, s) == IF Less(s, f) THEN <<s, f>> ELSE <<f, s>>
Converts(to, from) == (to = "Base" /\ from = "Derived") \/ (to = "Derived" /\ from = "Base")
CTP(p, a) == p.bare = "BV" \/ ((p.bare = "BN" /\ a.bare \in Arith) \/ p.bare = a.bare \/ Converts(p.bare, a.bare))
IsArithParam(p) == p.bare \in {"int", "double", "long"}
NumDiffs(ps, as) == Cardinality({i \in 1..Len(ps) : ps[i].bare # as[i].bare})
Filter(ps, as) == CTP(ps[1], as[1]) /\ CTP(ps[2], as[2])      \* arity > 1: first two parameters only
FirstOk(fs, as, lvl) == SelectInSeq(fs, LAMBDA ps : NumDiffs(ps, as) = lvl /\ (lvl = 0 \/ Filter(ps, as)) /\ CastAll(as, ps))
ArithMatch(ps, as) == \A i \in 1..Len(ps) : CTP(ps[i], as[i]) \/ (as[i].bare \in Arith /\ IsArithParam(ps[i]))
ConvArg(p, a) == IF IsArithParam(p) /\ a.bare \in Arith /\ a.bare # p.bare THEN A(p.bare, FALSE, "own", p.bare) ELSE a
Err == <<P("err", FALSE, "none", "")>>
Dispatch(fs, as) ==
  LET i0 == FirstOk(fs, as, 0) IN IF i0 # 0 THEN fs[i0] ELSE
  LET i1 == FirstOk(fs, as, 1) IN IF i1 # 0 THEN fs[i1] ELSE
  LET i2 == FirstOk(fs, as, 2) IN IF i2 # 0 THEN fs[i2] ELSE
  LET cand == SelectSeq(fs, LAMBDA ps : ArithMatch(ps, as)) IN
  IF Len(cand) = 0 THEN Err
  ELSE IF Len(cand) = 2 /\ ~( (as[1].const /\ ~cand[1][1].const /\ cand[2][1].const) \/ (~as[1].const /\ ~cand[1][1].const /\ cand[2][1].const) ) THEN Err
  ELSE LET m == IF Len(cand) = 2 /\ as[1].const THEN cand[2] ELSE cand[1] IN
       LET as2 == [i \in 1..Len(as) |-> ConvArg(m[i], as[i])] IN
       IF CastAll(as2, m) THEN m ELSE Err
NameOf(ps) == IF ps = Err THEN "" ELSE CHOOSE n \in Names : Sig(n) = ps
Predict(r) == LET f == Sig(r.first) IN
              LET fs == IF r.second = "" THEN <<f>> ELSE Sorted(f, Sig(r.second)) IN
              NameOf(Dispatch(fs, <<Arg(r.a1), Arg(r.a2)>>))
Bad == SelectSeq(Rows, LAMBDA r : Predict(r) # r.entered)
ASSUME PrintT(<<"rows", Len(Rows), "mismatches", Len(Bad)>>)
ASSUME \A i \in 1..(IF Len(Bad) < 30 THEN Len(Bad) ELSE 30) : PrintT(<<Bad[i].first, Bad[i].second, Bad[i].a1, Bad[i].a2, "real", Bad[i].entered, "spec", Predict(Bad[i])>>)
VARIABLE z
Init == z = 0
Next == UNCHANGED z
====
