#define CHAISCRIPT_VERIF 1
#include <chaiscript/chaiscript.hpp>
#include <cstdio>
using namespace chaiscript;
static FILE *out = nullptr; static bool on = false; static long nev = 0;
static void ev(const char *k, const void *, std::string_view n, long a, long b, long c, std::string_view n2){
  if(!on) return; ++nev;
  fprintf(out, "{\"e\":\"%s\",\"t\":0,\"n\":\"%.*s\",\"a\":%ld,\"b\":%ld,\"c\":%ld,\"m\":\"%.*s\"}\n", k, (int)n.size(), n.data(), a, b, c, (int)n2.size(), n2.data());
}
static int calls = 0, throw_at = -1, kind = 0;
struct NonStd { int v; };
static int cb(int x) { ++calls; if (calls == throw_at) { switch (kind) { case 0: throw std::runtime_error("cb"); case 1: throw NonStd{1}; case 2: throw Boxed_Value(42); default: throw exception::eval_error("from cb"); } } return x; }
static const char *programs[] = {
  "def f(x) { var a = cb(x); { var b = cb(a + 1); if (b > 0) { cb(b) } }; a }; var t = f(1); for (var i = 0; i < 2; ++i) { cb(i) }; var u = [1,2]; for (e : u) { cb(e) }; t",
  "class K { var v; def K() { this.v = cb(1) }; def m(y) { cb(y) + this.v } }; var k = K(); var o = Dynamic_Object(); o.f = fun(z) { cb(z) }; o.f(3); k.m(2); try { cb(5); throw(1) } catch(e) { cb(6) } finally { cb(7) }; var w = 0; while (w < 2) { ++w; switch (w) { case (1) { cb(w) } default { cb(9); break } } }; w",
  "var v = [3,1,2]; var r = map(v, fun(x) { cb(x) }); var s = foldl(v, fun(a, b) { cb(a + b) }, 0); var l = fun[s](q) { cb(q + s) }; l(1); def g(n) { if (n > 0) { cb(n); g(n - 1) } else { 0 } }; g(3); to_string(cb(4)) + \"x\"; [cb(1), cb(2)].size()",
};
int main(int argc, char **argv){
  out = fopen(argv[1], "w"); verif::hooks().event = &ev; long runs = 0;
  for (const char *prog : programs) {
    int total = 0;
    for (int k = 0; k < 4; ++k) for (int at = 0; at <= (total ? total : 0) || (at == 0); ++at) {
      ChaiScript chai; chai.add(fun(&cb), "cb");
      calls = 0; throw_at = (at == 0 ? -1 : at); kind = k;
      fprintf(out, "{\"e\":\"reset\",\"t\":0,\"n\":\"k%d at%d\",\"a\":0,\"b\":0,\"c\":0,\"m\":\"\"}\n", k, at);
      on = true; const char *res = "ok";
      try { chai.eval(prog); } catch (const exception::eval_error &) { res = "ee"; } catch (const Boxed_Value &) { res = "bv"; } catch (const std::exception &) { res = "ex"; } catch (...) { res = "other"; }
      on = false; ++runs;
      fprintf(out, "{\"e\":\"end\",\"t\":0,\"n\":\"%s\",\"a\":0,\"b\":0,\"c\":0,\"m\":\"\"}\n", res);
      // engine must still work
      try { if (chai.eval<int>("var sanity_check = 40; sanity_check + 2") != 42) printf("SANITY FAIL\n"); } catch (...) { printf("SANITY THREW prog k=%d at=%d\n", k, at); }
      if (at == 0) total = calls;
    }
  }
  fclose(out); fprintf(stderr, "runs=%ld events=%ld\n", runs, nev);
}
