---- MODULE CP ----
EXTENDS Integers, Sequences, FiniteSets, TLC, SequencesExt
CONSTANTS MaxLen, Repaired
Mod(a, b) == a - b * (a \div b)
\* characters are strings of length 1 (representatives of the byte classes)
Alphabet == {"a", "\\", "0", "3", "7", "8", "x", "u", "f", "g", "n", "'"}
OctDigit(c) == c \in {"0","3","7"}
HexDigit(c) == c \in {"0","3","7","8","a","f"}
HexVal(c) == CASE c = "0" -> 0 [] c = "3" -> 3 [] c = "7" -> 7 [] c = "8" -> 8 [] c = "a" -> 10 [] c = "f" -> 15
RECURSIVE NumVal(_,_,_)
NumVal(ds, base, acc) == IF ds = <<>> THEN acc ELSE NumVal(Tail(ds), base, acc * base + HexVal(Head(ds)))
Byte(c) == CASE c = "a" -> 97 [] c = "0" -> 48 [] c = "3" -> 51 [] c = "7" -> 55 [] c = "8" -> 56 [] c = "x" -> 120 [] c = "u" -> 117
             [] c = "f" -> 102 [] c = "g" -> 103 [] c = "n" -> 110 [] c = "'" -> 39 [] c = "\\" -> 92
Utf8(ch) == IF ch < 128 THEN <<ch>>
            ELSE IF ch < 2048 THEN <<192 + ch \div 64, 128 + Mod(ch, 64)>>
            ELSE <<224 + ch \div 4096, 128 + Mod((ch \div 64), 64), 128 + Mod(ch, 64)>>
ERR == <<-1>>

\* ---------------- reference: C++ escape decoding with ChaiScript's documented two-hex-digit rule ----------------
RECURSIVE Ref(_,_)
TakeWhile(s, P(_), max) == LET n == CHOOSE k \in 0..max : (k <= Len(s)) /\ (\A i \in 1..k : P(s[i])) /\ (k = max \/ k = Len(s) \/ ~P(s[k+1])) IN n
Ref(s, out) ==
  IF s = <<>> THEN out
  ELSE IF Head(s) # "\\" THEN Ref(Tail(s), Append(out, Byte(Head(s))))
  ELSE IF Len(s) = 1 THEN ERR
  ELSE LET e == s[2]  rest == SubSeq(s, 3, Len(s)) IN
    IF OctDigit(e) THEN
       LET n == TakeWhile(Tail(s), OctDigit, 3) IN LET v == NumVal(SubSeq(s, 2, n+1), 8, 0) IN
       IF v > 255 THEN ERR ELSE Ref(SubSeq(s, n+2, Len(s)), Append(out, v))
    ELSE IF e = "x" THEN
       LET n == TakeWhile(rest, HexDigit, 2) IN
       IF n = 0 THEN ERR ELSE Ref(SubSeq(rest, n+1, Len(rest)), Append(out, NumVal(SubSeq(rest, 1, n), 16, 0)))
    ELSE IF e = "u" THEN
       LET n == TakeWhile(rest, HexDigit, 4) IN
       IF n < 4 THEN ERR ELSE
       LET ch == NumVal(SubSeq(rest, 1, 4), 16, 0) IN
       IF ch >= 55296 /\ ch <= 57343 THEN ERR ELSE Ref(SubSeq(rest, 5, Len(rest)), out \o Utf8(ch))
    ELSE IF e = "n" THEN Ref(rest, Append(out, 10))
    ELSE IF e = "a" THEN Ref(rest, Append(out, 7))
    ELSE IF e = "f" THEN Ref(rest, Append(out, 12))
    ELSE IF e = "'" THEN Ref(rest, Append(out, 39))
    ELSE IF e = "\\" THEN Ref(rest, Append(out, 92))
    ELSE ERR        \* \8 \g : unknown escape

\* ---------------- implementation: Char_Parser (chaiscript_parser.hpp), char_type = char ----------------
St0 == [m |-> <<>>, esc |-> FALSE, oct |-> FALSE, hex |-> FALSE, usz |-> 0, om |-> <<>>, hm |-> <<>>, err |-> FALSE]
ProcOct(st) == LET v == NumVal(st.om, 8, 0) IN
   [st EXCEPT !.m = IF st.om = <<>> THEN @ ELSE Append(@, Mod(v, 256)), !.om = <<>>, !.esc = FALSE, !.oct = FALSE,
              !.err = @ \/ (Repaired /\ st.om # <<>> /\ v > 255)]
ProcHex(st) ==
   [st EXCEPT !.m = IF st.hm = <<>> THEN @ ELSE Append(@, Mod(NumVal(st.hm, 16, 0), 256)), !.hm = <<>>, !.esc = FALSE, !.hex = FALSE,
              !.err = @ \/ (Repaired /\ st.hm = <<>>)]
ProcUni(st) == LET ch == NumVal(st.hm, 16, 0) IN
   IF Len(st.hm) # st.usz \/ (st.usz = 4 /\ ch >= 55296 /\ ch <= 57343)
     THEN [st EXCEPT !.err = TRUE, !.hm = <<>>, !.esc = FALSE, !.usz = 0]
     ELSE [st EXCEPT !.m = @ \o Utf8(ch), !.hm = <<>>, !.esc = FALSE, !.usz = 0]
Plain(st, c) ==          \* the part of parse() after the pending-escape handling
  IF c = "\\" THEN (IF st.esc THEN [st EXCEPT !.m = Append(@, 92), !.esc = FALSE] ELSE [st EXCEPT !.esc = TRUE])
  ELSE IF st.esc THEN
     (IF OctDigit(c) THEN [st EXCEPT !.oct = TRUE, !.om = Append(@, c)]
      ELSE IF c = "x" THEN [st EXCEPT !.hex = TRUE]
      ELSE IF c = "u" THEN [st EXCEPT !.usz = 4]
      ELSE IF c = "'" THEN [st EXCEPT !.m = Append(@, 39), !.esc = FALSE]
      ELSE IF c = "a" THEN [st EXCEPT !.m = Append(@, 7), !.esc = FALSE]
      ELSE IF c = "f" THEN [st EXCEPT !.m = Append(@, 12), !.esc = FALSE]
      ELSE IF c = "n" THEN [st EXCEPT !.m = Append(@, 10), !.esc = FALSE]
      ELSE [st EXCEPT !.err = TRUE])
  ELSE [st EXCEPT !.m = Append(@, Byte(c))]
Step(st, c) ==
  IF st.err THEN st
  ELSE IF st.oct THEN
     (IF OctDigit(c) THEN (LET s1 == [st EXCEPT !.om = Append(@, c)] IN IF Len(s1.om) = 3 THEN ProcOct(s1) ELSE s1)
      ELSE (LET s1 == ProcOct(st) IN IF s1.err THEN s1 ELSE Plain(s1, c)))
  ELSE IF st.hex THEN
     (IF HexDigit(c) THEN (LET s1 == [st EXCEPT !.hm = Append(@, c)] IN IF Len(s1.hm) = 2 THEN ProcHex(s1) ELSE s1)
      ELSE (LET s1 == ProcHex(st) IN IF s1.err THEN s1 ELSE Plain(s1, c)))
  ELSE IF st.usz > 0 THEN
     (IF HexDigit(c) THEN (LET s1 == [st EXCEPT !.hm = Append(@, c)] IN IF Len(s1.hm) = s1.usz THEN ProcUni(s1) ELSE s1)
      ELSE (LET s1 == ProcUni(st) IN IF s1.err THEN s1 ELSE Plain(s1, c)))
  ELSE Plain(st, c)
RECURSIVE Run(_,_)
Run(st, s) == IF s = <<>> THEN st ELSE Run(Step(st, Head(s)), Tail(s))
Finish(st) ==       \* pinned: destructor, errors swallowed; repaired: finish() reports them
  LET s1 == IF st.oct THEN ProcOct(st) ELSE st IN
  LET s2 == IF s1.hex THEN ProcHex(s1) ELSE s1 IN
  LET s3 == IF s2.usz > 0 THEN ProcUni(s2) ELSE s2 IN
  IF Repaired THEN s3 ELSE [s3 EXCEPT !.err = st.err]
Impl(s) == LET st == IF Run(St0, s).err THEN Run(St0, s) ELSE Finish(Run(St0, s)) IN IF st.err THEN ERR ELSE st.m

VARIABLES str
Init == str = <<>>
Next == Len(str) < MaxLen /\ \E c \in Alphabet : str' = Append(str, c)
\* a trailing lone backslash cannot occur inside a real literal (it would escape the closing quote)
WellFormedLiteralBody(s) == ~(Len(s) > 0 /\ Run(St0, s).esc /\ ~Run(St0,s).oct /\ ~Run(St0,s).hex /\ Run(St0,s).usz = 0 /\ ~Run(St0,s).err)
Refines == WellFormedLiteralBody(str) => Impl(str) = Ref(str, <<>>)
====
