---- MODULE EST ----
EXTENDS Integers, Sequences, TLC, Json, IOUtils, SequencesExt
Tr == ndJsonDeserialize(IOEnv.TRACE)
VARIABLES l, frames, depth
vars == <<l, frames, depth>>
Base == << << <<>> >> >>
Threads == {Tr[i].t : i \in 1..Len(Tr)}
Init == l = 1 /\ frames = [t \in Threads |-> Base] /\ depth = [t \in Threads |-> 0]
RECURSIVE Find(_,_,_)
Find(fr, n, d) == IF d >= Len(fr) THEN <<-1,-1>>
                  ELSE LET s == fr[Len(fr)-d] IN
                       LET idx == SelectInSeq(s, LAMBDA x: x = n) IN
                       IF idx # 0 THEN <<d, idx-1>> ELSE Find(fr, n, d+1)
E == Tr[l]
T == E.t
Top == frames[T][Len(frames[T])]
F == frames[T]
K(k) == l <= Len(Tr) /\ E.e = k /\ l' = l + 1
Reset == K("reset") /\ frames' = [t \in Threads |-> Base] /\ depth' = [t \in Threads |-> 0]
End   == K("end") /\ Len(F) = 1 /\ Len(F[1]) = 1 /\ depth[T] = 0 /\ UNCHANGED <<frames, depth>>
NS == K("ns") /\ frames' = [frames EXCEPT ![T][Len(F)] = Append(@, <<>>)] /\ UNCHANGED depth
PS == K("ps") /\ Len(Top) > 1 /\ frames' = [frames EXCEPT ![T][Len(F)] = SubSeq(@, 1, Len(@)-1)] /\ UNCHANGED depth
NST == K("nst") /\ frames' = [frames EXCEPT ![T] = Append(@, << <<>> >>)] /\ UNCHANGED depth
PST == K("pst") /\ Len(F) > 1 /\ frames' = [frames EXCEPT ![T] = SubSeq(@, 1, Len(@)-1)] /\ UNCHANGED depth
Add == /\ K("add")
       /\ (~ \E i \in 1..Len(Top[Len(Top)]) : Top[Len(Top)][i] = E.n)
       /\ frames' = [frames EXCEPT ![T][Len(F)][Len(Top)] = Append(@, E.n)] /\ UNCHANGED depth
Get == /\ K("get")
       /\ LET r == Find(Top, E.n, 0) IN
          IF E.a = 2 THEN r = <<-1,-1>> ELSE (r = <<E.b, E.c>> /\ E.m = E.n)
       /\ UNCHANGED <<frames, depth>>
FCp == K("fc+") /\ depth' = [depth EXCEPT ![T] = @ + 1] /\ E.a = depth'[T] /\ E.c = 1 /\ UNCHANGED frames
FCm == K("fc-") /\ depth[T] > 0 /\ depth' = [depth EXCEPT ![T] = @ - 1] /\ E.a = depth'[T] /\ (depth'[T] = 0 => (E.b = 0 /\ E.c = 0)) /\ UNCHANGED frames
SetL0 == K("setl0") /\ frames' = [frames EXCEPT ![T][Len(F)][1] = <<>>] /\ UNCHANGED depth
SetL == K("setl") /\ frames' = [frames EXCEPT ![T][Len(F)][1] = Append(@, E.n)] /\ UNCHANGED depth
Next == Reset \/ End \/ NS \/ PS \/ NST \/ PST \/ Add \/ Get \/ FCp \/ FCm \/ SetL0 \/ SetL
Spec == Init /\ [][Next]_vars
Accepted == TLCGet("stats").diameter - 1 = Len(Tr)
====
