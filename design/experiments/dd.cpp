#include <chaiscript/chaiscript.hpp>
#include <iostream>
using namespace chaiscript;
struct Base { virtual ~Base() = default; int b = 1; };
struct Derived : Base { int d = 2; };
static int entered = -1; static int count_entered = 0;
#define ENTER(k) do { entered = k; ++count_entered; } while (0)
static std::vector<std::pair<std::string, Proxy_Function>> catalogue() {
  return {
    {"int",        fun([](int) { ENTER(0); })},
    {"double",     fun([](double) { ENTER(1); })},
    {"cstring&",   fun([](const std::string &) { ENTER(2); })},
    {"BV",         fun([](const Boxed_Value &) { ENTER(3); })},
    {"BN",         fun([](const Boxed_Number &) { ENTER(4); })},
    {"Base&",      fun([](Base &) { ENTER(5); })},
    {"cBase&",     fun([](const Base &) { ENTER(6); })},
    {"Derived&",   fun([](Derived &) { ENTER(7); })},
    {"int&",       fun([](int &) { ENTER(8); })},
    {"cint&",      fun([](const int &) { ENTER(9); })},
    {"spBase",     fun([](std::shared_ptr<Base>) { ENTER(10); })},
    {"bool",       fun([](bool) { ENTER(11); })},
    {"long",       fun([](long) { ENTER(12); })},
    {"Base*",      fun([](Base *) { ENTER(13); })},
  };
}
int main() {
  auto cat = catalogue();
  const Derived cderived{};
  std::vector<std::pair<std::string, std::string>> args = {
    {"ivar", "iv"}, {"ilit", "5"}, {"dvar", "dv"}, {"svar", "sv"}, {"bvar", "bv"}, {"Dobj", "dobj"}, {"Bobj", "bobj"},
    {"cDobj", "cdobj"}, {"lvar", "lv"}, {"cvar", "cv"}, {"undef", "un"}, {"slit", "\"s\""}, {"Dref", "dref"}, {"spD", "spd"}};
  // type order facts
  std::cout << "{\"before\":{";
  { std::vector<std::pair<std::string, Type_Info>> tis = {{"int", user_type<int>()}, {"double", user_type<double>()}, {"string", user_type<std::string>()}, {"BV", user_type<Boxed_Value>()}, {"BN", user_type<Boxed_Number>()}, {"Base", user_type<Base>()}, {"Derived", user_type<Derived>()}, {"bool", user_type<bool>()}, {"long", user_type<long>()}, {"spBase", user_type<std::shared_ptr<Base>>()}, {"pBase", user_type<Base *>()}, {"char", user_type<char>()}};
    bool first = true; for (auto &a : tis) for (auto &b : tis) { if (a.first == b.first) continue; std::cout << (first ? "" : ",") << "\"" << a.first << "<" << b.first << "\":" << ((a.second < b.second) ? 1 : 0); first = false; } }
  std::cout << "}}\n";
  int setid = 0;
  for (size_t i = 0; i < cat.size(); ++i) for (size_t j = 0; j <= cat.size(); ++j) {
    if (j == i) continue;
    ChaiScript chai;
    chai.add(user_type<Base>(), "Base"); chai.add(user_type<Derived>(), "Derived"); chai.add(base_class<Base, Derived>());
    chai.add(cat[i].second, "ov"); if (j < cat.size()) chai.add(cat[j].second, "ov");
    Derived refd; auto sp = std::make_shared<Derived>();
    chai.add(var(1), "iv"); chai.add(var(2.5), "dv"); chai.add(var(std::string("x")), "sv"); chai.add(var(true), "bv");
    chai.add(var(Derived()), "dobj"); chai.add(var(Base()), "bobj"); chai.add(const_var(cderived), "cdobj"); chai.add(var(7L), "lv"); chai.add(var('c'), "cv");
    chai.add(Boxed_Value(), "un"); chai.add(var(std::ref(refd)), "dref"); chai.add(var(sp), "spd");
    ++setid;
    for (auto &a : args) {
      entered = -1; count_entered = 0; std::string oc = "ok";
      try { chai.eval("ov(" + a.second + ")"); } catch (const exception::eval_error &) { oc = "ee"; } catch (const std::exception &) { oc = "ex"; } catch (...) { oc = "other"; }
      std::cout << "{\"first\":\"" << cat[i].first << "\",\"second\":\"" << (j < cat.size() ? cat[j].first : "") << "\",\"arg\":\"" << a.first << "\",\"oc\":\"" << oc << "\",\"entered\":\"" << (entered >= 0 ? cat[entered].first : "") << "\",\"n\":" << count_entered << "}\n";
    }
  }
}
