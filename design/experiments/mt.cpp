#define CHAISCRIPT_VERIF 1
#include <chaiscript/chaiscript.hpp>
#include <thread>
#include <mutex>
#include <map>
#include <atomic>
using namespace chaiscript;
static FILE *out; static std::mutex mx; static std::map<std::thread::id,int> tids; static std::map<const void*,int> ptrs; static std::atomic<bool> on{false};
static void ev(const char *k, const void *p, std::string_view n, long a, long b, long c, std::string_view n2){
  if(!on) return; std::lock_guard<std::mutex> g(mx);
  auto it = tids.find(std::this_thread::get_id()); if (it==tids.end()) it = tids.emplace(std::this_thread::get_id(), (int)tids.size()).first;
  auto ip = ptrs.find(p); if (ip==ptrs.end()) ip = ptrs.emplace(p, (int)ptrs.size()+1).first;
  fprintf(out, "{\"e\":\"%s\",\"t\":%d,\"p\":%d,\"n\":\"%.*s\",\"a\":%ld,\"m\":\"%.*s\"}\n", k, it->second, ip->second, (int)n.size(), n.data(), a, (int)n2.size(), n2.data());
}
int main(int argc, char**argv){
  out = fopen(argv[1], "w"); int T = atoi(argv[2]);
  { std::ofstream f("/tmp/exp/v2/used.chai"); f << "global use_counter = 0; use_counter = use_counter + 1; def shared_fn(x) { x * 2 }\n"; }
  verif::hooks().event = &ev;
  ChaiScript chai({}, {"/tmp/exp/v2/"});
  on = true;
  std::vector<std::thread> th;
  for (int t = 0; t < T; ++t) th.emplace_back([&chai, t]{
    try {
      chai.use("used.chai");
      for (int i = 0; i < 5; ++i) {
        std::string id = std::to_string(t) + "_" + std::to_string(i);
        chai.eval("def f_" + id + "(x) { x + " + std::to_string(i) + " }; { var loc = shared_fn(" + std::to_string(t) + "); f_" + id + "(loc) }");
        chai.add_global(var(t), "g_" + id);
      }
    } catch (const std::exception &e) { fprintf(stderr, "thread %d: %s\n", t, e.what()); }
  });
  for (auto &x : th) x.join();
  on = false;
  printf("use_counter=%d\n", chai.eval<int>("use_counter"));
  fclose(out);
}
