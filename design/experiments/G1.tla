---- MODULE G1 ----
EXTENDS Integers, Sequences, FiniteSets, TLC, Json, IOUtils, SequencesExt

\* ---------- machine ----------
\* M = [frames: Seq(Seq(Seq([n, d]))), cells: Seq([v, c]), out: Seq(STRING)]
M0 == [frames |-> << << <<>> >> >>, cells |-> <<>>, out |-> <<>>]
Top(M) == M.frames[Len(M.frames)]
PushScope(M) == [M EXCEPT !.frames[Len(M.frames)] = Append(@, <<>>)]
PopScope(M) == [M EXCEPT !.frames[Len(M.frames)] = SubSeq(@, 1, Len(@)-1)]
NewCell(M, v, c) == [M EXCEPT !.cells = Append(@, [v |-> v, c |-> c])]
LastCell(M) == Len(M.cells)
Declare(M, n, d) == LET f == Len(M.frames) s == Len(M.frames[f]) IN
   [M EXCEPT !.frames[f][s] = Append(@, [n |-> n, d |-> d])]
InScope(sc, n) == \E i \in 1..Len(sc) : sc[i].n = n
RECURSIVE FindIn(_,_,_)
FindIn(fr, n, k) == IF k = 0 THEN 0 ELSE
   LET i == SelectInSeq(fr[k], LAMBDA e : e.n = n) IN IF i # 0 THEN fr[k][i].d ELSE FindIn(fr, n, k-1)
Lookup(M, n) == FindIn(Top(M), n, Len(Top(M)))

R(M, ctl, d) == [M |-> M, ctl |-> ctl, d |-> d]
Err(M) == R(M, "err", 0)
IsInt(v) == v.t = "int"
IsBool(v) == v.t = "bool"
B(x) == [t |-> "bool", i |-> IF x THEN 1 ELSE 0]
I(x) == [t |-> "int", i |-> x]
ToStr(v) == IF v.t = "bool" THEN (IF v.i = 1 THEN "true" ELSE "false") ELSE ToString(v.i)

RECURSIVE Ev(_,_), EvSeq(_,_,_), Loop(_,_,_)
Ev(e, M) ==
  CASE e.k = "num" -> LET M1 == NewCell(M, [t |-> "int", i |-> e.v], TRUE) IN R(M1, "norm", LastCell(M1))
    [] e.k = "bool" -> LET M1 == NewCell(M, [t |-> "bool", i |-> e.b], TRUE) IN R(M1, "norm", LastCell(M1))
    [] e.k = "id" -> LET d == Lookup(M, e.n) IN IF d = 0 THEN Err(M) ELSE R(M, "norm", d)
    [] e.k = "bin" ->
        (LET a == Ev(e.l, M) IN IF a.ctl # "norm" THEN a ELSE
         LET b == Ev(e.r, a.M) IN IF b.ctl # "norm" THEN b ELSE
         LET x == b.M.cells[a.d].v  y == b.M.cells[b.d].v IN
         IF ~(IsInt(x) /\ IsInt(y)) THEN Err(b.M) ELSE
         LET v == (CASE e.op = "+" -> I(x.i + y.i) [] e.op = "-" -> I(x.i - y.i) [] e.op = "*" -> I(x.i * y.i)
                     [] e.op = "<" -> B(x.i < y.i) [] e.op = "==" -> B(x.i = y.i)) IN
         LET M1 == NewCell(b.M, v, TRUE) IN R(M1, "norm", LastCell(M1)))
    [] e.k = "and" ->
        (LET a == Ev(e.l, M) IN IF a.ctl # "norm" THEN a ELSE
         LET x == a.M.cells[a.d].v IN IF ~IsBool(x) THEN Err(a.M) ELSE
         IF x.i = 0 THEN (LET M1 == NewCell(a.M, B(FALSE), TRUE) IN R(M1, "norm", LastCell(M1))) ELSE
         LET b == Ev(e.r, a.M) IN IF b.ctl # "norm" THEN b ELSE
         LET y == b.M.cells[b.d].v IN IF ~IsBool(y) THEN Err(b.M) ELSE
         LET M1 == NewCell(b.M, y, TRUE) IN R(M1, "norm", LastCell(M1)))
    [] e.k = "decl" ->   \* var n = e   (clone)
        (LET a == Ev(e.e, M) IN IF a.ctl # "norm" THEN a ELSE
         IF InScope(Top(a.M)[Len(Top(a.M))], e.n) THEN Err(a.M) ELSE
         LET M1 == NewCell(a.M, a.M.cells[a.d].v, FALSE) IN
         R(Declare(M1, e.n, LastCell(M1)), "norm", LastCell(M1)))
    [] e.k = "asg" ->    \* n = e  (rhs first)
        (LET a == Ev(e.e, M) IN IF a.ctl # "norm" THEN a ELSE
         LET d == Lookup(a.M, e.n) IN IF d = 0 \/ a.M.cells[d].c THEN Err(a.M) ELSE
         R([a.M EXCEPT !.cells[d].v = a.M.cells[a.d].v], "norm", d))
    [] e.k = "print" ->
        (LET a == Ev(e.e, M) IN IF a.ctl # "norm" THEN a ELSE
         R([a.M EXCEPT !.out = Append(@, ToStr(a.M.cells[a.d].v))], "norm", 0))
    [] e.k = "block" ->
        (LET r == EvSeq(e.b, 1, PushScope(M)) IN R(PopScope(r.M), r.ctl, r.d))
    [] e.k = "if" ->
        (LET c == Ev(e.c, M) IN IF c.ctl # "norm" THEN c ELSE
         LET x == c.M.cells[c.d].v IN IF ~IsBool(x) THEN Err(c.M) ELSE
         IF x.i = 1 THEN Ev(e.t, c.M) ELSE Ev(e.f, c.M))
    [] e.k = "while" -> (LET r == Loop(e, PushScope(M), 0) IN R(PopScope(r.M), r.ctl, 0))
    [] e.k = "break" -> R(M, "brk", 0)
    [] e.k = "noop" -> R(M, "norm", 0)
EvSeq(b, i, M) == IF i > Len(b) THEN R(M, "norm", 0) ELSE
   LET r == Ev(b[i], M) IN IF r.ctl # "norm" \/ i = Len(b) THEN r ELSE EvSeq(b, i+1, r.M)
Loop(e, M, n) == IF n > 6 THEN R(M, "fuel", 0) ELSE
   LET c == Ev(e.c, PushScope(M)) IN LET Mc == PopScope(c.M) IN
   IF c.ctl # "norm" THEN R(Mc, c.ctl, 0) ELSE
   IF ~IsBool(c.M.cells[c.d].v) THEN R(Mc, "err", 0) ELSE
   IF c.M.cells[c.d].v.i = 0 THEN R(Mc, "norm", 0) ELSE
   LET r == Ev(e.b, Mc) IN
   IF r.ctl = "brk" THEN R(r.M, "norm", 0) ELSE IF r.ctl # "norm" THEN r ELSE Loop(e, r.M, n+1)

\* ---------- program space ----------
Num(v) == [k |-> "num", v |-> v]
Id(n) == [k |-> "id", n |-> n]
Atoms == {Num(0), Num(1), Num(2), Id("a"), Id("b"), [k |-> "bool", b |-> 1]}
Exprs1 == Atoms \cup {[k |-> "bin", op |-> o, l |-> l, r |-> r] : o \in {"+","<","=="}, l \in Atoms, r \in Atoms}
               \cup {[k |-> "and", l |-> l, r |-> r] : l \in {Id("a"), [k |-> "bool", b |-> 1]}, r \in {Id("b")}}
Simple == {[k |-> "decl", n |-> n, e |-> e] : n \in {"a","b"}, e \in Exprs1}
      \cup {[k |-> "asg", n |-> n, e |-> e] : n \in {"a","b"}, e \in Exprs1}
      \cup {[k |-> "print", e |-> e] : e \in {Id("a"), Id("b")}}
      \cup {[k |-> "break"]}
Blk(s) == [k |-> "block", b |-> s]

\* --- export: all 2-statement prefixes + loop wrapper + trailing print, restricted expression set
SmallE == {Num(1), Id("a"), Id("b"), [k |-> "bool", b |-> 1],
           [k |-> "bin", op |-> "+", l |-> Id("a"), r |-> Num(1)],
           [k |-> "bin", op |-> "<", l |-> Id("a"), r |-> Num(2)],
           [k |-> "bin", op |-> "==", l |-> Id("a"), r |-> Id("b")],
           [k |-> "and", l |-> Id("a"), r |-> Id("b")]}
S2 == {[k |-> "decl", n |-> n, e |-> e] : n \in {"a","b"}, e \in SmallE}
  \cup {[k |-> "asg", n |-> n, e |-> e] : n \in {"a","b"}, e \in SmallE}
  \cup {[k |-> "print", e |-> e] : e \in {Id("a"), Id("b")}} \cup {[k |-> "break"]}
Conds == {[k |-> "bin", op |-> "<", l |-> Id("a"), r |-> Num(2)], [k |-> "bool", b |-> 1], Id("b")}
Progs == {<<s1, s2, [k |-> "print", e |-> Id("a")]>> : s1 \in S2, s2 \in S2}
   \cup {<<s1, [k |-> "while", c |-> c, b |-> Blk(<<s2, s3>>)], [k |-> "print", e |-> Id("a")]>> : s1 \in S2, s2 \in S2, s3 \in S2, c \in Conds}
Obs(p) == LET r == EvSeq(p, 1, M0) IN [out |-> r.M.out, ctl |-> r.ctl]
Shard == atoi(IOEnv.SHARD)
NSh == atoi(IOEnv.NSHARDS)
PS == SetToSeq(Progs)
Mine == SelectSeq([i \in 1..Len(PS) |-> [i |-> i, p |-> PS[i]]], LAMBDA x : x.i % NSh = Shard)
ASSUME PrintT(<<"programs", Len(PS), "mine", Len(Mine)>>)
Recs == [j \in 1..Len(Mine) |-> [id |-> Mine[j].i, prog |-> Mine[j].p, expect |-> Obs(Mine[j].p)]]
ASSUME ndJsonSerialize(IOEnv.OUT, SelectSeq(Recs, LAMBDA r : r.expect.ctl # "fuel"))
VARIABLE z
Init == z = 0
Next == UNCHANGED z
====
