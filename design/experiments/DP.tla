---- MODULE DP ----
EXTENDS Integers, Sequences, FiniteSets, TLC, Json, IOUtils, SequencesExt
Rows == ndJsonDeserialize(IOEnv.ROWS)
BeforeMap == JsonDeserialize(IOEnv.BEFORE).before

\* ---------- catalogue (transcribed from the harness) ----------
P(b, c, f, tid) == [bare |-> b, const |-> c, form |-> f, tid |-> tid]   \* tid: full typeid name used by Type_Info::operator<
Cat == [ int |-> P("int", FALSE, "val", "int"), double |-> P("double", FALSE, "val", "double"),
         cstringR |-> P("string", TRUE, "cref", "string"), BV |-> P("BV", TRUE, "cref", "BV"), BN |-> P("BN", TRUE, "cref", "BN"),
         BaseR |-> P("Base", FALSE, "ref", "Base"), cBaseR |-> P("Base", TRUE, "cref", "Base"), DerivedR |-> P("Derived", FALSE, "ref", "Derived"),
         intR |-> P("int", FALSE, "ref", "int"), cintR |-> P("int", TRUE, "cref", "int"), spBase |-> P("Base", FALSE, "sp", "spBase"),
         bool |-> P("bool", FALSE, "val", "bool"), long |-> P("long", FALSE, "val", "long"), BaseP |-> P("Base", FALSE, "ptr", "pBase") ]
Key(n) == CASE n = "cstring&" -> "cstringR" [] n = "Base&" -> "BaseR" [] n = "cBase&" -> "cBaseR" [] n = "Derived&" -> "DerivedR"
            [] n = "int&" -> "intR" [] n = "cint&" -> "cintR" [] n = "Base*" -> "BaseP" [] OTHER -> n
A(b, c, st, dyn) == [bare |-> b, const |-> c, st |-> st, dyn |-> dyn]     \* st: "own" (shared_ptr inside) | "ref"; dyn: dynamic type
Args == [ ivar |-> A("int", FALSE, "own", "int"), ilit |-> A("int", TRUE, "own", "int"), dvar |-> A("double", FALSE, "own", "double"),
          svar |-> A("string", FALSE, "own", "string"), bvar |-> A("bool", FALSE, "own", "bool"), Dobj |-> A("Derived", FALSE, "own", "Derived"),
          Bobj |-> A("Base", FALSE, "own", "Base"), cDobj |-> A("Derived", TRUE, "own", "Derived"), lvar |-> A("long", FALSE, "own", "long"),
          cvar |-> A("char", FALSE, "own", "char"), undef |-> A("undef", FALSE, "own", "undef"), slit |-> A("string", TRUE, "own", "string"),
          Dref |-> A("Derived", FALSE, "ref", "Derived"), spD |-> A("Derived", FALSE, "own", "Derived") ]
Arith == {"int", "double", "long", "char"}
Convertible == {"Base", "Derived"}            \* bare types known to the conversion table (base_class<Base,Derived>)
Before(a, b) == a # b /\ BeforeMap[a \o "<" \o b] = 1

\* ---------- boxed_cast ----------
Direct(a, p) ==       \* Cast_Helper<P>::cast without conversions
  CASE p.form = "cref" /\ p.bare = "BV" -> TRUE
    [] p.form = "cref" /\ p.bare = "BN" -> a.bare \in Arith
    [] p.form \in {"val", "cref"} -> a.bare = p.bare
    [] p.form = "ref" -> a.bare = p.bare /\ ~a.const
    [] p.form = "ptr" -> a.bare = p.bare /\ ~a.const
    [] p.form = "sp"  -> a.bare = p.bare /\ ~a.const /\ a.st = "own"
Up(a) == [a EXCEPT !.bare = "Base"]             \* Static_Caster<Derived,Base>: keeps constness and storage kind
BoxedCast(a, p) ==
  LET conv == p.bare \in Convertible IN
  IF (a.bare = p.bare \/ ~conv) /\ Direct(a, p) THEN TRUE
  ELSE IF ~conv THEN FALSE
  ELSE IF a.bare = "Derived" /\ p.bare = "Base" THEN Direct(Up(a), p)              \* up conversion exists
  ELSE IF a.bare = "Base" /\ p.bare = "Derived" THEN (a.dyn = "Derived" /\ Direct([a EXCEPT !.bare = "Derived"], p))  \* down: dynamic_cast
  ELSE FALSE

\* ---------- ordering (function_less_than, non-dynamic functions, arity 1) ----------
Less(l, r) ==
  IF l.bare = r.bare /\ l.const = r.const THEN FALSE
  ELSE IF l.bare = r.bare /\ l.const /\ ~r.const THEN FALSE
  ELSE IF l.bare = r.bare /\ ~l.const THEN TRUE
  ELSE IF l.bare = "BV" THEN FALSE ELSE IF r.bare = "BV" THEN TRUE
  ELSE IF l.bare = "BN" THEN FALSE ELSE IF r.bare = "BN" THEN TRUE
  ELSE Before(l.tid, r.tid)
\* vector after add: first registered, then second appended, then stable sort
Sorted(f, s) == IF Less(s, f) THEN <<s, f>> ELSE <<f, s>>

\* ---------- dispatch ----------
Converts(to, from) == (to = "Base" /\ from = "Derived") \/ (to = "Derived" /\ from = "Base")   \* bidir dynamic conversion
CompareTypeToParam(p, a) ==
  p.bare = "BV" \/ (a.bare # "undef" /\ ((p.bare = "BN" /\ a.bare \in Arith) \/ p.bare = a.bare \/ Converts(p.bare, a.bare)))
IsArithParam(p) == p.bare \in {"int", "double", "long"}
NumDiffs(p, a) == IF p.bare = a.bare THEN 0 ELSE 1
FirstOk(fs, a, lvl) == LET idx == SelectInSeq(fs, LAMBDA p : NumDiffs(p, a) = lvl /\ (lvl = 0 \/ CompareTypeToParam(p, a)) /\ BoxedCast(a, p)) IN idx
ArithMatch(p, a) == CompareTypeToParam(p, a) \/ (a.bare \in Arith /\ IsArithParam(p))
Dispatch(fs, a) ==
  LET i0 == FirstOk(fs, a, 0) IN IF i0 # 0 THEN fs[i0] ELSE
  LET i1 == FirstOk(fs, a, 1) IN IF i1 # 0 THEN fs[i1] ELSE
  LET cand == SelectSeq(fs, LAMBDA p : ArithMatch(p, a)) IN
  IF Len(cand) = 0 THEN P("err", FALSE, "none", "")
  ELSE IF Len(cand) = 2 /\ ~( (a.const /\ ~cand[1].const /\ cand[2].const) \/ (~a.const /\ ~cand[1].const /\ cand[2].const) ) THEN P("err", FALSE, "amb", "")
  ELSE LET m == IF Len(cand) = 2 /\ a.const THEN cand[2] ELSE cand[1] IN
       LET a2 == IF IsArithParam(m) /\ a.bare \in Arith /\ a.bare # m.bare THEN A(m.bare, FALSE, "own", m.bare) ELSE a IN
       IF BoxedCast(a2, m) THEN m ELSE P("err", FALSE, "cast", "")

NameOf(p) == IF p.bare = "err" THEN "" ELSE
   CHOOSE n \in {"int","double","cstring&","BV","BN","Base&","cBase&","Derived&","int&","cint&","spBase","bool","long","Base*"} : Cat[Key(n)] = p
Predict(r) == LET f == Cat[Key(r.first)] IN
              LET fs == IF r.second = "" THEN <<f>> ELSE Sorted(f, Cat[Key(r.second)]) IN
              NameOf(Dispatch(fs, Args[r.arg]))
Bad == SelectSeq(Rows, LAMBDA r : Predict(r) # r.entered)
ASSUME PrintT(<<"rows", Len(Rows), "mismatches", Len(Bad)>>)
ASSUME \A i \in 1..(IF Len(Bad) < 25 THEN Len(Bad) ELSE 25) : PrintT(<<Bad[i].first, Bad[i].second, Bad[i].arg, "real", Bad[i].entered, "spec", Predict(Bad[i])>>)
VARIABLE z
Init == z = 0
Next == UNCHANGED z
====
