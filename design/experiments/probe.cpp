#include <chaiscript/chaiscript.hpp>
#include <thread>
#include <mutex>
#include <condition_variable>
#include <new>
using namespace chaiscript;

struct Base { virtual ~Base() = default; int b = 1; };
struct Derived : Base { static int live; Derived(){++live;} Derived(const Derived&){++live;} ~Derived() override {--live;} };
int Derived::live = 0;
static int entered_a = 0, entered_b = 0;

int main() {
  // ---- C14: address reuse on surviving thread
  {
    alignas(ChaiScript) static unsigned char slot[sizeof(ChaiScript)];
    std::mutex m; std::condition_variable cv; int phase = 0; std::string seen;
    ChaiScript *cur = nullptr;
    std::thread w([&]{
      std::unique_lock<std::mutex> l(m);
      cv.wait(l, [&]{return phase==1;});
      cur->eval("var leaked = 42");
      phase = 2; cv.notify_all();
      cv.wait(l, [&]{return phase==3;});
      try { seen = std::to_string(cur->eval<int>("leaked")); } catch (const std::exception &e) { seen = "not visible"; }
      phase = 4; cv.notify_all();
    });
    { std::unique_lock<std::mutex> l(m); cur = new (slot) ChaiScript(); phase = 1; cv.notify_all(); cv.wait(l, [&]{return phase==2;}); cur->~ChaiScript();
      cur = new (slot) ChaiScript(); phase = 3; cv.notify_all(); cv.wait(l, [&]{return phase==4;}); cur->~ChaiScript(); }
    w.join();
    printf("C14 second engine at same address, worker thread sees leaked = %s\n", seen.c_str());
  }
  // ---- C09/C11: stale conversion saves
  {
    ChaiScript chai;
    chai.add(user_type<Base>(), "Base"); chai.add(user_type<Derived>(), "Derived");
    chai.add(constructor<Derived()>(), "Derived"); chai.add(base_class<Base, Derived>());
    chai.add(fun([](const Base &b){ return b.b; }), "takes_base");
    chai.eval("def t() { var d = Derived(); takes_base(d) }; t()");
    printf("C11 live Derived after eval returned (expect 0): %d\n", Derived::live);
    chai.eval("1 + 1; to_string(3)");
    printf("C11 live Derived after a later unrelated call: %d\n", Derived::live);
  }
  // ---- C06/C10: second overload entered when entered function throws bad_boxed_cast
  {
    ChaiScript chai;
    chai.add(fun([](const std::function<std::string ()> &f){ ++entered_a; return f(); }), "ov");
    chai.add(fun([](const Boxed_Value &){ ++entered_b; return std::string("catch-all"); }), "ov");
    try { auto r = chai.eval<std::string>("ov(fun() { 5 })"); printf("C06 result=%s entered_a=%d entered_b=%d\n", r.c_str(), entered_a, entered_b); }
    catch (const std::exception &e) { printf("C06 exception %s entered_a=%d entered_b=%d\n", e.what(), entered_a, entered_b); }
  }
  // ---- C10: finally when catch block throws / returns
  {
    ChaiScript chai;
    try { chai.eval("try { throw(1) } catch(e) { print(\"c\"); throw(2) } finally { print(\"finally-ran\") }"); } catch (...) { printf("C10 outer caught\n"); }
    chai.eval("def r() { try { throw(1) } catch(e) { return 7 } finally { print(\"finally-ran-2\") } }; print(r())");
    chai.eval("def r2() { try { return 8 } finally { print(\"finally-ran-3\") } }; print(r2())");
  }
  // ---- C07: shallow const of vector elements
  {
    ChaiScript chai;
    std::vector<Boxed_Value> v{var(1), var(2)};
    chai.add_global_const(const_var(v), "CV");
    try { chai.eval("CV[0] = 99"); } catch (const std::exception &e) { printf("C07 assignment rejected\n"); }
    printf("C07 CV[0] now %d\n", chai.eval<int>("CV[0]"));
    const std::vector<int> cvi{1,2};
    { auto m = std::make_shared<Module>(); bootstrap::standard_library::vector_type<std::vector<int>>("VI", *m); chai.add(m); }
    chai.add(const_var(&cvi), "cvi");
    try { chai.eval("cvi[0] = 5"); } catch (const std::exception &e) { printf("C07 vector<int> const rejected\n"); }
    printf("C07 cvi[0]=%d\n", cvi[0]);
  }
  return 0;
}
