#include <chaiscript/chaiscript.hpp>
#include <fstream>
#include <sstream>
int main(int argc, char**argv){ chaiscript::ChaiScript chai;
  std::ifstream f(argv[1]); std::stringstream ss; ss << f.rdbuf();
  try { chai.eval(ss.str(), chaiscript::Exception_Handler(), "file1.chai"); }
  catch (const chaiscript::exception::eval_error &e) {
    printf("reason=%s file=%s pos=%d,%d\n", e.reason.c_str(), e.filename.c_str(), e.start_position.line, e.start_position.column);
    for (auto &n : e.call_stack) printf("  %s '%s' %s %d,%d\n", chaiscript::ast_node_type_to_string(n.identifier), n.text.c_str(), n.filename().c_str(), n.start().line, n.start().column);
  } return 0; }
