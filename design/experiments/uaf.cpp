#include <chaiscript/chaiscript.hpp>
using namespace chaiscript;
int main(int argc, char **argv) {
  ChaiScript chai;
  int which = atoi(argv[1]);
  if (which == 1) { chai.eval("var c = \"abcdefghijklmnopqrstuvwxyz0123456789\"[3]"); printf("c=%c\n", chai.eval<char>("c")); }
  if (which == 2) { auto bv = chai.eval("\"abcdefghijklmnopqrstuvwxyz0123456789\"[3]"); printf("r=%c\n", chai.boxed_cast<char>(bv)); }
  if (which == 3) { chai.eval("def id(x) { x }"); printf("r=%c\n", chai.eval<char>("id((\"abcdefghijklmnopqrstuvwxyz\" + \"0123456789\")[3])")); }
  return 0;
}
