#define CHAISCRIPT_VERIF 1
#include <chaiscript/chaiscript.hpp>
#include <fstream>
#include <sstream>
#include <cstdio>
#include <mutex>
#include <thread>
#include <map>
using namespace chaiscript;
static FILE *out = nullptr; static bool on = false; static long nev = 0;
static std::string esc(std::string_view s){ std::string r; for(char c: s){ if(c=='"'||c=='\\'){r+='\\';r+=c;} else if((unsigned char)c<0x20){ char b[8]; snprintf(b,8,"\\u%04x",c); r+=b;} else r+=c;} return r; }
static std::mutex mx; static std::map<std::thread::id,int> tids;
static void ev(const char *k, const void *, std::string_view n, long a, long b, long c, std::string_view n2){
  if(!on) return; std::lock_guard<std::mutex> g(mx); ++nev; int t; { auto it = tids.find(std::this_thread::get_id()); if (it==tids.end()) it = tids.emplace(std::this_thread::get_id(), (int)tids.size()).first; t = it->second; }
  fprintf(out, "{\"e\":\"%s\",\"t\":%d,\"n\":\"%s\",\"a\":%ld,\"b\":%ld,\"c\":%ld,\"m\":\"%s\"}\n", k, t, esc(n).c_str(), a, b, c, esc(n2).c_str());
}
int main(int argc, char **argv){
  out = fopen(argv[1], "w");
  verif::hooks().event = &ev;
  for (int i = 2; i < argc; ++i) {
    ChaiScript chai;
    chai.add(fun([](int){ throw std::runtime_error("exit called"); }), "exit");
    try { chai.eval_file("/repo/unittests/unit_test.inc"); } catch (...) {}
    fprintf(out, "{\"e\":\"reset\",\"t\":0,\"n\":\"%s\",\"a\":0,\"b\":0,\"c\":0,\"m\":\"\"}\n", argv[i]);
    on = true;
    const char *res = "ok";
    try { chai.eval_file(argv[i]); } catch (const exception::eval_error &) { res = "ee"; } catch (const Boxed_Value &) { res = "bv"; } catch (const std::exception &) { res = "ex"; } catch (...) { res = "other"; }
    on = false;
    fprintf(out, "{\"e\":\"end\",\"t\":0,\"n\":\"%s\",\"a\":0,\"b\":0,\"c\":0,\"m\":\"\"}\n", res);
  }
  fclose(out); fprintf(stderr, "events=%ld\n", nev);
}
