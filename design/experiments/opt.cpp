#include <chaiscript/chaiscript.hpp>
#include <fstream>
#include <sstream>
using namespace chaiscript;
struct NopPass { template<typename T> auto optimize(eval::AST_Node_Impl_Ptr<T> p) { return p; } };
template<typename P> void run(const char* tag, const std::string& s){
  ChaiScript_Basic chai(Std_Lib::library(), std::make_unique<P>());
  try { auto v = chai.eval(s); printf("%s: ok type=%s", tag, v.get_type_info().bare_name());
        try { printf(" val=%d", chai.boxed_cast<int>(v)); } catch(...) {}
        printf("\n"); }
  catch (const exception::eval_error &e) { printf("%s: eval_error %s\n", tag, e.reason.c_str()); }
  catch (const std::exception &e) { printf("%s: std::exception %s\n", tag, e.what()); }
  catch (const Boxed_Value &) { printf("%s: Boxed_Value thrown\n", tag); }
}
int main(int argc, char**argv){
  std::ifstream f(argv[1]); std::stringstream ss; ss << f.rdbuf();
  run<parser::ChaiScript_Parser<eval::Noop_Tracer, optimizer::Optimizer_Default>>("opt  ", ss.str());
  run<parser::ChaiScript_Parser<eval::Noop_Tracer, optimizer::Optimizer<NopPass>>>("noopt", ss.str());
}
