#include <chaiscript/chaiscript.hpp>
#include <sys/wait.h>
#include <unistd.h>
#include <fcntl.h>
#include <set>
using namespace chaiscript;
struct Tracked { static int next; static std::set<int> live; static int ctor, dtor; int id;
  Tracked() : id(++next) { live.insert(id); ++ctor; }
  Tracked(const Tracked &) : id(++next) { live.insert(id); ++ctor; }
  ~Tracked() { live.erase(id); ++dtor; id = -id; }
  int get() const { return id; } void touch() { id = id; } };
int Tracked::next = 0; std::set<int> Tracked::live; int Tracked::ctor = 0; int Tracked::dtor = 0;
struct Base { virtual ~Base() = default; }; struct DerivedT : Base { Tracked t; };
struct Holder { Tracked member; std::vector<Tracked> vec{2}; };
static std::shared_ptr<Tracked> kept;
static Tracked global_t;
static void setup(ChaiScript &chai) {
  chai.add(user_type<Tracked>(), "Tracked"); chai.add(constructor<Tracked()>(), "Tracked"); chai.add(constructor<Tracked(const Tracked &)>(), "Tracked");
  chai.add(fun(&Tracked::get), "get"); chai.add(fun(&Tracked::touch), "touch");
  auto m = std::make_shared<Module>(); bootstrap::standard_library::vector_type<std::vector<Tracked>>("TVec", *m); chai.add(m);
  chai.add(user_type<Holder>(), "Holder"); chai.add(constructor<Holder()>(), "Holder"); chai.add(fun(&Holder::member), "member"); chai.add(fun(&Holder::vec), "vec");
  chai.add(fun([]() { return std::vector<Tracked>(2); }), "make_tv");
  chai.add(fun([]() { return Holder(); }), "make_holder");
  chai.add(fun([](const Tracked &t) { return t.get(); }), "by_cref");
  chai.add(fun([](Tracked t) { return t.get(); }), "by_val");
  chai.add(fun([](Tracked *t) { return t->get(); }), "by_ptr");
  chai.add(fun([](std::shared_ptr<Tracked> t) { kept = t; return t->get(); }), "keep_sp");
  chai.add(fun([]() { kept.reset(); }), "drop_sp");
  chai.add(fun([]() -> Tracked & { return global_t; }), "get_ref");
  chai.add(fun([](const std::vector<Tracked> &v) -> const Tracked & { return v.at(0); }), "first_of");
  chai.add(fun([]() { return std::make_unique<Tracked>(); }), "make_unique_t");
  chai.add(user_type<Base>(), "Base"); chai.add(user_type<DerivedT>(), "DerivedT"); chai.add(constructor<DerivedT()>(), "DerivedT"); chai.add(base_class<Base, DerivedT>());
  chai.add(fun([](const Base &) { return 1; }), "takes_base");
  chai.add(fun([]() { throw std::runtime_error("cpp"); }), "throw_cpp");
}
static const char *cases[][2] = {
  {"basic", "var t = Tracked(); t.get()"},
  {"scope_exit", "{ var t = Tracked(); t.get() }; 1"},
  {"vector_pop", "var v = [Tracked(), Tracked()]; v.pop_back(); v.size()"},
  {"capture_outlives_scope", "var f; { var t = Tracked(); f = fun[t]() { t.get() } }; f()"},
  {"return_local", "def mk() { var t = Tracked(); t }; var r = mk(); r.get()"},
  {"pass_forms", "var t = Tracked(); by_cref(t) + by_val(t) + by_ptr(t) + keep_sp(t)"},
  {"cpp_keeps_sp_after_scope", "{ var t = Tracked(); keep_sp(t) }; 1"},
  {"tvec_ranged_for_capture", "var f; { var tv = make_tv(); for (x : tv) { f = fun[x]() { x.get() } } }; f()"},
  {"tvec_temp_elem_call", "make_tv()[0].get()"},
  {"tvec_temp_elem_var", "var e = make_tv()[0]; var pad = [Tracked(), Tracked(), Tracked()]; e.get()"},
  {"tvec_temp_elem_refassign", "var e := make_tv()[0]; var pad = [Tracked(), Tracked(), Tracked()]; e.get()"},
  {"tvec_temp_elem_through_fn", "def id(x) { x }; var e := id(make_tv()[0]); var pad = [Tracked(), Tracked()]; e.get()"},
  {"temp_holder_member_call", "make_holder().member.get()"},
  {"temp_holder_member_var", "var m = make_holder().member; var pad = [Tracked(), Tracked()]; m.get()"},
  {"temp_holder_member_refassign", "var m := make_holder().member; var pad = [Tracked(), Tracked()]; m.get()"},
  {"first_of_temp", "var e := first_of(make_tv()); var pad = [Tracked(), Tracked()]; e.get()"},
  {"first_of_local_escapes", "var e; { var tv = make_tv(); e := first_of(tv) }; var pad = [Tracked(), Tracked()]; e.get()"},
  {"elem_ref_then_container_mutation", "var tv = make_tv(); var e := tv[0]; tv.clear(); var pad = [Tracked(), Tracked()]; e.get()"},
  {"get_ref_static", "var r := get_ref(); r.get()"},
  {"unique_ptr_return", "var u = make_unique_t(); u.get()"},
  {"conversion_temp", "def t() { var d = DerivedT(); takes_base(d) }; t()"},
  {"exception_unwinds_local", "try { var t = Tracked(); throw(1) } catch(e) { }; 1"},
  {"thrown_object", "try { throw(Tracked()) } catch(e) { e.get() }"},
  {"bind_keeps_arg", "var b; { var t = Tracked(); b = bind(fun(x) { x.get() }, t) }; b()"},
  {"catch_var_escape", "var saved; try { throw_cpp() } catch(e) { saved := e }; var pad = [Tracked(), Tracked()]; saved.what()"},
  {"global_obj", "global g = Tracked(); g.get()"},
  {"for_counter_capture", "var f; for (var i = 0; i < 3; ++i) { f = fun[i]() { i } }; f()"},
  {"attr_of_object", "var o = Dynamic_Object(); o.t = Tracked(); var x = o.t; o = 1; x.get()"},
  {"map_erase", "var m = [\"a\": Tracked()]; var r := m[\"a\"]; m.erase(\"a\"); r.get()"},
  {"vector_elem_ref_after_pop", "var v = [Tracked()]; var r := v[0]; v.pop_back(); r.get()"},
};
int main() {
  for (auto &c : cases) {
    fflush(stdout);
    pid_t p = fork();
    if (p == 0) {
      int devnull = open("/dev/null", O_WRONLY); dup2(devnull, 2);
      std::string res;
      { ChaiScript chai; setup(chai);
        int before_live = (int)Tracked::live.size();
        try { chai.eval(c[1]); res = "ok"; } catch (const std::exception &e) { res = std::string("exc(") + e.what() + ")"; } catch (...) { res = "exc(other)"; }
        int during = (int)Tracked::live.size() - before_live;
        try { chai.eval("1"); } catch (...) {}
        res += " live_after_eval=" + std::to_string(during);
      }
      kept.reset();
      printf("%-34s %s live_after_engine=%d ctor=%d dtor=%d\n", c[0], res.substr(0, 90).c_str(), (int)Tracked::live.size() - 1, Tracked::ctor, Tracked::dtor);
      fflush(stdout); _exit(0);
    }
    int st = 0; waitpid(p, &st, 0);
    if (!(WIFEXITED(st) && WEXITSTATUS(st) == 0)) printf("%-34s CHILD DIED status=%d (%s)\n", c[0], st, WIFSIGNALED(st) ? "signal" : "asan/abort exit");
  }
}
