// The fixed C++ environment every replayed case sees: output capture, fault-injecting callback,
// throwing functions of every kind, an instrumented class with a lifetime registry, a small class
// hierarchy with registered conversions, and C++-owned const objects.
#ifndef VH_ENV_HPP
#define VH_ENV_HPP
#include "vh_common.hpp"
#include <set>

namespace vh {
  struct UserEx {
    int v;
  };
  struct UserClassEx {
    std::string what;
  };

  /// Instrumented class: every instance is registered; touching a destroyed instance is recorded, not inferred
  class Tk {
  public:
    struct Reg {
      std::set<const Tk *> live;
      long constructed = 0;
      long destroyed = 0;
      long double_destroy = 0;
      long touched_after = 0;
    };
    static Reg &reg() {
      static Reg r;
      return r;
    }
    static long live() { return static_cast<long>(reg().live.size()); }
    static long touched_after_destroy() { return reg().touched_after + reg().double_destroy; }
    static void reset() { reg() = Reg(); }

    explicit Tk(int v = 0) : m_v(v), m_magic(k_alive) { born(); }
    Tk(const Tk &o) : m_v(o.ok() ? o.m_v : -999), m_magic(k_alive) { born(); }
    Tk &operator=(const Tk &o) {
      const bool a = ok(), b = o.ok();
      if (a && b) { m_v = o.m_v; }
      return *this;
    }
    ~Tk() {
      if (reg().live.erase(this) == 0) {
        ++reg().double_destroy;
      } else {
        ++reg().destroyed;
      }
      m_magic = k_dead;
    }
    int get() const { return ok() ? m_v : -999; }
    void set(int v) {
      if (ok()) { m_v = v; }
    }
    /// the registry decides (the object itself is not read when it is gone): a touch of a destroyed instance is counted, never performed
    bool ok() const {
      if (reg().live.count(this) == 0) {
        ++reg().touched_after;
        return false;
      }
      if (m_magic != k_alive) { ++reg().touched_after; }
      return true;
    }
    const Tk &check() const {
      ok();
      return *this;
    }
    int m_v;

  private:
    static constexpr unsigned k_alive = 0x600DF00Du, k_dead = 0xDEADDEADu;
    void born() {
      reg().live.insert(this);
      ++reg().constructed;
    }
    volatile unsigned m_magic;
  };

  /// an object that contains a Tk by value and hands out references into itself (C11: borrowed references)
  struct Holder {
    Tk member{21};
    Tk &inner() { return member; }
  };

  /// converts to an instrumented object by a user conversion that makes a NEW Tk (C11: converted temporaries)
  struct TkSrc {
    int v = 7;
  };

  /// polymorphic hierarchy whose objects carry an instrumented member (C11: values converted down / up the hierarchy)
  struct PB {
    virtual ~PB() = default;
    PB() = default;
    PB(const PB &) = default;
    Tk probe{31};
  };
  struct PD : PB {
    int extra = 1;
  };

  struct BaseC {
    virtual ~BaseC() = default;
    int b = 1;
    virtual int who() const { return 1; }
  };
  struct DerivedC : BaseC {
    int d = 2;
    int who() const override { return 2; }
  };
  struct OtherC {
    int o = 3;
  };
  struct TypeA {};
  struct TypeB {};
  struct TypeC {};

  struct Env {
    struct Resetter {
      Resetter() { Tk::reset(); }
    } m_resetter; ///< before c_tk: the registry starts empty for every case
    std::vector<std::string> outs;
    int cb_calls = 0;
    int fault_at = -1;
    int fault_kind = 0;

    // C++-owned objects whose value the driver reads directly (C07)
    int c_int = 41;
    std::string c_str = "cstr";
    std::vector<int> c_vecint{1, 2, 3};
    std::vector<Boxed_Value> c_vec;
    std::map<std::string, Boxed_Value> c_map;
    Tk c_tk{7};
    // values handed to the engine with const_var (the engine holds the object; the driver keeps a handle to read it)
    Boxed_Value cv_int, cv_str, cv_vec, cv_map;
    // NON-const C++ objects handed to the engine as const views: const_var(std::ref(x)), const_var(&x), const_var(shared_ptr<T>)
    int x_int = 41;
    std::string x_str = "cstr";
    int xp_int = 41;
    std::shared_ptr<Tk> xsp_tk = std::make_shared<Tk>(8);
    std::shared_ptr<const Tk> csp_tk = std::make_shared<const Tk>(8);
    std::shared_ptr<Tk> kept; ///< a shared_ptr the C++ side keeps past the script's scopes (C11)
    // mutable controls shared with the engine: the same chains and mutators must SUCCEED on them (C07 vacuity guard)
    std::shared_ptr<int> nc_int = std::make_shared<int>(41);
    std::shared_ptr<std::string> nc_str = std::make_shared<std::string>("cstr");
    std::shared_ptr<std::vector<Boxed_Value>> nc_vec = std::make_shared<std::vector<Boxed_Value>>();
    std::shared_ptr<std::map<std::string, Boxed_Value>> nc_map = std::make_shared<std::map<std::string, Boxed_Value>>();
    std::shared_ptr<Tk> nc_tk = std::make_shared<Tk>(7);

    int cb(int x) {
      ++cb_calls;
      if (cb_calls == fault_at) {
        switch (fault_kind) {
          case 0: throw std::runtime_error("cb fault");
          case 1: throw UserEx{1};
          case 2: throw Boxed_Value(42);
          default: throw exception::eval_error("cb fault");
        }
      }
      return x;
    }

    void install(ChaiScript_Basic &chai) {
      c_vec = {var(1), var(2)};
      c_map = {{"a", var(1)}, {"b", var(2)}};
      chai.add(fun([this](const std::string &s) { outs.push_back(s); }), "hout");
      chai.add(fun([this](int x) { return cb(x); }), "cb");
      chai.add(fun([this]() { return cb_calls; }), "cb_count");
      // throwers (C09, C10)
      chai.add(fun([](const std::string &s) -> int { throw std::runtime_error(s); }), "throw_runtime");
      chai.add(fun([]() -> int { throw std::out_of_range("oor"); }), "throw_range");
      chai.add(fun([]() -> int { throw std::logic_error("logic"); }), "throw_logic");
      chai.add(fun([]() -> int { throw std::bad_cast(); }), "throw_badcast");
      chai.add(fun([]() -> int { throw UserEx{5}; }), "throw_user");
      chai.add(fun([]() -> int { throw UserClassEx{"u"}; }), "throw_userclass");
      chai.add(fun([]() -> int { throw 17; }), "throw_cint");
      chai.add(fun([](const Boxed_Value &bv) -> int { throw bv; }), "throw_bv");
      chai.add(fun([]() -> int { throw exception::eval_error("ee from C++"); }), "throw_ee");
      // the same throwers behind a double parameter: called with an int they are reached through the conversion route of dispatch (C10)
      chai.add(fun([](double) -> int { throw std::runtime_error("x"); }), "throw_runtime_d");
      chai.add(fun([](double) -> int { throw std::out_of_range("oor"); }), "throw_range_d");
      chai.add(fun([](double) -> int { throw std::logic_error("logic"); }), "throw_logic_d");
      chai.add(fun([](double) -> int { throw exception::eval_error("ee from C++"); }), "throw_ee_d");
      chai.add(fun([](double) -> int { throw UserEx{5}; }), "throw_user_d");
      // instrumented class (C11)
      chai.add(user_type<Tk>(), "Tk");
      chai.add(constructor<Tk()>(), "Tk");
      chai.add(constructor<Tk(int)>(), "Tk");
      chai.add(constructor<Tk(const Tk &)>(), "Tk");
      chai.add(fun(&Tk::operator=), "=");
      chai.add(fun(&Tk::get), "get");
      chai.add(fun(&Tk::set), "set");
      chai.add(fun(&Tk::m_v), "v");
      chai.add(fun([]() { return Tk::live(); }), "tk_live");
      chai.add(fun([]() { return Tk::touched_after_destroy(); }), "tk_uaf");
      chai.add(fun([](Tk t) { return t.get(); }), "tk_by_value");
      chai.add(fun([](const Tk &t) { return t.get(); }), "tk_by_cref");
      chai.add(fun([](Tk &t) { t.set(t.get() + 1); return t.get(); }), "tk_by_ref");
      chai.add(fun([](Tk *t) { t->set(t->get() + 1); return t->get(); }), "tk_by_ptr");
      chai.add(fun([](const Tk *t) { return t->get(); }), "tk_by_cptr");
      chai.add(fun([](std::shared_ptr<Tk> t) { t->set(t->get() + 1); return t->get(); }), "tk_by_sp");
      chai.add(fun([](const std::shared_ptr<const Tk> &t) { return t->get(); }), "tk_by_csp");
      chai.add(fun([]() { return Tk(3); }), "tk_make");
      chai.add(fun([]() { return std::make_shared<Tk>(4); }), "tk_make_sp");
      chai.add(fun([]() { return std::make_unique<Tk>(5); }), "tk_make_up");
      chai.add(fun([this]() -> const Tk & { return c_tk; }), "tk_cref");
      chai.add(fun([this]() -> const Tk * { return &c_tk; }), "tk_cptr");
      // containers and holders of instrumented objects, functions returning references into their argument (C11)
      {
        auto m = std::make_shared<Module>();
        bootstrap::standard_library::vector_type<std::vector<Tk>>("TkVec", *m);
        chai.add(m);
      }
      chai.add(fun([]() { return std::vector<Tk>{Tk(11), Tk(12)}; }), "make_tv");
      chai.add(user_type<Holder>(), "Holder");
      chai.add(constructor<Holder()>(), "Holder");
      chai.add(constructor<Holder(const Holder &)>(), "Holder");
      chai.add(fun(&Holder::inner), "inner");
      chai.add(fun(&Holder::member), "member");
      chai.add(fun([]() { return Holder(); }), "make_holder");
      chai.add(fun([](std::vector<Tk> &v) -> Tk & { return v.front(); }), "first_of");
      // a converted temporary handed to a C++ function that returns a reference / pointer to its parameter
      chai.add(user_type<TkSrc>(), "TkSrc");
      chai.add(constructor<TkSrc()>(), "TkSrc");
      chai.add(type_conversion<TkSrc, Tk>([](const TkSrc &src) { return Tk(src.v); }));
      chai.add(fun([](const Tk &t) -> const Tk & { return t.check(); }), "tk_ident");
      chai.add(fun([](const Tk *t) -> const Tk * { t->check(); return t; }), "tk_ident_p");
      chai.add(user_type<PB>(), "PB");
      chai.add(user_type<PD>(), "PD");
      chai.add(base_class<PB, PD>());
      chai.add(constructor<PB(const PB &)>(), "PB");
      chai.add(constructor<PD(const PD &)>(), "PD");
      chai.add(fun([]() -> std::shared_ptr<PB> { return std::make_shared<PD>(); }), "make_pb_really_pd");
      chai.add(fun([]() { return std::make_shared<PD>(); }), "make_pd_sp");
      chai.add(fun([](const PB &b) { return b.probe.get(); }), "get");
      chai.add(fun([this](std::shared_ptr<Tk> t) { kept = std::move(t); }), "tk_keep_sp");
      chai.add(fun([this]() { return kept ? kept->get() : -1; }), "tk_kept_get");
      chai.add(fun([this]() { kept.reset(); }), "tk_drop_kept");
      // hierarchy + conversions (C06, C09 saves)
      chai.add(user_type<BaseC>(), "BaseC");
      chai.add(user_type<DerivedC>(), "DerivedC");
      chai.add(user_type<OtherC>(), "OtherC");
      chai.add(constructor<BaseC()>(), "BaseC");
      chai.add(constructor<DerivedC()>(), "DerivedC");
      chai.add(constructor<OtherC()>(), "OtherC");
      chai.add(base_class<BaseC, DerivedC>());
      chai.add(fun([](const BaseC &b) { return b.who(); }), "takes_base");
      chai.add(fun([](BaseC &b) { b.b = 9; return b.who(); }), "takes_base_mut");
      chai.add(type_conversion<OtherC, std::string>([](const OtherC &o) { return "other" + std::to_string(o.o); }));
      chai.add(fun([](const std::string &s) { return s.size(); }), "takes_string");
      // mutable-parameter functions (C07)
      chai.add(fun([](int &i) { i = 99; }), "mut_int_ref");
      chai.add(fun([](int *i) { *i = 99; }), "mut_int_ptr");
      chai.add(fun([](std::shared_ptr<int> i) { *i = 99; }), "mut_int_sp");
      chai.add(fun([](std::string &s) { s = "mutated"; }), "mut_str_ref");
      chai.add(fun([](std::string *s) { *s = "mutated"; }), "mut_str_ptr");
      chai.add(fun([](std::vector<Boxed_Value> &v) { v.clear(); }), "mut_vec_ref");
      chai.add(fun([](std::map<std::string, Boxed_Value> &m) { m.clear(); }), "mut_map_ref");
      chai.add(fun([](Tk &t) { t.set(99); }), "mut_tk_ref");
      // const sources (C07)
      chai.add_global_const(const_var(c_int), "G_CI");
      chai.add(fun([this]() -> const int & { return c_int; }), "cref_int");
      chai.add(fun([this]() -> const int * { return &c_int; }), "cptr_int");
      chai.add(fun([this]() -> const std::string & { return c_str; }), "cref_str");
      chai.add(fun([this]() -> const std::vector<int> & { return c_vecint; }), "cref_vecint");
      chai.add(fun([this]() -> const std::vector<Boxed_Value> & { return c_vec; }), "cref_vec");
      chai.add(fun([this]() -> const std::map<std::string, Boxed_Value> & { return c_map; }), "cref_map");
      chai.add(fun([]() -> const int { return 5; }), "cret_int");
      chai.add(fun([]() -> const Tk { return Tk(6); }), "tk_cret");
      cv_int = const_var(41);
      cv_str = const_var(std::string("cstr"));
      cv_vec = const_var(std::vector<Boxed_Value>{var(1), var(2)});
      cv_map = const_var(std::map<std::string, Boxed_Value>{{"a", var(1)}, {"b", var(2)}});
      chai.add_global_const(cv_int, "CV_INT");
      chai.add_global_const(cv_str, "CV_STR");
      chai.add_global_const(cv_vec, "CV_VEC");
      chai.add_global_const(cv_map, "CV_MAP");
      chai.add_global_const(Boxed_Value(std::cref(c_int)), "CW_INT");
      chai.add_global_const(Boxed_Value(csp_tk), "CSP_TK");
      // (should const_var ever hand back something that is not const, the value is still made visible: the check then sees it being modified)
      const auto add_view = [&chai](const Boxed_Value &v, const std::string &name) {
        try {
          chai.add_global_const(v, name);
        } catch (const chaiscript::exception::global_non_const &) {
          chai.add_global(v, name);
        }
      };
      add_view(const_var(std::ref(x_int)), "CX_INT");
      add_view(const_var(std::ref(x_str)), "CX_STR");
      add_view(const_var(&xp_int), "CXP_INT");
      add_view(const_var(xsp_tk), "CXSP_TK");
      *nc_vec = {var(1), var(2)};
      *nc_map = {{"a", var(1)}, {"b", var(2)}};
      chai.add_global(var(nc_int), "NC_INT");
      chai.add_global(var(nc_str), "NC_STR");
      chai.add_global(var(nc_vec), "NC_VEC");
      chai.add_global(var(nc_map), "NC_MAP");
      chai.add_global(var(nc_tk), "NC_TK");
      chai.eval("def c7_idf(x) { x }");
      chai.eval("def out(x) { hout(to_string(x)) }");
    }

    /// steps specific to one property; extended as checks are added
    std::string custom_step(ChaiScript_Basic &chai, const std::string &op, const J &st) {
      if (op == "cvals") {
        // values of the C++-owned objects as C++ sees them
        std::string r = "{\"cvals\":{\"c_int\":" + std::to_string(c_int) + ",\"c_str\":" + jstr(c_str) + ",\"c_vecint\":[";
        for (size_t i = 0; i < c_vecint.size(); ++i) { r += (i ? "," : "") + std::to_string(c_vecint[i]); }
        r += "],\"c_vec\":" + jstr(render(const_var(c_vec), chai)) + ",\"c_map\":" + jstr(render(const_var(c_map), chai));
        r += ",\"c_tk\":" + std::to_string(c_tk.m_v);
        r += ",\"cv_int\":" + jstr(render(cv_int, chai)) + ",\"cv_str\":" + jstr(render(cv_str, chai)) + ",\"cv_vec\":" + jstr(render(cv_vec, chai))
             + ",\"cv_map\":" + jstr(render(cv_map, chai)) + ",\"csp_tk\":" + std::to_string(csp_tk->m_v);
        r += ",\"x_int\":" + std::to_string(x_int) + ",\"x_str\":" + jstr(x_str) + ",\"xp_int\":" + std::to_string(xp_int) + ",\"xsp_tk\":" + std::to_string(xsp_tk->m_v);
        r += ",\"nc_int\":" + std::to_string(*nc_int) + ",\"nc_str\":" + jstr(*nc_str) + ",\"nc_vec\":" + jstr(render(const_var(*nc_vec), chai))
             + ",\"nc_map\":" + jstr(render(const_var(*nc_map), chai)) + ",\"nc_tk\":" + std::to_string(nc_tk->m_v) + "}}";
        return r;
      }
      if (op == "tk") {
        return "{\"live\":" + std::to_string(Tk::live()) + ",\"constructed\":" + std::to_string(Tk::reg().constructed) + ",\"destroyed\":"
            + std::to_string(Tk::reg().destroyed) + ",\"uaf\":" + std::to_string(Tk::touched_after_destroy()) + "}";
      }
      if (op == "add_fn") {
        // a C++ function of arity 0 returning its serial; every such lambda has the same C++ type, so a second
        // registration under the same name is a conflict exactly like a redefinition from script
        const int k = static_cast<int>(st.num("k", 0));
        Outcome o = classify(chai, [&]() -> Boxed_Value {
          chai.add(fun([k]() { return k; }), st.str("name"));
          return Boxed_Value();
        });
        return "{\"oc\":" + jstr(o.oc) + ",\"ex\":" + jstr(o.ex) + "}";
      }
      if (op == "add_type_objs") {
        // one object per type of the family, present before any snapshot: its type's NAME is what histories change
        chai.add_global(var(TypeA()), "ta_obj");
        chai.add_global(var(TypeB()), "tb_obj");
        return "{\"ok\":1}";
      }
      if (op == "add_type") {
        const std::string name = st.str("name");
        Outcome o = classify(chai, [&]() -> Boxed_Value {
          if (name == "TA") { chai.add(user_type<TypeA>(), name); }
          else if (name == "TB") { chai.add(user_type<TypeB>(), name); }
          else { chai.add(user_type<TypeC>(), name); }
          return Boxed_Value();
        });
        return "{\"oc\":" + jstr(o.oc) + ",\"ex\":" + jstr(o.ex) + "}";
      }
      if (op == "call_str") {
        // calls a script-visible function with one C++ string argument (no script-literal escaping involved)
        Outcome o = classify(chai, [&]() -> Boxed_Value {
          auto f = chai.eval<std::function<Boxed_Value(const std::string &)>>(st.str("fn"));
          return f(st.str("arg"));
        });
        std::string r = "{\"oc\":" + jstr(o.oc);
        if (!o.v.empty()) { r += ",\"v\":" + jstr(o.v); }
        if (!o.ex.empty()) { r += ",\"ex\":" + jstr(o.ex); }
        if (!o.why.empty()) { r += ",\"why\":" + jstr(o.why); }
        return r + "}";
      }
      if (op == "json_rt") {
        // from_json(text) ; to_json of that ; from_json again
        std::string r = "{";
        Outcome o1 = classify(chai, [&]() -> Boxed_Value {
          return chai.eval<std::function<Boxed_Value(const std::string &)>>("from_json")(st.str("arg"));
        });
        r += "\"oc\":" + jstr(o1.oc) + ",\"v\":" + jstr(o1.v) + ",\"ex\":" + jstr(o1.ex);
        if (o1.oc == "val") {
          std::string text;
          Outcome o2 = classify(chai, [&]() -> Boxed_Value {
            text = chai.eval<std::function<std::string(const Boxed_Value &)>>("to_json")(o1.value);
            return const_var(text);
          });
          r += ",\"oc2\":" + jstr(o2.oc) + ",\"text2\":" + jstr(text);
          if (o2.oc == "val") {
            Outcome o3 = classify(chai, [&]() -> Boxed_Value {
              return chai.eval<std::function<Boxed_Value(const std::string &)>>("from_json")(text);
            });
            r += ",\"oc3\":" + jstr(o3.oc) + ",\"v3\":" + jstr(o3.v);
          }
        }
        return r + "}";
      }
      throw std::runtime_error("unknown step op " + op);
    }
  };
} // namespace vh
#endif
