// C08: a structural snapshot of a parsed syntax tree, including what its nodes keep by value:
// every Constant node's boxed literal (type, const flag, rendered value), the constant kept by partially folded binary
// nodes, the bodies and guards of Def nodes, the bodies of Lambda nodes and the original of Compiled nodes.
// Two snapshots of the same tree are equal iff evaluation has changed neither structure nor literals.
#ifndef VH_AST_HPP
#define VH_AST_HPP
#include "vh_common.hpp"

namespace vh {
  using ATR = chaiscript::eval::Noop_Tracer;

  inline std::string const_view(const Boxed_Value &v, const ChaiScript_Basic &chai) {
    return std::string(v.is_const() ? " const " : " MUTABLE ") + render(v, chai);
  }

  inline void ast_snapshot(const chaiscript::AST_Node &n, const ChaiScript_Basic &chai, const std::string &path, std::string &out, std::size_t &constants) {
    out += path + " " + chaiscript::ast_node_type_to_string(n.identifier) + " " + jstr(n.text) + " @" + std::to_string(n.location.start.line) + ":"
           + std::to_string(n.location.start.column);
    if (auto *c = dynamic_cast<const chaiscript::eval::Constant_AST_Node<ATR> *>(&n)) {
      out += const_view(c->m_value, chai);
      ++constants;
    }
    if (auto *f = dynamic_cast<const chaiscript::eval::Fold_Right_Binary_Operator_AST_Node<ATR> *>(&n)) {
      out += " rhs" + const_view(f->verif_rhs(), chai);
      ++constants;
    }
    out += "\n";
    int i = 0;
    for (const auto &ch : n.get_children()) { ast_snapshot(ch.get(), chai, path + "." + std::to_string(i++), out, constants); }
    if (auto *d = dynamic_cast<const chaiscript::eval::Def_AST_Node<ATR> *>(&n)) {
      if (d->m_body_node) { ast_snapshot(*d->m_body_node, chai, path + ".body", out, constants); }
      if (d->m_guard_node) { ast_snapshot(*d->m_guard_node, chai, path + ".guard", out, constants); }
    }
    if (auto *l = dynamic_cast<const chaiscript::eval::Lambda_AST_Node<ATR> *>(&n)) {
      if (l->verif_body() != nullptr) { ast_snapshot(*l->verif_body(), chai, path + ".body", out, constants); }
    }
    if (auto *c = dynamic_cast<const chaiscript::eval::Compiled_AST_Node<ATR> *>(&n)) {
      if (c->m_original_node) { ast_snapshot(*c->m_original_node, chai, path + ".orig", out, constants); }
    }
  }

  /// first line at which two snapshots differ ("" when equal)
  inline std::string first_diff(const std::string &a, const std::string &b) {
    if (a == b) { return ""; }
    std::size_t i = 0, la = 0;
    while (i < a.size() && i < b.size() && a[i] == b[i]) {
      if (a[i] == '\n') { la = i + 1; }
      ++i;
    }
    const auto ea = a.find('\n', la), eb = b.find('\n', la);
    return a.substr(la, ea == std::string::npos ? std::string::npos : ea - la) + "  =>  " + b.substr(la, eb == std::string::npos ? std::string::npos : eb - la);
  }
} // namespace vh
#endif
