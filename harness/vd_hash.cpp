// vd_hash: finds identifiers whose chaiscript::utility::hash equals the hash of a word the parser treats
// specially (C16: such identifiers must still be ordinary names).  Uses the repository's own hash function.
//   vd_hash <max-per-word>   ->  one "identifier word" pair per line
#include <chaiscript/utility/hash.hpp>
#include <cstdio>
#include <cstdlib>
#include <string>
#include <unordered_map>
#include <vector>

int main(int argc, char **argv) {
  const int want = argc > 1 ? std::atoi(argv[1]) : 1;
  if (argc > 2 && std::string(argv[2]) == "verify") {
    // verify mode: stdin holds "identifier word" pairs; prints those that still collide under the current hash
    char a[64], b[64];
    while (std::scanf("%63s %63s", a, b) == 2) {
      if (chaiscript::utility::hash(std::string(a)) == chaiscript::utility::hash(std::string(b))) { std::printf("%s %s\n", a, b); }
    }
    return 0;
  }
  const std::vector<std::string> words{"true", "false", "Infinity", "NaN", "__LINE__", "__FILE__", "__FUNC__", "__CLASS__", "_",
                                       "def", "fun", "while", "for", "if", "else", "auto", "return", "break", "class", "attr", "var", "global", "GLOBAL"};
  std::unordered_map<std::uint32_t, std::string> target;
  for (const auto &w : words) { target[chaiscript::utility::hash(w)] = w; }
  std::unordered_map<std::string, int> found;
  const char alpha[] = "abcdefghijklmnopqrstuvwxyz";
  std::string id = "qaaaaaaa";
  unsigned long long tries = 0;
  size_t done = 0;
  // odometer over 8-letter identifiers starting with q (never a keyword)
  while (done < words.size() && tries < 6000000000ull) {
    ++tries;
    const auto it = target.find(chaiscript::utility::hash(id));
    if (it != target.end() && it->second != id && found[it->second] < want) {
      std::printf("%s %s\n", id.c_str(), it->second.c_str());
      if (++found[it->second] == want) { ++done; }
    }
    int p = 7;
    while (p >= 1) {
      if (id[static_cast<size_t>(p)] != 'z') {
        id[static_cast<size_t>(p)] = alpha[id[static_cast<size_t>(p)] - 'a' + 1];
        break;
      }
      id[static_cast<size_t>(p)] = 'a';
      --p;
    }
    if (p < 1) { break; }
  }
  std::fprintf(stderr, "tries=%llu\n", tries);
  return 0;
}
