// vdrive: generic case runner.  Reads NDJSON cases, replays each into the real engine built from
// /repo's working tree, writes one NDJSON observation per case.
//
//   vdrive run <cases.ndjson> <out.ndjson> [--trace <trace.ndjson>] [--shard k/n]
//
// case: {"id":…, "p":"opt"|"noopt", "fork":0|1, "to":sec, "trace":0|1, "hints":0|1,
//        "fault":{"at":k,"kind":0..3}, "usepaths":[…], "steps":[{"op":…,…}…]}
#include "vh_common.hpp"
#include "vh_env.hpp"
#include "vh_ast.hpp"

using namespace vh;

namespace {
  std::string shape_json(const chaiscript::verif::Stack_Shape &s) {
    std::ostringstream o;
    o << "[" << s.stacks << "," << s.scopes_in_top_stack << "," << s.call_params << "," << s.call_params_back << "," << s.call_depth << ","
      << (s.saves_enabled ? 1 : 0) << "," << s.saves << "]";
    return o.str();
  }

  void trace_shape(const ChaiScript_Basic &chai, const char *k, std::string_view tag) {
    if (!sink().on) { return; }
    const auto s = chai.verif_stack_shape();
    // a: stacks*1000+scopes   b: call_params*1000+back   c: depth*1000 + saves_on*100 + min(saves,99)
    sink_write(k, tag, static_cast<long>(s.stacks * 1000 + s.scopes_in_top_stack), static_cast<long>(s.call_params * 1000 + s.call_params_back),
               static_cast<long>(s.call_depth * 1000 + (s.saves_enabled ? 100 : 0) + std::min<std::size_t>(s.saves, 99)), "");
  }

  std::string outcome_json(const Outcome &o, const Env &env, const std::string &extra = "") {
    std::string r = "{\"oc\":" + jstr(o.oc);
    if (!o.v.empty()) { r += ",\"v\":" + jstr(o.v); }
    if (o.oc == "val") { r += std::string(",\"c\":") + (o.is_const ? "1" : "0"); }
    if (!o.ex.empty()) { r += ",\"ex\":" + jstr(o.ex); }
    if (!o.why.empty()) { r += ",\"why\":" + jstr(o.why); }
    r += ",\"out\":[";
    for (size_t i = 0; i < env.outs.size(); ++i) { r += (i ? "," : "") + jstr(env.outs[i]); }
    r += "]";
    r += extra;
    return r + "}";
  }

  std::string run_case(const J &c) {
    const std::string id = c.str("id");
    const bool optimized = c.str("p", "opt") != "noopt";
    const bool traced = c.num("trace", 0) != 0 && sink().f != nullptr;
    chaiscript::verif::hooks().disable_lookup_hints = c.num("hints", 1) == 0;

    std::vector<std::string> usepaths;
    if (auto *u = c.find("usepaths")) {
      for (const auto &p : u->a) { usepaths.push_back(p.s); }
    }
    if (usepaths.empty()) { usepaths.push_back(""); }

    Env env;
    // instrumented objects the environment itself owns (they outlive the engine): the baseline of the registry
    const long env_tk_live = Tk::live(), env_tk_constructed = Tk::reg().constructed;
    if (auto *f = c.find("fault")) {
      env.fault_at = static_cast<int>(f->num("at", -1));
      env.fault_kind = static_cast<int>(f->num("kind", 0));
    }
    auto chai = make_engine(optimized, usepaths);
    env.install(*chai);

    std::map<long long, ChaiScript_Basic::State> states;
    // C08: parsed trees kept by the driver, with the snapshot taken right after parsing
    struct Held { std::string key; chaiscript::AST_NodePtr tree; std::string snap; };
    std::vector<Held> held;
    std::string res = "{\"id\":" + jstr(id) + ",\"steps\":[";
    bool first = true;
    if (traced) { sink_write("reset", id, 0, 0, 0, ""); }

    for (const auto &st : c.at("steps").a) {
      const std::string op = st.str("op");
      std::string rec;
      env.outs.clear();
      if (op == "eval" || op == "eval_file" || op == "use" || op == "eval_noex") {
        if (traced) {
          sink().on = true;
          trace_shape(*chai, "ev+", op);
        }
        Outcome o = classify(*chai, [&]() -> Boxed_Value {
          if (op == "eval") { return chai->eval(st.str("src"), Exception_Handler(), st.str("file", "__EVAL__")); }
          if (op == "eval_file") { return chai->eval_file(st.str("path")); }
          return chai->use(st.str("path"));
        });
        if (traced) {
          trace_shape(*chai, "ev-", o.oc);
          sink().on = false;
        }
        std::string extra = ",\"cb\":" + std::to_string(env.cb_calls);
        extra += ",\"shape\":" + shape_json(chai->verif_stack_shape());
        rec = outcome_json(o, env, extra);
      } else if (op == "peval") {
        // parse once per key, keep the tree, evaluate THE TREE (eval(AST_Node)); then compare every kept tree with its first snapshot
        const std::string key = st.str("key", "");
        Held *h = nullptr;
        for (auto &x : held) { if (!key.empty() && x.key == key) { h = &x; } }
        std::size_t constants = 0;
        std::string perr;
        if (h == nullptr) {
          try {
            auto t = chai->parse(st.str("src"));
            std::string snap;
            ast_snapshot(*t, *chai, "r", snap, constants);
            held.push_back(Held{key, std::move(t), std::move(snap)});
            h = &held.back();
          } catch (const chaiscript::exception::eval_error &e) { perr = e.what(); }
        }
        if (h == nullptr) {
          rec = "{\"oc\":\"parse_error\",\"why\":" + jstr(perr) + ",\"out\":[]}";
        } else {
          Outcome o = classify(*chai, [&]() -> Boxed_Value { return chai->eval(*h->tree); });
          std::string extra = ",\"astchg\":[";
          bool f3 = true;
          std::size_t total = 0;
          for (std::size_t k = 0; k < held.size(); ++k) {
            std::string now;
            ast_snapshot(*held[k].tree, *chai, "r", now, total);
            const auto d = first_diff(held[k].snap, now);
            if (!d.empty()) { extra += (f3 ? "" : ",") + ("{\"tree\":" + std::to_string(k) + ",\"diff\":" + jstr(d) + "}"); f3 = false; }
          }
          extra += "],\"constants\":" + std::to_string(total);
          extra += ",\"shape\":" + shape_json(chai->verif_stack_shape());
          rec = outcome_json(o, env, extra);
        }
      } else if (op == "eval_cs") {
        // C20: evaluate a chunk under a file label (or a file) and report the call stack of a resulting eval_error
        std::string cs = "[";
        std::string oc = "val", why;
        try {
          if (st.find("path") != nullptr) { chai->eval_file(st.str("path")); }
          else { chai->eval(st.str("src"), Exception_Handler(), st.str("file", "__EVAL__")); }
        } catch (const chaiscript::exception::eval_error &e) {
          oc = "ee";
          why = e.reason;
          bool f4 = true;
          for (const auto &t : e.call_stack) {
            cs += std::string(f4 ? "" : ",") + "{\"t\":" + jstr(chaiscript::ast_node_type_to_string(t.identifier)) + ",\"x\":" + jstr(t.text.substr(0, 40))
                  + ",\"f\":" + jstr(t.filename()) + ",\"l\":" + std::to_string(t.start().line) + ",\"c\":" + std::to_string(t.start().column)
                  + ",\"el\":" + std::to_string(t.end().line) + ",\"ec\":" + std::to_string(t.end().column) + "}";
            f4 = false;
          }
        } catch (const Boxed_Value &) { oc = "bv";
        } catch (const std::exception &e) { oc = "ex"; why = e.what(); }
        cs += "]";
        rec = "{\"oc\":" + jstr(oc) + ",\"why\":" + jstr(why) + ",\"cs\":" + cs + ",\"shape\":" + shape_json(chai->verif_stack_shape()) + ",\"out\":[";
        for (size_t i = 0; i < env.outs.size(); ++i) { rec += (i ? "," : "") + jstr(env.outs[i]); }
        rec += "]}";
      } else if (op == "parse") {
        Outcome o = classify(*chai, [&]() -> Boxed_Value {
          auto p = chai->parse(st.str("src"));
          return const_var(std::string(ast_node_type_to_string(p->identifier)) + "/" + std::to_string(p->get_children().size()));
        });
        rec = outcome_json(o, env);
      } else if (op == "shape") {
        rec = "{\"shape\":" + shape_json(chai->verif_stack_shape()) + "}";
      } else if (op == "locals") {
        // get_locals() is an engine API: what it throws is an observation about the engine, not a harness failure
        std::map<std::string, Boxed_Value> locals;
        std::string threw;
        try {
          locals = chai->get_locals();
        } catch (const std::exception &e) {
          threw = e.what();
        }
        rec = "{\"locals\":[";
        bool f2 = true;
        long nl = 0;
        for (const auto &l : locals) {
          rec += (f2 ? "" : ",") + jstr(l.first);
          f2 = false;
          if (traced) { sink_write("lv", l.first, 0, 0, 0, ""); }
          ++nl;
        }
        if (traced) { sink_write("lvend", "", nl, 0, 0, ""); }
        rec += "]" + (threw.empty() ? std::string() : ",\"threw\":" + jstr(threw)) + "}";
      } else if (op == "get_state") {
        states[st.num("slot", 0)] = chai->get_state();
        rec = "{\"ok\":1}";
      } else if (op == "set_state") {
        auto it = states.find(st.num("slot", 0));
        if (it == states.end()) { throw std::runtime_error("no such state slot"); }
        chai->set_state(it->second);
        rec = "{\"ok\":1}";
      } else if (op == "fault") {
        env.fault_at = static_cast<int>(st.num("at", -1));
        env.fault_kind = static_cast<int>(st.num("kind", 0));
        env.cb_calls = 0;
        rec = "{\"ok\":1}";
      } else {
        rec = env.custom_step(*chai, op, st);
      }
      res += (first ? "" : ",") + rec;
      first = false;
    }
    res += "]";
    chai.reset();
    env.kept.reset();
    res += ",\"constructed\":" + std::to_string(Tk::reg().constructed - env_tk_constructed) + ",\"destroyed\":" + std::to_string(Tk::reg().destroyed);
    res += ",\"live\":" + std::to_string(Tk::live() - env_tk_live) + ",\"uaf\":" + std::to_string(Tk::touched_after_destroy());
    res += "}";
    return res;
  }
} // namespace

int main(int argc, char **argv) {
  if (argc < 4 || std::string(argv[1]) != "run") {
    std::fprintf(stderr, "usage: vdrive run <cases> <out> [--trace file] [--shard k/n]\n");
    return 2;
  }
  int shard_k = 0, shard_n = 1;
  for (int i = 4; i + 1 < argc; ++i) {
    const std::string a = argv[i];
    if (a == "--trace") {
      sink_open(argv[i + 1]);
      std::setvbuf(sink().f, nullptr, _IOLBF, 0); // a crashing child truncates nothing
    }
    if (a == "--shard") { std::sscanf(argv[i + 1], "%d/%d", &shard_k, &shard_n); }
  }
  // a deep recursion test must hit the engine's own limit, not the native stack
  {
    struct rlimit rl;
    if (getrlimit(RLIMIT_STACK, &rl) == 0 && rl.rlim_cur != RLIM_INFINITY && rl.rlim_cur < (64ul << 20)) {
      rl.rlim_cur = std::min<rlim_t>(64ul << 20, rl.rlim_max);
      setrlimit(RLIMIT_STACK, &rl);
    }
  }
  bool supervise = false;
  for (int i = 4; i < argc; ++i) {
    if (std::string(argv[i]) == "--supervise") { supervise = true; }
  }
  std::vector<std::string> lines;
  {
    std::ifstream in(argv[2]);
    if (!in) {
      std::fprintf(stderr, "cannot read %s\n", argv[2]);
      return 2;
    }
    std::string line;
    long idx = 0;
    while (std::getline(in, line)) {
      if (line.empty()) { continue; }
      if ((idx++ % shard_n) != shard_k) { continue; }
      lines.push_back(line);
    }
  }
  FILE *out = std::fopen(argv[3], "w");
  if (!out) { return 2; }
  long done = 0;
  auto run_line = [&](const std::string &l) -> std::string {
    J c = parse_json(l);
    if (c.num("fork", 0) != 0 && !supervise) {
      return run_forked(c.str("id"), static_cast<int>(c.num("to", 10)), [&] { return run_case(c); });
    }
    if (supervise) { alarm(static_cast<unsigned>(c.num("to", 10))); }
    try {
      return run_case(c);
    } catch (const std::exception &e) {
      return "{\"id\":" + jstr(c.str("id")) + ",\"harness_error\":" + jstr(e.what()) + "}";
    }
  };
  if (!supervise) {
    for (const auto &l : lines) {
      std::string r;
      try {
        r = run_line(l);
      } catch (const std::exception &e) {
        std::fprintf(stderr, "bad case: %s\n", e.what());
        return 2;
      }
      std::fputs(r.c_str(), out);
      std::fputc('\n', out);
      ++done;
    }
  } else {
    // supervisor: a worker child runs cases in sequence; when it dies (signal, abort, alarm) the case it was
    // running is recorded as an observation ("died") and a new worker continues with the next case
    long *cur = static_cast<long *>(mmap(nullptr, sizeof(long), PROT_READ | PROT_WRITE, MAP_SHARED | MAP_ANONYMOUS, -1, 0));
    *cur = 0;
    long start = 0;
    while (start < static_cast<long>(lines.size())) {
      std::fflush(nullptr);
      const pid_t pid = fork();
      if (pid < 0) { return 2; }
      if (pid == 0) {
        for (long i = start; i < static_cast<long>(lines.size()); ++i) {
          *cur = i;
          std::string r;
          try {
            r = run_line(lines[static_cast<size_t>(i)]);
          } catch (const std::exception &e) {
            std::fprintf(stderr, "bad case: %s\n", e.what());
            _exit(3);
          }
          alarm(0);
          std::fputs(r.c_str(), out);
          std::fputc('\n', out);
          std::fflush(out);
        }
        *cur = static_cast<long>(lines.size());
        sink_flush();
        std::fflush(nullptr);
        _exit(0);
      }
      int st = 0;
      waitpid(pid, &st, 0);
      if (WIFEXITED(st) && WEXITSTATUS(st) == 3) { return 2; }
      if (*cur >= static_cast<long>(lines.size())) { break; }
      // worker died on case *cur
      std::string died = WIFSIGNALED(st) ? (WTERMSIG(st) == SIGALRM ? "timeout" : "sig" + std::to_string(WTERMSIG(st)))
                                         : "exit" + std::to_string(WEXITSTATUS(st));
      J c = parse_json(lines[static_cast<size_t>(*cur)]);
      std::fseek(out, 0, SEEK_END);
      std::fprintf(out, "{\"id\":%s,\"died\":%s}\n", jstr(c.str("id")).c_str(), jstr(died).c_str());
      std::fflush(out);
      start = *cur + 1;
    }
    done = static_cast<long>(lines.size());
  }
  std::fclose(out);
  sink_flush();
  std::fprintf(stderr, "vdrive: %ld cases, %ld events\n", done, sink().events);
  return 0;
}
