// vd_threads: traced multi-threaded stress of ONE engine (C13).
//
//   vd_threads <out.json> <trace.ndjson> <seed> <nthreads> <ops-per-thread> <usefile> [yield]
//
// Every thread runs a seeded mix of: calling shared script functions, defining functions / globals /
// a class, adding guarded overloads to one shared name, adding conversions, evaluating with locals of the
// same names, use() of one file, get_state.  Lock events (H3) and access markers (H4) are recorded with a
// global sequence number taken inside the critical section; events go to per-thread buffers (the sink
// adds no synchronisation of its own, so that the TSan build of this same program still sees real races).
#include "vh_common.hpp"

#include <mutex>
#include <random>
#include <thread>

using namespace vh;

namespace {
  struct Ev {
    long q;
    const char *k;
    int t;
    int o;
    long a;
    std::string n;
  };

  constexpr int k_max_threads = 64;
  std::vector<Ev> g_bufs[k_max_threads];
  std::atomic<long> g_seq{0};
  std::atomic<int> g_next_tid{0};
  std::atomic<bool> g_on{false};
  std::atomic<const void *> g_ptrs[4096];
  thread_local int tl_tid = -1;
  thread_local std::mt19937 tl_rng;
  bool g_yield = false;

  int tid() {
    if (tl_tid < 0) { tl_tid = g_next_tid++; }
    return tl_tid;
  }

  int intern(const void *p) {
    // lock-free open addressing: a pointer gets the index of the slot it lands in
    auto h = (reinterpret_cast<std::uintptr_t>(p) >> 4) % 4096;
    for (int i = 0; i < 4096; ++i) {
      const auto idx = (h + static_cast<std::uintptr_t>(i)) % 4096;
      const void *cur = g_ptrs[idx].load(std::memory_order_relaxed);
      if (cur == p) { return static_cast<int>(idx); }
      if (cur == nullptr) {
        const void *expected = nullptr;
        if (g_ptrs[idx].compare_exchange_strong(expected, p, std::memory_order_relaxed) || expected == p) { return static_cast<int>(idx); }
      }
    }
    return -1;
  }

  bool wanted(const char *k) { return k[0] == 'a' && k[1] == 'c' ? true : (k[0] == 'r' || k[0] == 'u'); } // acq acc rel reg use? use! use=
  /// scope-machine events (ns ps nst pst fc+ fc- sp setl*): recorded as "stk" only while this thread asks for them (they are far too many otherwise)
  thread_local bool tl_stack_events = false;
  bool stack_kind(const char *k) { return k[0] == 'n' || k[0] == 'p' || k[0] == 'f' || (k[0] == 's' && k[1] == 'p'); }

  void on_event(const char *k, const void *obj, std::string_view n, long a, long, long, std::string_view) {
    if (!g_on.load(std::memory_order_relaxed)) { return; }
    if (tl_stack_events && stack_kind(k)) { k = "stk"; a = 0; n = std::string_view(); }
    else if (!wanted(k)) { return; }
    const int t = tid();
    if (t >= k_max_threads) { return; }
    g_bufs[t].push_back(Ev{g_seq.fetch_add(1, std::memory_order_relaxed) + 1, k, t, intern(obj), a, std::string(n)});
  }

  void on_sched(const void *, int) {
    if (!g_yield) { return; }
    const auto r = tl_rng() % 8;
    if (r == 0) {
      std::this_thread::yield();
    } else if (r == 1) {
      std::this_thread::sleep_for(std::chrono::microseconds(tl_rng() % 50));
    }
  }

  template<int N>
  struct ConvFrom {
    int v = N;
  };
  template<int N>
  struct ConvTo {
    int v = 0;
  };
  template<int N>
  void add_conv(ChaiScript_Basic &chai) {
    chai.add(type_conversion<ConvFrom<N>, ConvTo<N>>([](const ConvFrom<N> &f) { return ConvTo<N>{f.v}; }));
  }
  using AddConv = void (*)(ChaiScript_Basic &);
  const AddConv k_convs[] = {&add_conv<0>, &add_conv<1>, &add_conv<2>, &add_conv<3>, &add_conv<4>, &add_conv<5>, &add_conv<6>, &add_conv<7>,
                             &add_conv<8>, &add_conv<9>, &add_conv<10>, &add_conv<11>, &add_conv<12>, &add_conv<13>, &add_conv<14>, &add_conv<15>};

  std::mutex g_pub_mutex; // harness-owned: list of registrations that have RETURNED, for cross-thread visibility checks
  std::vector<std::pair<std::string, int>> g_published;
  std::atomic<int> g_use_evals{0};

  struct Failures {
    std::mutex m;
    std::vector<std::string> list;
    void add(const std::string &s) {
      std::lock_guard<std::mutex> l(m);
      if (list.size() < 50) { list.push_back(s); }
    }
  } g_fail;

  void worker(ChaiScript_Basic &chai, int t, unsigned seed, int nops, const std::string &usefile) {
    tid();
    tl_rng.seed(seed * 7919u + static_cast<unsigned>(t));
    auto expect_int = [&](const std::string &src, int want, const char *what) {
      try {
        const int got = chai.eval<int>(src);
        if (got != want) { g_fail.add(std::string(what) + ": `" + src + "` = " + std::to_string(got) + ", expected " + std::to_string(want)); }
      } catch (const std::exception &e) {
        g_fail.add(std::string(what) + ": `" + src + "` threw " + e.what());
      } catch (...) {
        g_fail.add(std::string(what) + ": `" + src + "` threw");
      }
    };
    std::vector<std::pair<std::string, int>> mine;
    for (int i = 0; i < nops; ++i) {
      const int tag = t * 1000 + i;
      switch (tl_rng() % 11) {
        case 0: expect_int("shared_fn(" + std::to_string(tag) + ")", tag * 2, "shared call"); break;
        case 10: // a method of a class the MAIN thread defined: its frame, locals and guard belong to the calling thread
          tl_stack_events = true;
          expect_int("shared_obj.echo(" + std::to_string(tag) + ")", tag, "shared method");
          tl_stack_events = false;
          break;
        case 1: { // define a function, call it, publish it
          const std::string name = "f_" + std::to_string(t) + "_" + std::to_string(i);
          expect_int("def " + name + "() { " + std::to_string(tag) + " }; " + name + "()", tag, "define+call");
          mine.emplace_back(name + "()", tag);
          std::lock_guard<std::mutex> l(g_pub_mutex);
          g_published.emplace_back(name + "()", tag);
          break;
        }
        case 2: { // guarded overload on ONE shared name: every registration must be retained
          expect_int("def ovl(x) : x == " + std::to_string(tag) + " { " + std::to_string(tag) + " }; ovl(" + std::to_string(tag) + ")", tag, "shared-name overload");
          mine.emplace_back("ovl(" + std::to_string(tag) + ")", tag);
          std::lock_guard<std::mutex> l(g_pub_mutex);
          g_published.emplace_back("ovl(" + std::to_string(tag) + ")", tag);
          break;
        }
        case 3: { // global
          const std::string name = "g_" + std::to_string(t) + "_" + std::to_string(i);
          expect_int("global " + name + " = " + std::to_string(tag) + "; " + name, tag, "global");
          mine.emplace_back(name, tag);
          std::lock_guard<std::mutex> l(g_pub_mutex);
          g_published.emplace_back(name, tag);
          break;
        }
        case 4: // locals with the same names on every thread
          expect_int("var x = " + std::to_string(tag) + "; var y = x + 1; { var x = 5; y = y + x; }; var r = x + y; r", tag + tag + 1 + 5, "locals");
          try {
            chai.eval("x"); // top-level locals persist per thread
          } catch (...) {
          }
          chai.set_locals({});
          break;
        case 5: { // something another thread registered and whose registration has returned must be visible
          std::pair<std::string, int> pick;
          {
            std::lock_guard<std::mutex> l(g_pub_mutex);
            if (g_published.empty()) { break; }
            pick = g_published[tl_rng() % g_published.size()];
          }
          expect_int(pick.first, pick.second, "visible after return");
          break;
        }
        case 6:
          try {
            chai.use(usefile);
          } catch (const std::exception &e) {
            g_fail.add(std::string("use threw ") + e.what());
          }
          break;
        case 7:
          try {
            auto s = chai.get_state();
            (void)s;
          } catch (...) {
            g_fail.add("get_state threw");
          }
          break;
        case 8: // conversions: each thread owns one pair of types; a second add of the same pair must be rejected
          try {
            k_convs[t % 16](chai);
          } catch (const exception::conversion_error &) {
          } catch (const std::exception &e) {
            g_fail.add(std::string("add conversion threw ") + e.what());
          }
          break;
        default: { // class definition + use
          const std::string name = "K_" + std::to_string(t) + "_" + std::to_string(i);
          expect_int("class " + name + " { var v; def " + name + "() { this.v = " + std::to_string(tag) + " }; def get() { this.v } }; " + name + "().get()", tag, "class");
          break;
        }
      }
    }
    for (const auto &[src, want] : mine) { expect_int(src, want, "own registration at end"); }
    // this thread is about to end: its thread-local stack holder dies with it and the address may serve a later thread
    if (g_on.load(std::memory_order_relaxed) && tid() < k_max_threads) {
      g_bufs[tid()].push_back(Ev{g_seq.fetch_add(1, std::memory_order_relaxed) + 1, "tend", tid(), 0, 0, std::string()});
    }
  }
} // namespace

int main(int argc, char **argv) {
  if (argc < 7) {
    std::fprintf(stderr, "usage: vd_threads <out> <trace> <seed> <nthreads> <ops> <usefile> [yield]\n");
    return 2;
  }
  const unsigned seed = static_cast<unsigned>(std::atoi(argv[3]));
  const int nthreads = std::min(std::atoi(argv[4]), k_max_threads - 1);
  const int nops = std::atoi(argv[5]);
  const std::string usefile = argv[6];
  g_yield = argc > 7 && std::string(argv[7]) == "yield";
  for (auto &b : g_bufs) { b.reserve(1 << 16); }

  auto chai = make_engine(true);
  chai->add(fun([]() { ++g_use_evals; }), "use_file_evaluated");
  chai->eval("def shared_fn(x) { x * 2 }");
  chai->eval("class SharedK { var v; def SharedK() { this.v = 0 }; def echo(x) : x >= 0 { var loc = x; var loc2 = loc + 1; { var loc = loc2 - 1; loc } } }; global shared_obj = SharedK()");
  chaiscript::verif::hooks().event = &on_event;
  chaiscript::verif::hooks().sched_point = &on_sched;
  tid(); // main thread is 0
  g_on = true;
  {
    std::vector<std::thread> ths;
    for (int t = 1; t <= nthreads; ++t) { ths.emplace_back(worker, std::ref(*chai), t, seed, nops, usefile); }
    for (auto &th : ths) { th.join(); }
  }
  g_on = false;
  // single-threaded epilogue: everything every thread registered is there
  int retained_checked = 0;
  for (const auto &[src, want] : g_published) {
    ++retained_checked;
    try {
      if (chai->eval<int>(src) != want) { g_fail.add("retained: `" + src + "` wrong value"); }
    } catch (...) {
      g_fail.add("retained: `" + src + "` is gone");
    }
  }
  if (g_use_evals.load() > 1) { g_fail.add("use(): the file was evaluated " + std::to_string(g_use_evals.load()) + " times"); }

  // merge the per-thread buffers by sequence number
  std::vector<const Ev *> all;
  for (const auto &b : g_bufs) {
    for (const auto &e : b) { all.push_back(&e); }
  }
  std::sort(all.begin(), all.end(), [](const Ev *a, const Ev *b) { return a->q < b->q; });
  FILE *tr = std::fopen(argv[2], "w");
  if (!tr) { return 2; }
  for (const Ev *e : all) {
    std::fprintf(tr, "{\"e\":\"%s\",\"q\":%ld,\"t\":%d,\"o\":%d,\"a\":%ld,\"n\":%s}\n", e->k, e->q, e->t, e->o, e->a, jstr(e->n).c_str());
  }
  std::fclose(tr);
  FILE *out = std::fopen(argv[1], "w");
  if (!out) { return 2; }
  std::fprintf(out, "{\"events\":%zu,\"threads\":%d,\"published\":%d,\"use_evals\":%d,\"failures\":[", all.size(), nthreads, retained_checked, g_use_evals.load());
  for (size_t i = 0; i < g_fail.list.size(); ++i) { std::fprintf(out, "%s%s", i ? "," : "", jstr(g_fail.list[i]).c_str()); }
  std::fprintf(out, "]}\n");
  std::fclose(out);
  return 0;
}
