// Minimal JSON reader/writer for the verification drivers (deliberately independent of
// chaiscript/utility/json.hpp, which is code under test for C18).
#ifndef VH_JSON_HPP
#define VH_JSON_HPP
#include <cstdio>
#include <cstdlib>
#include <map>
#include <memory>
#include <stdexcept>
#include <string>
#include <vector>

namespace vh {
  struct J {
    enum K { Null, Bool, Num, Str, Arr, Obj } k = Null;
    bool b = false;
    long long n = 0;
    double d = 0;
    bool is_int = true;
    std::string s;
    std::vector<J> a;
    std::vector<std::pair<std::string, J>> o;

    const J *find(const std::string &key) const {
      for (const auto &p : o) {
        if (p.first == key) { return &p.second; }
      }
      return nullptr;
    }
    const J &at(const std::string &key) const {
      if (auto *p = find(key)) { return *p; }
      throw std::runtime_error("json: missing key " + key);
    }
    bool has(const std::string &key) const { return find(key) != nullptr; }
    std::string str(const std::string &key, const std::string &def = "") const {
      auto *p = find(key);
      return p && p->k == Str ? p->s : def;
    }
    long long num(const std::string &key, long long def = 0) const {
      auto *p = find(key);
      if (!p) { return def; }
      if (p->k == Num) { return p->n; }
      if (p->k == Bool) { return p->b ? 1 : 0; }
      return def;
    }
  };

  class JParser {
  public:
    explicit JParser(const std::string &t) : m_t(t) {}
    J parse() {
      J v = value();
      ws();
      if (m_p != m_t.size()) { fail("trailing"); }
      return v;
    }

  private:
    const std::string &m_t;
    size_t m_p = 0;
    [[noreturn]] void fail(const char *w) { throw std::runtime_error(std::string("json parse error: ") + w + " at " + std::to_string(m_p)); }
    void ws() {
      while (m_p < m_t.size() && (m_t[m_p] == ' ' || m_t[m_p] == '\t' || m_t[m_p] == '\n' || m_t[m_p] == '\r')) { ++m_p; }
    }
    char peek() {
      ws();
      if (m_p >= m_t.size()) { fail("eof"); }
      return m_t[m_p];
    }
    static void utf8(std::string &r, unsigned cp) {
      if (cp < 0x80) { r += char(cp); }
      else if (cp < 0x800) { r += char(0xC0 | (cp >> 6)); r += char(0x80 | (cp & 0x3F)); }
      else if (cp < 0x10000) { r += char(0xE0 | (cp >> 12)); r += char(0x80 | ((cp >> 6) & 0x3F)); r += char(0x80 | (cp & 0x3F)); }
      else { r += char(0xF0 | (cp >> 18)); r += char(0x80 | ((cp >> 12) & 0x3F)); r += char(0x80 | ((cp >> 6) & 0x3F)); r += char(0x80 | (cp & 0x3F)); }
    }
    std::string string() {
      if (m_t[m_p] != '"') { fail("string"); }
      ++m_p;
      std::string r;
      while (true) {
        if (m_p >= m_t.size()) { fail("unterminated"); }
        char c = m_t[m_p++];
        if (c == '"') { break; }
        if (c == '\\') {
          char e = m_t[m_p++];
          switch (e) {
            case 'n': r += '\n'; break;
            case 't': r += '\t'; break;
            case 'r': r += '\r'; break;
            case 'b': r += '\b'; break;
            case 'f': r += '\f'; break;
            case 'u': {
              // NOTE: \u00XX is decoded to the single BYTE XX (the drivers exchange byte strings, not text)
              unsigned cp = unsigned(std::strtoul(m_t.substr(m_p, 4).c_str(), nullptr, 16));
              m_p += 4;
              if (cp < 0x100) { r += char(cp); } else { utf8(r, cp); }
              break;
            }
            default: r += e;
          }
        } else {
          r += c;
        }
      }
      return r;
    }
    J value() {
      char c = peek();
      J v;
      if (c == '{') {
        v.k = J::Obj;
        ++m_p;
        if (peek() == '}') { ++m_p; return v; }
        while (true) {
          ws();
          std::string key = string();
          if (peek() != ':') { fail("colon"); }
          ++m_p;
          v.o.emplace_back(std::move(key), value());
          char d = peek();
          ++m_p;
          if (d == '}') { break; }
          if (d != ',') { fail("comma"); }
        }
      } else if (c == '[') {
        v.k = J::Arr;
        ++m_p;
        if (peek() == ']') { ++m_p; return v; }
        while (true) {
          v.a.push_back(value());
          char d = peek();
          ++m_p;
          if (d == ']') { break; }
          if (d != ',') { fail("comma"); }
        }
      } else if (c == '"') {
        v.k = J::Str;
        v.s = string();
      } else if (c == 't') { v.k = J::Bool; v.b = true; m_p += 4; }
      else if (c == 'f') { v.k = J::Bool; v.b = false; m_p += 5; }
      else if (c == 'n') { m_p += 4; }
      else {
        size_t st = m_p;
        while (m_p < m_t.size() && (std::isdigit(static_cast<unsigned char>(m_t[m_p])) || m_t[m_p] == '-' || m_t[m_p] == '+' || m_t[m_p] == '.' || m_t[m_p] == 'e' || m_t[m_p] == 'E')) { ++m_p; }
        if (st == m_p) { fail("value"); }
        std::string num = m_t.substr(st, m_p - st);
        v.k = J::Num;
        v.is_int = num.find_first_of(".eE") == std::string::npos;
        v.n = std::strtoll(num.c_str(), nullptr, 10);
        v.d = std::strtod(num.c_str(), nullptr);
      }
      return v;
    }
  };

  inline J parse_json(const std::string &t) { return JParser(t).parse(); }

  /// byte string -> JSON string literal; bytes >= 0x80 and control bytes are written as \u00XX (see JParser::string)
  inline std::string jstr(std::string_view s) {
    std::string r = "\"";
    for (unsigned char c : s) {
      if (c == '"' || c == '\\') { r += '\\'; r += char(c); }
      else if (c < 0x20 || c >= 0x7f) { char b[8]; std::snprintf(b, sizeof b, "\\u%04x", c); r += b; }
      else { r += char(c); }
    }
    r += '"';
    return r;
  }
} // namespace vh
#endif
