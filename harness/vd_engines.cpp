// vd_engines: replays create / destroy / declare histories over several engines placed at CONTROLLED
// addresses, driven from the main thread and two long-lived worker threads (C14).
//
//   vd_engines run <cases.ndjson> <out.ndjson> [--shard k/n]
//
// case: {"id":…, "ops":[{"k":"create","e":1,"a":0}, {"k":"decl","e":1,"t":2,"n":"x"}, {"k":"destroy","e":1,"t":0}, {"k":"def","e":1,"n":"f"}]}
// After every operation every (live engine, thread, name) is probed.  Each case runs in a forked child
// so that thread-local leftovers of one case cannot reach the next.
#include "vh_common.hpp"

#include <condition_variable>
#include <mutex>
#include <thread>

using namespace vh;

namespace {
  constexpr int k_slots = 2, k_engines = 4, k_threads = 3;
  struct alignas(64) Slot {
    unsigned char bytes[sizeof(ChaiScript_Basic)];
  };
  Slot g_arena[k_slots];
  ChaiScript_Basic *g_eng[k_engines] = {};

  // user conversions (C14): From<N> -> To<N>, one pair per N; an engine knows conversion N only if it was registered THERE
  template<int N> struct From { int v = N; };
  template<int N> struct To { int v = 0; };
  template<int N>
  void add_conv_types(ChaiScript_Basic &c) {
    const std::string n = std::to_string(N);
    c.add(user_type<From<N>>(), "From" + n);
    c.add(user_type<To<N>>(), "To" + n);
    c.add_global(var(From<N>()), "from" + n);
    c.add(fun([](const To<N> &t) { return t.v; }), "takes_to" + n);
  }
  template<int N>
  void add_conv(ChaiScript_Basic &c) {
    c.add(type_conversion<From<N>, To<N>>([](const From<N> &f) { To<N> t; t.v = 100 + f.v; return t; }));
  }

  class Worker {
  public:
    Worker() : m_thread([this] { loop(); }) {}
    ~Worker() {
      run([this] { m_stop = true; });
      m_thread.join();
    }
    void run(const std::function<void()> &f) {
      std::unique_lock<std::mutex> l(m_m);
      m_task = f;
      m_has = true;
      m_cv.notify_all();
      m_cv.wait(l, [this] { return !m_has; });
    }

  private:
    void loop() {
      std::unique_lock<std::mutex> l(m_m);
      while (!m_stop) {
        m_cv.wait(l, [this] { return m_has; });
        m_task();
        m_has = false;
        m_cv.notify_all();
      }
    }
    std::mutex m_m;
    std::condition_variable m_cv;
    std::function<void()> m_task;
    bool m_has = false;
    bool m_stop = false;
    std::thread m_thread;
  };

  void on_thread(std::vector<std::unique_ptr<Worker>> &ws, int t, const std::function<void()> &f) {
    if (t == 0) {
      f();
    } else {
      ws[static_cast<size_t>(t - 1)]->run(f);
    }
  }

  std::string run_case(const J &c) {
    std::vector<std::unique_ptr<Worker>> ws;
    ws.push_back(std::make_unique<Worker>());
    ws.push_back(std::make_unique<Worker>());
    std::string res = "{\"id\":" + jstr(c.str("id")) + ",\"steps\":[";
    bool first = true;
    int serial = 0;
    bool used[k_engines] = {};
    for (const auto &op : c.at("ops").a) {
      const std::string k = op.str("k");
      const int e = static_cast<int>(op.num("e", 0));
      const int t = static_cast<int>(op.num("t", 0));
      const std::string n = op.str("n");
      std::string r = "ok";
      ++serial;
      if (k == "create") {
        const int a = static_cast<int>(op.num("a", 0));
        bool addr_free = true;
        for (auto *p : g_eng) {
          if (p == reinterpret_cast<ChaiScript_Basic *>(g_arena[a].bytes)) { addr_free = false; }
        }
        if (used[e] || !addr_free) {
          r = "skip"; // an engine id names one engine for the whole history
        } else {
          used[e] = true;
          // constructed on the thread the history names (main or a long-lived worker)
          on_thread(ws, t, [&] {
            g_eng[e] = new (g_arena[a].bytes) ChaiScript_Basic(Std_Lib::library(), std::make_unique<Parser_Opt>());
            add_conv_types<1>(*g_eng[e]);
            add_conv_types<2>(*g_eng[e]);
          });
        }
      } else if (!g_eng[e]) {
        r = "skip";
      } else if (k == "destroy") {
        on_thread(ws, t, [&] { g_eng[e]->~ChaiScript_Basic(); });
        g_eng[e] = nullptr;
      } else if (k == "decl") {
        on_thread(ws, t, [&] {
          try {
            g_eng[e]->eval("var " + n + " = " + std::to_string(e * 1000 + serial));
          } catch (const exception::eval_error &ee) {
            r = ee.reason.find("redefined") != std::string::npos ? "redefined" : "err:" + ee.reason;
          } catch (const std::exception &ex) {
            r = std::string("err:") + ex.what();
          }
        });
      } else if (k == "conv") {
        // register user conversion n ("1" or "2") in this engine only
        on_thread(ws, t, [&] {
          try {
            if (n == "1") { add_conv<1>(*g_eng[e]); } else { add_conv<2>(*g_eng[e]); }
          } catch (const std::exception &ex) {
            r = std::string(ex.what()).find("exist") != std::string::npos || std::string(ex.what()).find("onflict") != std::string::npos ? "redefined" : std::string("err:") + ex.what();
          }
        });
      } else if (k == "useconv") {
        // a call that needs conversion n, made on thread t
        on_thread(ws, t, [&] {
          try {
            const int got = g_eng[e]->eval<int>("takes_to" + n + "(from" + n + ")");
            r = got == 100 + std::stoi(n) ? "ok" : "wrong:" + std::to_string(got);
          } catch (const exception::eval_error &) {
            r = "noconv";
          } catch (const std::exception &ex) {
            r = std::string("err:") + ex.what();
          }
        });
      } else if (k == "def") {
        try {
          g_eng[e]->eval("def " + n + "() { " + std::to_string(e) + " }");
        } catch (const exception::eval_error &ee) {
          r = ee.reason.find("redefined") != std::string::npos ? "redefined" : "err:" + ee.reason;
        } catch (const std::exception &ex) {
          r = std::string("err:") + ex.what();
        }
      }
      // probe everything
      std::string view = "[";
      for (int pe = 1; pe < k_engines; ++pe) {
        view += (pe > 1 ? "," : "");
        if (!g_eng[pe]) {
          view += "{\"alive\":false,\"fns\":[],\"vars\":[[],[],[]]}";
          continue;
        }
        std::string fns;
        try {
          if (g_eng[pe]->eval<bool>("function_exists(\"f\")")) {
            fns = g_eng[pe]->eval<int>("f()") == pe ? "\"f\"" : "\"f:wrong\"";
          }
        } catch (...) {
          fns = "\"f:error\"";
        }
        view += "{\"alive\":true,\"fns\":[" + fns + "],\"vars\":[";
        for (int pt = 0; pt < k_threads; ++pt) {
          std::string names;
          on_thread(ws, pt, [&] {
            for (const char *nm : {"x", "y"}) {
              try {
                const int v = g_eng[pe]->eval<int>(nm);
                names += (names.empty() ? "" : ",") + std::string("\"") + nm + (v / 1000 == pe ? "" : ":foreign") + "\"";
              } catch (...) {
              }
            }
            // the embedding API must agree with what scripts see
            for (const auto &l : g_eng[pe]->get_locals()) {
              if (l.first != "x" && l.first != "y") { names += (names.empty() ? "" : ",") + std::string("\"unexpected:") + l.first + "\""; }
            }
          });
          view += (pt ? "," : "") + std::string("[") + names + "]";
        }
        view += "]}";
      }
      view += "]";
      res += (first ? "" : ",") + std::string("{\"res\":") + jstr(r) + ",\"view\":" + view + "}";
      first = false;
    }
    res += "]}";
    // engines still alive are destroyed on the main thread
    for (auto *&p : g_eng) {
      if (p) {
        p->~ChaiScript_Basic();
        p = nullptr;
      }
    }
    return res;
  }
} // namespace

int main(int argc, char **argv) {
  if (argc < 4 || std::string(argv[1]) != "run") {
    std::fprintf(stderr, "usage: vd_engines run <cases> <out> [--shard k/n]\n");
    return 2;
  }
  int shard_k = 0, shard_n = 1;
  for (int i = 4; i + 1 < argc; ++i) {
    if (std::string(argv[i]) == "--shard") { std::sscanf(argv[i + 1], "%d/%d", &shard_k, &shard_n); }
  }
  std::ifstream in(argv[2]);
  FILE *out = std::fopen(argv[3], "w");
  if (!in || !out) { return 2; }
  std::string line;
  long idx = 0;
  while (std::getline(in, line)) {
    if (line.empty() || (idx++ % shard_n) != shard_k) { continue; }
    J c;
    try {
      c = parse_json(line);
    } catch (const std::exception &e) {
      std::fprintf(stderr, "bad case: %s\n", e.what());
      return 2;
    }
    const std::string r = run_forked(c.str("id"), 60, [&] { return run_case(c); });
    std::fputs(r.c_str(), out);
    std::fputc('\n', out);
  }
  std::fclose(out);
  return 0;
}
