// vd_dispatch: exercises overload resolution and boxed_cast of the real engine over a catalogue of signatures x
// argument kinds x registration orders and RECORDS what happened (C06).  The rows are validated by TLC against
// Dispatch.tla (transcription of dispatch + the property-level laws).
//
//   vd_dispatch <rows.ndjson> <facts.json>
//
// row kinds:  u  unary overload sets (every ordered pair of the catalogue + singletons) x every argument kind
//             b  binary overload sets x every argument pair
//             c  C++-receives direction: boxed_cast<T>(value) for every (argument kind, requested form)
//             a  wrong number of arguments
//             v  vector_conversion<std::vector<int>>: script Vectors of several element kinds x conversion registered or not
//             w  map_conversion<std::map<std::string, int>>: script Maps of several value kinds x conversion registered or not
//             t  user type_conversion<From, To>: forms of a To parameter x arguments x conversion registered or not
#include "vh_common.hpp"

using namespace vh;

namespace {
  struct Base {
    virtual ~Base() = default;
    int b = 1;
  };
  struct Derived : Base {
    int d = 2;
  };
  /// a class that takes part in no conversion at all, with a data member exposed through fun(&Plain::value)
  struct Plain {
    int value = 77;
    int pad[6] = {0, 0, 0, 0, 0, 0};
  };

  /// user conversion (type_conversion<From, To>): a To parameter is reached from a From only where the conversion is registered
  struct From {
    int v = 41;
  };
  struct To {
    int v = 7;
  };

  int g_entered = -1;
  int g_count = 0;
  std::string g_recv;
  void enter(int k, const std::string &recv) {
    g_entered = k;
    ++g_count;
    g_recv = recv;
  }
  std::string dyn(const Base &b) { return dynamic_cast<const Derived *>(&b) ? "Derived" : "Base"; }
  std::string num(double d) {
    char buf[32];
    std::snprintf(buf, sizeof buf, "%g", d);
    return buf;
  }
  std::string bvdesc(const Boxed_Value &bv) {
    if (bv.is_undef()) { return "undef"; }
    return std::string(bv.get_type_info().bare_equal(user_type<Derived>()) ? "Derived"
                       : bv.get_type_info().bare_equal(user_type<Base>())  ? "Base"
                       : bv.get_type_info().is_arithmetic()                ? "arith"
                       : bv.get_type_info().bare_equal(user_type<std::string>()) ? "string"
                       : bv.get_type_info().bare_equal(user_type<bool>()) ? "bool" : "other");
  }

  std::vector<std::pair<std::string, Proxy_Function>> unary_catalogue() {
    return {
        {"int", fun([](int x) { enter(0, "int:" + num(x)); })},
        {"double", fun([](double x) { enter(1, "double:" + num(x)); })},
        {"cstring&", fun([](const std::string &s) { enter(2, "string:" + s); })},
        {"BV", fun([](const Boxed_Value &v) { enter(3, "BV:" + bvdesc(v)); })},
        {"BN", fun([](const Boxed_Number &n) { enter(4, "BN:" + num(n.get_as<double>())); })},
        {"Base&", fun([](Base &b) { enter(5, "obj:" + dyn(b)); })},
        {"cBase&", fun([](const Base &b) { enter(6, "obj:" + dyn(b)); })},
        {"Derived&", fun([](Derived &d) { enter(7, "obj:" + dyn(d) + (typeid(d) == typeid(Derived) ? "" : ":MISTYPED")); })},
        {"int&", fun([](int &x) { enter(8, "int:" + num(x)); })},
        {"cint&", fun([](const int &x) { enter(9, "int:" + num(x)); })},
        {"spBase", fun([](std::shared_ptr<Base> b) { enter(10, "obj:" + dyn(*b)); })},
        {"bool", fun([](bool x) { enter(11, std::string("bool:") + (x ? "1" : "0")); })},
        {"long", fun([](long x) { enter(12, "long:" + num(static_cast<double>(x))); })},
        {"Base*", fun([](Base *b) { enter(13, "obj:" + dyn(*b)); })},
        {"cDerived&", fun([](const Derived &d) { enter(14, "obj:" + dyn(d) + (typeid(d) == typeid(Derived) ? "" : ":MISTYPED")); })},
        {"cDerived*", fun([](const Derived *d) { enter(15, "obj:" + dyn(*d) + (typeid(*d) == typeid(Derived) ? "" : ":MISTYPED")); })},
        {"spcDerived", fun([](std::shared_ptr<const Derived> d) { enter(16, "obj:" + dyn(*d) + (typeid(*d) == typeid(Derived) ? "" : ":MISTYPED")); })},
        {"Derived", fun([](Derived d) { enter(17, "obj:" + dyn(d)); })},
    };
  }

  std::vector<std::pair<std::string, Proxy_Function>> binary_catalogue() {
    return {
        {"int,int", fun([](int a, int b) { enter(0, num(a) + "," + num(b)); })},
        {"double,double", fun([](double a, double b) { enter(1, num(a) + "," + num(b)); })},
        {"int,double", fun([](int a, double b) { enter(2, num(a) + "," + num(b)); })},
        {"cstring&,int", fun([](const std::string &, int b) { enter(3, "s," + num(b)); })},
        {"BV,BV", fun([](const Boxed_Value &, const Boxed_Value &) { enter(4, ""); })},
        {"BN,BN", fun([](const Boxed_Number &, const Boxed_Number &) { enter(5, ""); })},
        {"Base&,int", fun([](Base &, int b) { enter(6, "o," + num(b)); })},
        {"cBase&,int", fun([](const Base &, int b) { enter(7, "o," + num(b)); })},
        {"int&,int", fun([](int &a, int b) { enter(8, num(a) + "," + num(b)); })},
        {"BV,int", fun([](const Boxed_Value &, int b) { enter(9, "v," + num(b)); })},
        {"int,BV", fun([](int a, const Boxed_Value &) { enter(10, num(a) + ",v"); })},
        {"Derived&,double", fun([](Derived &, double b) { enter(11, "o," + num(b)); })},
    };
  }

  struct Fixture {
    std::unique_ptr<ChaiScript_Basic> chai;
    Derived refd;
    Base refb;
    std::shared_ptr<Derived> sp = std::make_shared<Derived>();
    explicit Fixture() : chai(make_engine(true)) {
      auto &c = *chai;
      c.add(user_type<Base>(), "Base");
      c.add(user_type<Derived>(), "Derived");
      c.add(base_class<Base, Derived>());
      const Derived cderived{};
      const Base cbase{};
      c.add(var(1), "iv");
      c.add(var(2.5), "dv");
      c.add(var(std::string("x")), "sv");
      c.add(var(true), "bv");
      c.add(var(Derived()), "dobj");
      c.add(var(Base()), "bobj");
      c.add(const_var(cderived), "cdobj");
      c.add(var(7L), "lv");
      c.add(var('c'), "cv");
      c.add(Boxed_Value(), "un");
      c.add(var(std::ref(refd)), "dref");
      c.add(var(sp), "spd");
      c.add(const_var(cbase), "cbobj");                                                             // const Base, really a Base
      c.add(Boxed_Value(std::shared_ptr<const Base>(std::make_shared<Derived>())), "cbasd");        // const Base, really a Derived
      c.add(Boxed_Value(std::shared_ptr<Base>(std::make_shared<Derived>())), "basd");              // Base, really a Derived
      c.add(Boxed_Value(std::cref(refb)), "cbref");                                                 // const Base by reference
      c.add(user_type<Plain>(), "Plain");
      c.add(fun(&Plain::value), "value");
      c.add(fun(&Base::b), "bmember");
      c.add(var(Plain()), "pobj");
      c.add(const_var(Plain()), "cpobj");
      c.eval("var fobj = fun() { 1 }");
    }
  };

  const std::vector<std::pair<std::string, std::string>> k_args = {
      {"ivar", "iv"}, {"ilit", "5"}, {"dvar", "dv"}, {"svar", "sv"}, {"bvar", "bv"}, {"Dobj", "dobj"}, {"Bobj", "bobj"}, {"cDobj", "cdobj"},
      {"lvar", "lv"}, {"cvar", "cv"}, {"undef", "un"}, {"slit", "\"s\""}, {"Dref", "dref"}, {"spD", "spd"},
      {"cBobj", "cbobj"}, {"cBasD", "cbasd"}, {"BasD", "basd"}, {"cBref", "cbref"}};

  void call(ChaiScript_Basic &chai, const std::string &src, std::string &oc) {
    g_entered = -1;
    g_count = 0;
    g_recv.clear();
    oc = "ok";
    try {
      chai.eval(src);
    } catch (const exception::eval_error &) {
      oc = "ee";
    } catch (const std::exception &) {
      oc = "ex";
    } catch (...) {
      oc = "other";
    }
  }

  template<typename T>
  std::string cast_row(ChaiScript_Basic &chai, const std::string &form, const std::pair<std::string, std::string> &a, const std::function<std::string(T)> &describe) {
    std::string oc = "ok", got;
    try {
      Boxed_Value v = chai.eval(a.second);
      got = describe(chai.boxed_cast<T>(v));
    } catch (const exception::bad_boxed_cast &) {
      oc = "bad_cast";
    } catch (const std::exception &) {
      oc = "ex";
    }
    return "{\"k\":\"c\",\"form\":" + jstr(form) + ",\"arg\":" + jstr(a.first) + ",\"oc\":" + jstr(oc) + ",\"got\":" + jstr(got) + "}\n";
  }
} // namespace

int main(int argc, char **argv) {
  if (argc < 3) { return 2; }
  FILE *rows = std::fopen(argv[1], "w");
  FILE *facts = std::fopen(argv[2], "w");
  if (!rows || !facts) { return 2; }
  // platform facts the specification needs: Type_Info ordering (type_info::before is implementation defined)
  {
    std::vector<std::pair<std::string, Type_Info>> tis = {{"int", user_type<int>()}, {"double", user_type<double>()}, {"string", user_type<std::string>()},
        {"BV", user_type<Boxed_Value>()}, {"BN", user_type<Boxed_Number>()}, {"Base", user_type<Base>()}, {"Derived", user_type<Derived>()},
        {"bool", user_type<bool>()}, {"long", user_type<long>()}, {"spBase", user_type<std::shared_ptr<Base>>()}, {"pBase", user_type<Base *>()},
        {"char", user_type<char>()}, {"pcDerived", user_type<const Derived *>()}, {"spcDerived", user_type<std::shared_ptr<const Derived>>()}};
    std::fprintf(facts, "{\"before\":{");
    bool first = true;
    for (auto &a : tis) {
      for (auto &b : tis) {
        if (a.first == b.first) { continue; }
        std::fprintf(facts, "%s\"%s<%s\":%d", first ? "" : ",", a.first.c_str(), b.first.c_str(), (a.second < b.second) ? 1 : 0);
        first = false;
      }
    }
    std::fprintf(facts, "}}\n");
    std::fclose(facts);
  }
  const auto ucat = unary_catalogue();
  for (size_t i = 0; i < ucat.size(); ++i) {
    for (size_t j = 0; j <= ucat.size(); ++j) {
      if (j == i) { continue; }
      Fixture fx;
      fx.chai->add(ucat[i].second, "ov");
      if (j < ucat.size()) { fx.chai->add(ucat[j].second, "ov"); }
      for (const auto &a : k_args) {
        std::string oc;
        call(*fx.chai, "ov(" + a.second + ")", oc);
        std::fprintf(rows, "{\"k\":\"u\",\"first\":%s,\"second\":%s,\"arg\":%s,\"oc\":%s,\"entered\":%s,\"n\":%d,\"recv\":%s}\n", jstr(ucat[i].first).c_str(),
                     jstr(j < ucat.size() ? ucat[j].first : "").c_str(), jstr(a.first).c_str(), jstr(oc).c_str(),
                     jstr(g_entered >= 0 ? ucat[static_cast<size_t>(g_entered)].first : "").c_str(), g_count, jstr(g_recv).c_str());
      }
      // arity: no argument / two arguments never enter a unary function
      for (const char *src : {"ov()", "ov(iv, iv)"}) {
        std::string oc;
        call(*fx.chai, src, oc);
        std::fprintf(rows, "{\"k\":\"a\",\"first\":%s,\"second\":%s,\"src\":%s,\"oc\":%s,\"n\":%d}\n", jstr(ucat[i].first).c_str(),
                     jstr(j < ucat.size() ? ucat[j].first : "").c_str(), jstr(src).c_str(), jstr(oc).c_str(), g_count);
      }
    }
  }
  const auto bcat = binary_catalogue();
  const std::vector<std::pair<std::string, std::string>> bargs = {{"ivar", "iv"}, {"ilit", "5"}, {"dvar", "dv"}, {"svar", "sv"}, {"Dobj", "dobj"},
                                                                    {"cDobj", "cdobj"}, {"lvar", "lv"}, {"Bobj", "bobj"}};
  for (size_t i = 0; i < bcat.size(); ++i) {
    for (size_t j = 0; j <= bcat.size(); ++j) {
      if (j == i) { continue; }
      Fixture fx;
      fx.chai->add(bcat[i].second, "ov");
      if (j < bcat.size()) { fx.chai->add(bcat[j].second, "ov"); }
      for (const auto &a : bargs) {
        for (const auto &b : bargs) {
          std::string oc;
          call(*fx.chai, "ov(" + a.second + ", " + b.second + ")", oc);
          std::fprintf(rows, "{\"k\":\"b\",\"first\":%s,\"second\":%s,\"a1\":%s,\"a2\":%s,\"oc\":%s,\"entered\":%s,\"n\":%d}\n", jstr(bcat[i].first).c_str(),
                       jstr(j < bcat.size() ? bcat[j].first : "").c_str(), jstr(a.first).c_str(), jstr(b.first).c_str(), jstr(oc).c_str(),
                       jstr(g_entered >= 0 ? bcat[static_cast<size_t>(g_entered)].first : "").c_str(), g_count);
        }
      }
    }
  }
  // C++ receives: boxed_cast<T> of every argument kind
  {
    Fixture fx;
    auto &c = *fx.chai;
    for (const auto &a : k_args) {
      std::fputs(cast_row<int>(c, "int", a, [](int x) { return "int:" + num(x); }).c_str(), rows);
      std::fputs(cast_row<double>(c, "double", a, [](double x) { return "double:" + num(x); }).c_str(), rows);
      std::fputs(cast_row<long>(c, "long", a, [](long x) { return "long:" + num(static_cast<double>(x)); }).c_str(), rows);
      std::fputs(cast_row<bool>(c, "bool", a, [](bool x) { return std::string("bool:") + (x ? "1" : "0"); }).c_str(), rows);
      std::fputs(cast_row<const std::string &>(c, "cstring&", a, [](const std::string &s) { return "string:" + s; }).c_str(), rows);
      std::fputs(cast_row<Base &>(c, "Base&", a, [](Base &b) { return "obj:" + dyn(b); }).c_str(), rows);
      std::fputs(cast_row<const Base &>(c, "cBase&", a, [](const Base &b) { return "obj:" + dyn(b); }).c_str(), rows);
      std::fputs(cast_row<Derived &>(c, "Derived&", a, [](Derived &d) { return "obj:" + dyn(d) + (typeid(d) == typeid(Derived) ? "" : ":MISTYPED"); }).c_str(), rows);
      std::fputs(cast_row<const Derived &>(c, "cDerived&", a, [](const Derived &d) { return "obj:" + dyn(d) + (typeid(d) == typeid(Derived) ? "" : ":MISTYPED"); }).c_str(), rows);
      std::fputs(cast_row<Base *>(c, "Base*", a, [](Base *b) { return "obj:" + dyn(*b); }).c_str(), rows);
      std::fputs(cast_row<const Derived *>(c, "cDerived*", a, [](const Derived *d) { return "obj:" + dyn(*d) + (typeid(*d) == typeid(Derived) ? "" : ":MISTYPED"); }).c_str(), rows);
      std::fputs(cast_row<std::shared_ptr<Base>>(c, "spBase", a, [](std::shared_ptr<Base> b) { return "obj:" + dyn(*b); }).c_str(), rows);
      std::fputs(cast_row<std::shared_ptr<const Derived>>(c, "spcDerived", a, [](std::shared_ptr<const Derived> d) { return "obj:" + dyn(*d) + (typeid(*d) == typeid(Derived) ? "" : ":MISTYPED"); }).c_str(), rows);
    }
  }
  // data members exposed as functions: the receiver must be an object of the member's class (or convert to it), whatever the route
  {
    const std::vector<std::pair<std::string, std::string>> margs = {{"Pobj", "pobj"}, {"cPobj", "cpobj"}, {"ivar", "iv"}, {"ilit", "12345"}, {"svar", "sv"}, {"slit", "\"hello world\""},
        {"dvar", "dv"}, {"Dobj", "dobj"}, {"Bobj", "bobj"}, {"fn", "fobj"}, {"undef", "un"}, {"bvar", "bv"}};
    for (const char *member : {"value", "bmember"}) {
      for (const auto &a : margs) {
        for (const char *route : {"call", "dot", "fnvalue", "bind"}) {
          Fixture fx;
          const std::string m = member, r = route, x = a.second;
          const std::string src = r == "call" ? m + "(" + x + ")" : r == "dot" ? x + "." + m : r == "fnvalue" ? "var acc = " + m + "; acc(" + x + ")" : "bind(" + m + ", _)(" + x + ")";
          std::string oc = "ok", got;
          try {
            got = std::to_string(fx.chai->eval<int>(src));
          } catch (const exception::eval_error &) {
            oc = "ee";
          } catch (const std::exception &) {
            oc = "ex";
          }
          std::fprintf(rows, "{\"k\":\"m\",\"member\":%s,\"arg\":%s,\"route\":%s,\"oc\":%s,\"got\":%s}\n", jstr(m).c_str(), jstr(a.first).c_str(), jstr(r).c_str(), jstr(oc).c_str(), jstr(got).c_str());
        }
      }
    }
  }
  // user type conversions: every form of a To parameter (alone, beside a From overload, beside a catch-all) x arguments x conversion registered or not
  {
    const std::vector<std::pair<std::string, Proxy_Function>> tcat = {
        {"To", fun([](To t) { enter(0, "To:" + num(t.v)); })},
        {"cTo&", fun([](const To &t) { enter(1, "To:" + num(t.v)); })},
        {"To&", fun([](To &t) { enter(2, "To:" + num(t.v)); })},
        {"To*", fun([](To *t) { enter(3, "To:" + num(t->v)); })},
        {"cTo*", fun([](const To *t) { enter(4, "To:" + num(t->v)); })},
        {"spTo", fun([](std::shared_ptr<To> t) { enter(5, "To:" + num(t->v)); })},
        {"spcTo", fun([](std::shared_ptr<const To> t) { enter(6, "To:" + num(t->v)); })},
        {"From", fun([](From f) { enter(7, "From:" + num(f.v)); })},
        {"BV", fun([](const Boxed_Value &v) { enter(8, "BV:" + std::string(v.get_type_info().bare_equal(user_type<From>()) ? "From" : v.get_type_info().bare_equal(user_type<To>()) ? "To" : "other")); })},
    };
    const std::vector<std::pair<std::string, std::string>> targs = {{"Fobj", "fobj2"}, {"cFobj", "cfobj"}, {"Fref", "fref"}, {"Tobj", "tobj"}, {"cTobj", "ctobj"}, {"ivar", "iv"}, {"svar", "sv"}};
    for (int conv = 0; conv <= 1; ++conv) {
      for (size_t i = 0; i < 7; ++i) {
        for (size_t j : {tcat.size(), size_t{7}, size_t{8}}) {
          for (int order = 0; order <= (j < tcat.size() ? 1 : 0); ++order) {
            Fixture fx;
            From reff;
            auto &c = *fx.chai;
            c.add(user_type<From>(), "From");
            c.add(user_type<To>(), "To");
            if (conv) { c.add(type_conversion<From, To>([](const From &f) { To t; t.v = f.v + 1; return t; })); }
            c.add(var(From()), "fobj2");
            c.add(const_var(From()), "cfobj");
            c.add(var(std::ref(reff)), "fref");
            c.add(var(To()), "tobj");
            c.add(const_var(To()), "ctobj");
            if (order == 0) { c.add(tcat[i].second, "ov"); }
            if (j < tcat.size()) { c.add(tcat[j].second, "ov"); }
            if (order == 1) { c.add(tcat[i].second, "ov"); }
            for (const auto &a : targs) {
              std::string oc;
              call(c, "ov(" + a.second + ")", oc);
              std::fprintf(rows, "{\"k\":\"t\",\"conv\":%d,\"first\":%s,\"second\":%s,\"order\":%d,\"arg\":%s,\"oc\":%s,\"entered\":%s,\"n\":%d,\"recv\":%s}\n", conv, jstr(tcat[i].first).c_str(),
                           jstr(j < tcat.size() ? tcat[j].first : "").c_str(), order, jstr(a.first).c_str(), jstr(oc).c_str(),
                           jstr(g_entered >= 0 ? tcat[static_cast<size_t>(g_entered)].first : "").c_str(), g_count, jstr(g_recv).c_str());
            }
          }
        }
      }
    }
  }
  // vector_conversion<std::vector<int>>: a script Vector reaches a std::vector<int> parameter only where the conversion is registered and
  // only when every element is an int; the function receives exactly the elements
  {
    const auto show = [](const std::vector<int> &v) {
      std::string r = "vec:";
      for (size_t i = 0; i < v.size(); ++i) { r += (i ? "," : "") + std::to_string(v[i]); }
      return r;
    };
    const std::vector<std::pair<std::string, Proxy_Function>> vcat = {
        {"vecint", fun([show](std::vector<int> v) { enter(0, show(v)); })},
        {"cvecint&", fun([show](const std::vector<int> &v) { enter(1, show(v)); })},
        {"BV", fun([](const Boxed_Value &) { enter(2, "BV"); })},
    };
    const std::vector<std::pair<std::string, std::string>> vargs = {{"ints", "[1, 2, 3]"}, {"empty", "Vector()"}, {"mixed", "[1, \"s\"]"}, {"dbls", "[1.5, 2.5]"},
        {"nested", "[[1]]"}, {"ivar", "iv"}, {"svar", "sv"}, {"longs", "[1l, 2l]"}, {"vvar", "vv"}};
    for (int conv = 0; conv <= 1; ++conv) {
      for (size_t i = 0; i < 2; ++i) {
        for (size_t j : {vcat.size(), size_t{2}}) {
          Fixture fx;
          auto &c = *fx.chai;
          if (conv) { c.add(vector_conversion<std::vector<int>>()); }
          c.eval("var vv = [4, 5]");
          c.add(vcat[i].second, "ov");
          if (j < vcat.size()) { c.add(vcat[j].second, "ov"); }
          for (const auto &a : vargs) {
            std::string oc;
            call(c, "ov(" + a.second + ")", oc);
            std::fprintf(rows, "{\"k\":\"v\",\"conv\":%d,\"first\":%s,\"second\":%s,\"arg\":%s,\"oc\":%s,\"entered\":%s,\"n\":%d,\"recv\":%s}\n", conv, jstr(vcat[i].first).c_str(),
                         jstr(j < vcat.size() ? vcat[j].first : "").c_str(), jstr(a.first).c_str(), jstr(oc).c_str(),
                         jstr(g_entered >= 0 ? vcat[static_cast<size_t>(g_entered)].first : "").c_str(), g_count, jstr(g_recv).c_str());
          }
        }
      }
    }
  }
  // map_conversion<std::map<std::string, int>>: the same for script Maps
  {
    const auto show = [](const std::map<std::string, int> &m) {
      std::string r = "map:";
      bool first = true;
      for (const auto &p : m) {
        r += (first ? "" : ",") + p.first + "=" + std::to_string(p.second);
        first = false;
      }
      return r;
    };
    const std::vector<std::pair<std::string, Proxy_Function>> wcat = {
        {"mapint", fun([show](std::map<std::string, int> m) { enter(0, show(m)); })},
        {"cmapint&", fun([show](const std::map<std::string, int> &m) { enter(1, show(m)); })},
        {"BV", fun([](const Boxed_Value &) { enter(2, "BV"); })},
    };
    const std::vector<std::pair<std::string, std::string>> wargs = {{"ints", "[\"a\": 1, \"b\": 2]"}, {"empty", "Map()"}, {"mixed", "[\"a\": 1, \"b\": \"s\"]"},
        {"dbls", "[\"a\": 1.5]"}, {"nested", "[\"a\": [1]]"}, {"ivar", "iv"}, {"svar", "sv"}, {"vec", "[1, 2]"}, {"mvar", "mv"}};
    for (int conv = 0; conv <= 1; ++conv) {
      for (size_t i = 0; i < 2; ++i) {
        for (size_t j : {wcat.size(), size_t{2}}) {
          Fixture fx;
          auto &c = *fx.chai;
          if (conv) { c.add(map_conversion<std::map<std::string, int>>()); }
          c.eval("var mv = [\"k\": 4]");
          c.add(wcat[i].second, "ov");
          if (j < wcat.size()) { c.add(wcat[j].second, "ov"); }
          for (const auto &a : wargs) {
            std::string oc;
            call(c, "ov(" + a.second + ")", oc);
            std::fprintf(rows, "{\"k\":\"w\",\"conv\":%d,\"first\":%s,\"second\":%s,\"arg\":%s,\"oc\":%s,\"entered\":%s,\"n\":%d,\"recv\":%s}\n", conv, jstr(wcat[i].first).c_str(),
                         jstr(j < wcat.size() ? wcat[j].first : "").c_str(), jstr(a.first).c_str(), jstr(oc).c_str(),
                         jstr(g_entered >= 0 ? wcat[static_cast<size_t>(g_entered)].first : "").c_str(), g_count, jstr(g_recv).c_str());
          }
        }
      }
    }
  }
  // an exception of a type the dispatch loop swallows, thrown from INSIDE an entered function
  {
    Fixture fx;
    int n = 0;
    std::string seq;
    fx.chai->add(fun([&n, &seq](const std::function<std::string()> &f) {
                   ++n;
                   seq += "F";
                   return f(); // the script callback returns an int: bad_boxed_cast from inside this function
                 }),
                 "ovx");
    fx.chai->add(fun([&n, &seq](const Boxed_Value &) {
                   ++n;
                   seq += "B";
                   return std::string("catch-all");
                 }),
                 "ovx");
    std::string oc;
    call(*fx.chai, "ovx(fun() { 5 })", oc);
    std::fprintf(rows, "{\"k\":\"x\",\"case\":\"callback-bad_boxed_cast\",\"n\":%d,\"seq\":%s,\"oc\":%s}\n", n, jstr(seq).c_str(), jstr(oc).c_str());
    n = 0;
    seq.clear();
    call(*fx.chai, "ovx(fun() { \"s\" })", oc);
    std::fprintf(rows, "{\"k\":\"x\",\"case\":\"callback-ok\",\"n\":%d,\"seq\":%s,\"oc\":%s}\n", n, jstr(seq).c_str(), jstr(oc).c_str());
  }
  std::fclose(rows);
  return 0;
}
