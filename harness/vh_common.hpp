// Shared pieces of the verification drivers: engine construction with either parser,
// canonical rendering of script values, outcome classification, the trace sink and the
// forked-child runner.
#ifndef VH_COMMON_HPP
#define VH_COMMON_HPP

#ifndef CHAISCRIPT_VERIF
#define CHAISCRIPT_VERIF 1
#endif
#include <chaiscript/chaiscript.hpp>

#include <atomic>
#include <csignal>
#include <cstdio>
#include <cstring>
#include <cxxabi.h>
#include <fstream>
#include <functional>
#include <iostream>
#include <sstream>
#include <sys/mman.h>
#include <sys/resource.h>
#include <sys/wait.h>
#include <unistd.h>

#include "vh_json.hpp"

namespace vh {
  using namespace chaiscript;

  /// identity optimizer pass: gives the parser with optimization disabled (Optimizer<> with an empty pack does not compile)
  struct NopPass {
    template<typename T>
    auto optimize(eval::AST_Node_Impl_Ptr<T> p) { return p; }
  };
  using Parser_Opt = parser::ChaiScript_Parser<eval::Noop_Tracer, optimizer::Optimizer_Default>;
  using Parser_NoOpt = parser::ChaiScript_Parser<eval::Noop_Tracer, optimizer::Optimizer<NopPass>>;

  inline std::unique_ptr<ChaiScript_Basic> make_engine(bool optimized, std::vector<std::string> usepaths = {}, std::vector<std::string> modpaths = {}) {
    if (optimized) {
      return std::make_unique<ChaiScript_Basic>(Std_Lib::library(), std::make_unique<Parser_Opt>(), std::move(modpaths), std::move(usepaths));
    }
    return std::make_unique<ChaiScript_Basic>(Std_Lib::library(), std::make_unique<Parser_NoOpt>(), std::move(modpaths), std::move(usepaths));
  }

  inline std::string demangle(const char *n) {
    int st = 0;
    char *d = abi::__cxa_demangle(n, nullptr, nullptr, &st);
    std::string r = (st == 0 && d) ? d : n;
    std::free(d);
    return r;
  }

  // ---------------------------------------------------------------- value rendering

  template<typename T>
  bool is_type(const Boxed_Value &bv) { return bv.get_type_info().bare_equal(user_type<T>()); }

  inline const char *arith_name(const Boxed_Value &bv) {
    if (is_type<bool>(bv)) return "bool";
    if (is_type<char>(bv)) return "char";
    if (is_type<signed char>(bv)) return "schar";
    if (is_type<unsigned char>(bv)) return "uchar";
    if (is_type<short>(bv)) return "short";
    if (is_type<unsigned short>(bv)) return "ushort";
    if (is_type<int>(bv)) return "int";
    if (is_type<unsigned int>(bv)) return "uint";
    if (is_type<long>(bv)) return "long";
    if (is_type<unsigned long>(bv)) return "ulong";
    if (is_type<long long>(bv)) return "llong";
    if (is_type<unsigned long long>(bv)) return "ullong";
    if (is_type<float>(bv)) return "float";
    if (is_type<double>(bv)) return "double";
    if (is_type<long double>(bv)) return "ldouble";
    if (is_type<wchar_t>(bv)) return "wchar";
    if (is_type<char16_t>(bv)) return "char16";
    if (is_type<char32_t>(bv)) return "char32";
    return nullptr;
  }

  template<typename T>
  std::string num_str(const Boxed_Value &bv) {
    const T v = *static_cast<const T *>(bv.get_const_ptr());
    if constexpr (std::is_same_v<T, bool>) {
      return v ? "true" : "false";
    } else if constexpr (std::is_floating_point_v<T>) {
      char b[64];
      std::snprintf(b, sizeof b, "%.*Lg", std::numeric_limits<T>::max_digits10, static_cast<long double>(v));
      return b;
    } else if constexpr (std::is_signed_v<T>) {
      return std::to_string(static_cast<long long>(v));
    } else {
      return std::to_string(static_cast<unsigned long long>(v));
    }
  }

  inline std::string render(const Boxed_Value &bv, const ChaiScript_Basic &chai, int depth = 0);

  inline std::string render_arith(const Boxed_Value &bv, const char *n) {
    std::string v;
    if (bv.get_const_ptr() == nullptr) { return std::string(n) + ":<null>"; }
    if (is_type<bool>(bv)) v = num_str<bool>(bv);
    else if (is_type<char>(bv)) v = num_str<char>(bv);
    else if (is_type<signed char>(bv)) v = num_str<signed char>(bv);
    else if (is_type<unsigned char>(bv)) v = num_str<unsigned char>(bv);
    else if (is_type<short>(bv)) v = num_str<short>(bv);
    else if (is_type<unsigned short>(bv)) v = num_str<unsigned short>(bv);
    else if (is_type<int>(bv)) v = num_str<int>(bv);
    else if (is_type<unsigned int>(bv)) v = num_str<unsigned int>(bv);
    else if (is_type<long>(bv)) v = num_str<long>(bv);
    else if (is_type<unsigned long>(bv)) v = num_str<unsigned long>(bv);
    else if (is_type<long long>(bv)) v = num_str<long long>(bv);
    else if (is_type<unsigned long long>(bv)) v = num_str<unsigned long long>(bv);
    else if (is_type<float>(bv)) v = num_str<float>(bv);
    else if (is_type<double>(bv)) v = num_str<double>(bv);
    else if (is_type<long double>(bv)) v = num_str<long double>(bv);
    else if (is_type<wchar_t>(bv)) v = num_str<wchar_t>(bv);
    else if (is_type<char16_t>(bv)) v = num_str<char16_t>(bv);
    else if (is_type<char32_t>(bv)) v = num_str<char32_t>(bv);
    return std::string(n) + ":" + v;
  }

  inline std::string render(const Boxed_Value &bv, const ChaiScript_Basic &chai, int depth) {
    if (depth > 6) { return "..."; }
    if (bv.is_undef()) { return "undef"; }
    if (bv.get_type_info().bare_equal(user_type<void>())) { return "void"; }
    if (const char *n = arith_name(bv)) { return render_arith(bv, n); }
    try {
      if (is_type<std::string>(bv)) { return "string:" + jstr(boxed_cast<const std::string &>(bv)); }
      if (is_type<std::vector<Boxed_Value>>(bv)) {
        std::string r = "[";
        bool first = true;
        for (const auto &e : boxed_cast<const std::vector<Boxed_Value> &>(bv)) {
          r += (first ? "" : ", ") + render(e, chai, depth + 1);
          first = false;
        }
        return r + "]";
      }
      if (is_type<std::map<std::string, Boxed_Value>>(bv)) {
        std::string r = "{";
        bool first = true;
        for (const auto &e : boxed_cast<const std::map<std::string, Boxed_Value> &>(bv)) {
          r += (first ? "" : ", ") + jstr(e.first) + ": " + render(e.second, chai, depth + 1);
          first = false;
        }
        return r + "}";
      }
      if (is_type<std::pair<Boxed_Value, Boxed_Value>>(bv)) {
        const auto &p = boxed_cast<const std::pair<Boxed_Value, Boxed_Value> &>(bv);
        return "<" + render(p.first, chai, depth + 1) + ", " + render(p.second, chai, depth + 1) + ">";
      }
      if (is_type<std::pair<const std::string, Boxed_Value>>(bv)) {
        const auto &p = boxed_cast<const std::pair<const std::string, Boxed_Value> &>(bv);
        return "<" + jstr(p.first) + ", " + render(p.second, chai, depth + 1) + ">";
      }
      if (is_type<dispatch::Dynamic_Object>(bv)) {
        const auto &o = boxed_cast<const dispatch::Dynamic_Object &>(bv);
        std::string r = "obj:" + o.get_type_name() + "{";
        bool first = true;
        for (const auto &a : o.get_attrs()) {
          r += (first ? "" : ", ") + a.first + "=" + render(a.second, chai, depth + 1);
          first = false;
        }
        return r + "}";
      }
      if (bv.get_type_info().bare_equal(user_type<dispatch::Proxy_Function_Base>())) { return "fn"; }
      if (is_type<exception::eval_error>(bv)) { return "eval_error"; }
    } catch (const std::exception &e) {
      return std::string("<render failed: ") + e.what() + ">";
    }
    return "<" + chai.get_type_name(bv.get_type_info()) + ">";
  }

  // ---------------------------------------------------------------- trace sink (mode V)

  struct Sink {
    FILE *f = nullptr;
    std::atomic<bool> on{false};
    std::atomic<long> seq{0};
    std::atomic<int> next_tid{0};
    long events = 0;
  };
  inline Sink &sink() {
    static Sink s;
    return s;
  }
  inline int my_tid() {
    thread_local int t = sink().next_tid++;
    return t;
  }
  inline void sink_write(const char *k, std::string_view n, long a, long b, long c, std::string_view m) {
    auto &s = sink();
    const long q = ++s.seq;
    // one fprintf per event: stdio locks the stream, lines are never interleaved
    std::fprintf(s.f, "{\"e\":\"%s\",\"q\":%ld,\"t\":%d,\"n\":%s,\"a\":%ld,\"b\":%ld,\"c\":%ld,\"m\":%s}\n", k, q, my_tid(), jstr(n).c_str(), a, b, c, jstr(m).c_str());
    ++s.events;
  }
  inline void sink_event(const char *k, const void *, std::string_view n, long a, long b, long c, std::string_view m) {
    if (!sink().on.load(std::memory_order_relaxed)) { return; }
    // this sink serves the scope-machine trace specification (EvalStackTrace.tla); lock and shared-table events
    // (hooks H3/H4: acq rel acc reg use? use! use=) belong to ThreadsTrace.tla and its own driver
    if ((k[0] == 'a' && k[1] == 'c') || k[0] == 'r' || k[0] == 'u') { return; }
    sink_write(k, n, a, b, c, m);
  }
  inline void sink_open(const std::string &path) {
    sink().f = std::fopen(path.c_str(), "w");
    if (!sink().f) { throw std::runtime_error("cannot open trace file " + path); }
    chaiscript::verif::hooks().event = &sink_event;
  }
  inline void sink_flush() {
    if (sink().f) { std::fflush(sink().f); }
  }

  // ---------------------------------------------------------------- outcome classification

  struct Outcome {
    std::string oc;  ///< val | ee | bv | ex | other
    std::string v;   ///< rendering of the value / thrown value
    bool is_const = false;
    std::string ex;  ///< dynamic C++ type of a std::exception
    std::string why; ///< diagnostic text (never compared)
    Boxed_Value value;
  };

  template<typename F>
  Outcome classify(const ChaiScript_Basic &chai, F &&f) {
    Outcome o;
    try {
      Boxed_Value r = f();
      o.oc = "val";
      o.v = render(r, chai);
      o.is_const = r.is_const();
      o.value = r;
    } catch (const exception::eval_error &e) {
      o.oc = "ee";
      o.why = e.reason;
      o.ex = demangle(typeid(e).name());
    } catch (const Boxed_Value &bv) {
      o.oc = "bv";
      o.v = render(bv, chai);
    } catch (const std::exception &e) {
      o.oc = "ex";
      o.ex = demangle(typeid(e).name());
      o.why = e.what();
    } catch (...) {
      o.oc = "other";
      if (auto *t = abi::__cxa_current_exception_type()) { o.ex = demangle(t->name()); }
    }
    return o;
  }

  inline std::string read_file(const std::string &p) {
    std::ifstream f(p, std::ios::binary);
    std::stringstream ss;
    ss << f.rdbuf();
    return ss.str();
  }

  inline std::vector<std::string> read_lines(const std::string &p) {
    std::ifstream f(p);
    if (!f) { throw std::runtime_error("cannot read " + p); }
    std::vector<std::string> r;
    std::string l;
    while (std::getline(f, l)) {
      if (!l.empty()) { r.push_back(l); }
    }
    return r;
  }

  // ---------------------------------------------------------------- forked child runner

  /// Runs `body` (which returns one output line) in a forked child with an alarm; a crash, abort or
  /// timeout of the child is an observation, never a harness failure.
  template<typename F>
  std::string run_forked(const std::string &id, int timeout_s, F &&body) {
    int fds[2];
    if (pipe(fds) != 0) { throw std::runtime_error("pipe"); }
    std::fflush(nullptr);
    const pid_t pid = fork();
    if (pid < 0) { throw std::runtime_error("fork"); }
    if (pid == 0) {
      close(fds[0]);
      alarm(static_cast<unsigned>(timeout_s));
      std::string line;
      try {
        line = body();
      } catch (const std::exception &e) {
        line = "{\"id\":" + jstr(id) + ",\"harness_error\":" + jstr(e.what()) + "}";
      }
      line += "\n";
      size_t off = 0;
      while (off < line.size()) {
        ssize_t w = write(fds[1], line.data() + off, line.size() - off);
        if (w <= 0) { break; }
        off += static_cast<size_t>(w);
      }
      sink_flush();
      _exit(0);
    }
    close(fds[1]);
    std::string got;
    char buf[65536];
    ssize_t r;
    while ((r = read(fds[0], buf, sizeof buf)) > 0) { got.append(buf, static_cast<size_t>(r)); }
    close(fds[0]);
    int st = 0;
    waitpid(pid, &st, 0);
    if (WIFEXITED(st) && WEXITSTATUS(st) == 0 && !got.empty()) {
      if (got.back() == '\n') { got.pop_back(); }
      return got;
    }
    std::string died;
    if (WIFSIGNALED(st)) {
      died = WTERMSIG(st) == SIGALRM ? "timeout" : "sig" + std::to_string(WTERMSIG(st));
    } else {
      died = "exit" + std::to_string(WEXITSTATUS(st));
    }
    return "{\"id\":" + jstr(id) + ",\"died\":" + jstr(died) + "}";
  }
} // namespace vh
#endif
