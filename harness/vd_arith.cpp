// vd_arith: replays the cells of Arith.tla (operator x operand kinds x boundary value classes) into the real
// engine by four routes and compares result class, value and in-place update with NATIVE C++ arithmetic on the
// same types (C05).  The specification's typing table is itself compared with decltype.
//
//   vd_arith run <cells.ndjson> <out.ndjson> [--shard k/n]
//
// Cells whose C++ result is undefined and does not trap (signed overflow, over-wide shifts, out-of-range
// float->int) are counted as excluded; the native side never executes undefined behaviour (integers are
// evaluated in __int128).  Every cell runs in a supervised worker: a SIGFPE is an observation.
#include "vh_common.hpp"

#include <cmath>
#include <limits>

using namespace vh;

namespace {
  using i128 = __int128;

  template<typename T>
  std::string cls_of() {
    if (std::is_same_v<T, bool>) { return "bool"; }
    return std::string(std::is_floating_point_v<T> ? "f" : std::is_signed_v<T> ? "i" : "u")
        + std::to_string(std::is_same_v<T, long double> ? 80 : sizeof(T) * 8);
  }

  std::string cls_of_bv(const Boxed_Value &bv) {
#define VH_T(T) if (bv.get_type_info().bare_equal(user_type<T>())) { return cls_of<T>(); }
    VH_T(bool) VH_T(char) VH_T(signed char) VH_T(unsigned char) VH_T(short) VH_T(unsigned short) VH_T(int) VH_T(unsigned int) VH_T(long)
    VH_T(unsigned long) VH_T(long long) VH_T(unsigned long long) VH_T(float) VH_T(double) VH_T(long double)
#undef VH_T
    return "?" + std::string(bv.get_type_info().bare_name());
  }

  long double ld_of(const Boxed_Value &bv) {
    if (bv.get_type_info().bare_equal(user_type<bool>())) { return boxed_cast<bool>(bv) ? 1.0L : 0.0L; }
    return Boxed_Number(bv).get_as<long double>();
  }

  template<typename T>
  T value_of(const std::string &c) {
    using L = std::numeric_limits<T>;
    if (c == "zero") return T(0);
    if (c == "one") return T(1);
    if (c == "mone") return static_cast<T>(-1);
    if (c == "two") return T(2);
    if (c == "eight") return T(8);      // shift counts: valid for every left operand (the shift happens in the promoted type)
    if (c == "sixt") return T(16);
    if (c == "tone") return T(31);
    if (c == "min") return L::lowest();
    if (c == "max") return L::max();
    if constexpr (std::is_floating_point_v<T>) {
      if (c == "nan") return L::quiet_NaN();
      if (c == "inf") return L::infinity();
      if (c == "ninf") return -L::infinity();
    }
    // (no conditional operator here: its common type would be double and round 64-bit values)
    if constexpr (std::is_floating_point_v<T>) {
      if (c == "minp1") return std::nextafter(L::lowest(), T(0));
      if (c == "maxm1") return std::nextafter(L::max(), T(0));
    } else {
      if (c == "minp1") return static_cast<T>(L::lowest() + 1);
      if (c == "maxm1") return static_cast<T>(L::max() - 1);
    }
    if constexpr (std::is_floating_point_v<T>) { return T(1024.5); }
    else { return static_cast<T>(T(1) << (sizeof(T) * 4)); }
  }

  struct Native {
    bool invalid = false, trap = false, excluded = false;
    std::string cls;
    long double v = 0;       ///< result value
    long double after = 0;   ///< left operand afterwards (in-place operators)
  };

  template<typename C>
  bool fits(i128 r) {
    return r >= static_cast<i128>(std::numeric_limits<C>::lowest()) && r <= static_cast<i128>(std::numeric_limits<C>::max());
  }

  /// a (op) b carried out in type C exactly as C++ does, without executing undefined behaviour
  template<typename C, typename L, typename R>
  void arith(const std::string &op, L a, R b, Native &n, C &out) {
    if constexpr (std::is_floating_point_v<C>) {
      const C x = static_cast<C>(a), y = static_cast<C>(b);
      if (op == "+") out = x + y;
      else if (op == "-") out = x - y;
      else if (op == "*") out = x * y;
      else if (op == "/") out = x / y;
      else n.invalid = true;
    } else {
      const C xc = static_cast<C>(a), yc = static_cast<C>(b);
      const i128 x = xc, y = yc;
      i128 r = 0;
      if (op == "+") r = x + y;
      else if (op == "-") r = x - y;
      else if (op == "*") r = x * y;
      else if (op == "/" || op == "%") {
        if (y == 0) { n.trap = true; return; }
        r = op == "/" ? x / y : x % y;
        if (std::is_signed_v<C> && sizeof(C) >= 4 && xc == std::numeric_limits<C>::lowest() && y == -1) { n.trap = true; return; }
      } else if (op == "&") r = static_cast<i128>(static_cast<C>(xc & yc));
      else if (op == "|") r = static_cast<i128>(static_cast<C>(xc | yc));
      else if (op == "^") r = static_cast<i128>(static_cast<C>(xc ^ yc));
      if constexpr (std::is_signed_v<C>) {
        if (!fits<C>(r)) { n.excluded = true; return; }  // signed overflow: undefined, does not trap
        out = static_cast<C>(r);
      } else {
        out = static_cast<C>(static_cast<unsigned __int128>(r));
      }
    }
  }

  template<typename P, typename R>
  void shift(const std::string &op, P a, R b, Native &n, P &out) {
    if constexpr (std::is_floating_point_v<P> || std::is_floating_point_v<R>) {
      n.invalid = true;
    } else {
      const i128 y = b;
      if (y < 0 || y >= static_cast<i128>(sizeof(P) * 8)) { n.excluded = true; return; }
      if (op == "<<") {
        if constexpr (std::is_signed_v<P>) {
          if (a < 0) { n.excluded = true; return; }
          const i128 r = static_cast<i128>(a) << y;
          if (!fits<P>(r)) { n.excluded = true; return; }
          out = static_cast<P>(r);
        } else {
          out = static_cast<P>(a << y);
        }
      } else {
        out = static_cast<P>(a >> y);
      }
    }
  }

  /// conversion of a working-type value back to the left operand's type (compound assignment)
  template<typename L, typename C>
  bool convert_back(C c, L &out) {
    if constexpr (std::is_floating_point_v<C> && !std::is_floating_point_v<L>) {
      if (!(c > static_cast<C>(std::numeric_limits<L>::lowest()) - C(1) && c < static_cast<C>(std::numeric_limits<L>::max()) + C(1))) { return false; }
    }
    out = static_cast<L>(c);
    return true;
  }

  template<typename L, typename R>
  Native native(const std::string &op, L a, R b) {
    Native n;
    using PL = decltype(+a);
    constexpr bool anyf = std::is_floating_point_v<L> || std::is_floating_point_v<R>;
    if (op == "==" || op == "!=" || op == "<" || op == ">" || op == "<=" || op == ">=") {
      n.cls = "bool";
      bool r = op == "==" ? a == b : op == "!=" ? a != b : op == "<" ? a < b : op == ">" ? a > b : op == "<=" ? a <= b : a >= b;
      n.v = r;
      return n;
    }
    if (op == "neg" || op == "pos" || op == "not") {
      n.cls = cls_of<PL>();
      if (op == "not") {
        if constexpr (std::is_floating_point_v<L>) { n.invalid = true; } else { n.v = static_cast<long double>(static_cast<PL>(~static_cast<PL>(a))); }
      } else if (op == "pos") {
        n.v = static_cast<long double>(static_cast<PL>(a));
      } else {
        if constexpr (std::is_floating_point_v<L>) { n.v = static_cast<long double>(-a); }
        else {
          PL o{};
          arith<PL>("-", PL(0), static_cast<PL>(a), n, o);
          n.v = static_cast<long double>(o);
        }
      }
      return n;
    }
    if (op == "inc" || op == "dec") {
      n.cls = cls_of<L>();
      if constexpr (std::is_floating_point_v<L>) {
        n.v = n.after = static_cast<long double>(op == "inc" ? a + 1 : a - 1);
      } else {
        using C = decltype(a + 1);
        C o{};
        arith<C>(op == "inc" ? "+" : "-", a, 1, n, o);
        n.v = n.after = static_cast<long double>(static_cast<L>(o));
      }
      return n;
    }
    const bool compound = op.size() >= 2 && op.back() == '=' ;
    const std::string base = compound ? op.substr(0, op.size() - 1) : op;
    if (base == "<<" || base == ">>") {
      n.cls = compound ? cls_of<L>() : cls_of<PL>();
      PL o{};
      shift<PL>(base, static_cast<PL>(a), b, n, o);
      if (n.invalid) { n.cls = "invalid"; }
      L back{};
      convert_back<L>(o, back);
      n.v = compound ? static_cast<long double>(back) : static_cast<long double>(o);
      n.after = static_cast<long double>(back);
      return n;
    }
    if ((base == "%" || base == "&" || base == "|" || base == "^") && anyf) {
      n.invalid = true;
      n.cls = "invalid";
      return n;
    }
    using C = decltype(a + b);
    n.cls = compound ? cls_of<L>() : cls_of<C>();
    C o{};
    arith<C>(base, a, b, n, o);
    if (n.trap || n.excluded || n.invalid) { return n; }
    if (compound) {
      L back{};
      if (!convert_back<L>(o, back)) { n.excluded = true; return n; }
      n.v = n.after = static_cast<long double>(back);
    } else {
      n.v = static_cast<long double>(o);
    }
    return n;
  }

  std::string script_op(const std::string &op) {
    if (op == "neg") return "-";
    if (op == "pos") return "+";
    if (op == "not") return "~";
    if (op == "inc") return "++";
    if (op == "dec") return "--";
    return op;
  }

  template<typename T>
  std::string literal(T v) {
    // only for types and values that have a literal spelling
    if constexpr (std::is_same_v<T, float> || std::is_same_v<T, double> || std::is_same_v<T, long double>) {
      char b[64];
      std::snprintf(b, sizeof b, "%.1Lf", static_cast<long double>(v));
      return std::string(b) + (std::is_same_v<T, float> ? "f" : std::is_same_v<T, long double> ? "l" : "");
    } else if constexpr (std::is_same_v<T, int>) { return std::to_string(v); }
    else if constexpr (std::is_same_v<T, unsigned int>) { return std::to_string(v) + "u"; }
    else if constexpr (std::is_same_v<T, long>) { return std::to_string(v) + "l"; }
    else if constexpr (std::is_same_v<T, unsigned long>) { return std::to_string(v) + "ul"; }
    else { return ""; }
  }
  template<typename T>
  bool literal_ok(T v) {
    if constexpr (std::is_floating_point_v<T>) { return v >= 0 && v < T(1e6) && std::isfinite(v); }
    else if constexpr (std::is_same_v<T, int> || std::is_same_v<T, unsigned int> || std::is_same_v<T, long> || std::is_same_v<T, unsigned long>) { return v >= 0; }
    else { return false; }
  }

  struct Stats {
    long cells = 0, evals = 0, excluded = 0, traps = 0, invalid = 0, spec_table_mismatch = 0, nbad = 0;
    std::string spec_bad;
  };
  FILE *g_out = nullptr;
  void emit_bad(const std::string &rec) {
    std::fprintf(g_out, "{\"bad\":%s}\n", rec.c_str());
    std::fflush(g_out);
  }
  void emit_stats(const Stats &st) {
    std::fprintf(g_out, "{\"stats\":{\"cells\":%ld,\"evals\":%ld,\"excluded\":%ld,\"traps\":%ld,\"invalid\":%ld,\"spec_table_mismatch\":%ld,\"spec_bad\":%s}}\n",
                 st.cells, st.evals, st.excluded, st.traps, st.invalid, st.spec_table_mismatch, jstr(st.spec_bad).c_str());
    std::fflush(g_out);
  }

  bool same(long double a, long double b) { return a == b || (std::isnan(a) && std::isnan(b)); }

  template<typename L, typename R>
  void run_cell(ChaiScript_Basic &chai, const J &c, Stats &st) {
    const std::string op = c.str("op");
    const L a = value_of<L>(c.str("lv"));
    const R b = value_of<R>(c.str("rv"));
    const bool unary = op == "neg" || op == "pos" || op == "not" || op == "inc" || op == "dec";
    Native n = native<L, R>(op, a, b);
    ++st.cells;
    // the specification's table against the compiler
    const std::string spec_cls = c.str("cls");
    const std::string native_cls = n.invalid ? "invalid" : n.cls;
    if (spec_cls != native_cls) {
      ++st.spec_table_mismatch;
      if (st.spec_bad.empty()) { st.spec_bad = op + " " + c.str("lt") + " " + c.str("rt") + ": spec " + spec_cls + " compiler " + native_cls; }
      return;
    }
    const bool spec_trap = c.num("trap", 0) != 0;
    if (!n.excluded && !n.invalid && spec_trap != n.trap) {
      ++st.spec_table_mismatch;
      if (st.spec_bad.empty()) { st.spec_bad = "trap " + op + " " + c.str("lt") + " " + c.str("rt") + " " + c.str("lv") + " " + c.str("rv"); }
      return;
    }
    if (n.excluded) { ++st.excluded; return; }
    if (n.trap) { ++st.traps; }
    if (n.invalid) { ++st.invalid; }
    const std::string sop = script_op(op);
    std::vector<std::pair<std::string, std::string>> routes; // (route name, expression)
    if (unary) {
      routes.emplace_back("node", sop + "a");
      routes.emplace_back("call", "`" + sop + "`(a)");
    } else {
      routes.emplace_back("node", "a " + sop + " b");
      routes.emplace_back("call", "`" + sop + "`(a, b)");
      const bool inplace = c.num("inplace", 0) != 0;
      if (literal_ok(b) && !literal(b).empty()) { routes.emplace_back("foldright", "a " + sop + " " + literal(b)); }
      if (!inplace && literal_ok(a) && literal_ok(b) && !literal(a).empty() && !literal(b).empty()) {
        routes.emplace_back("constfold", literal(a) + " " + sop + " " + literal(b));
      }
    }
    const bool inplace = c.num("inplace", 0) != 0;
    for (const auto &[route, expr] : routes) {
      chai.set_locals({{"a", var(a)}, {"b", var(b)}});
      ++st.evals;
      std::string what;
      try {
        Boxed_Value r = chai.eval(expr);
        if (n.trap || n.invalid) {
          what = n.trap ? "trapping operation returned " + render(r, chai) + " instead of raising" : "operation C++ rejects returned " + render(r, chai);
        } else {
          const std::string got_cls = cls_of_bv(r);
          if (got_cls != n.cls) {
            what = "result class " + got_cls + ", C++ gives " + n.cls;
          } else if (!same(ld_of(r), n.v)) {
            what = "value " + render(r, chai) + ", C++ gives " + std::to_string(static_cast<double>(n.v));
          } else if (inplace) {
            Boxed_Value av = chai.eval("a");
            if (cls_of_bv(av) != cls_of<L>() || !same(ld_of(av), n.after)) {
              what = "left operand afterwards " + render(av, chai) + ", C++ gives " + cls_of<L>() + " " + std::to_string(static_cast<double>(n.after));
            }
          }
        }
      } catch (const exception::arithmetic_error &) {
        if (!n.trap) { what = "raised arithmetic_error, C++ computes a value"; }
      } catch (const exception::eval_error &e) {
        if (!n.trap && !n.invalid) { what = "raised eval_error (" + e.reason + "), C++ computes a value"; }
      } catch (const std::exception &e) {
        if (!n.trap && !n.invalid) { what = std::string("raised ") + e.what(); }
      }
      if (!what.empty() && st.nbad++ < 2000) {
        emit_bad("{\"op\":" + jstr(op) + ",\"lt\":" + jstr(c.str("lt")) + ",\"rt\":" + jstr(c.str("rt")) + ",\"lv\":" + jstr(c.str("lv"))
                         + ",\"rv\":" + jstr(c.str("rv")) + ",\"route\":" + jstr(route) + ",\"expr\":" + jstr(expr) + ",\"what\":" + jstr(what) + "}");
      }
    }
  }

  template<typename L>
  void by_right(ChaiScript_Basic &chai, const J &c, Stats &st) {
    const std::string rt = c.str("rt");
#define VH_R(name, T) if (rt == name) { run_cell<L, T>(chai, c, st); return; }
    VH_R("i8", std::int8_t) VH_R("u8", std::uint8_t) VH_R("i16", std::int16_t) VH_R("u16", std::uint16_t) VH_R("i32", std::int32_t)
    VH_R("u32", std::uint32_t) VH_R("i64", std::int64_t) VH_R("u64", std::uint64_t) VH_R("f32", float) VH_R("f64", double)
    VH_R("f80", long double) VH_R("char", char)
#undef VH_R
    throw std::runtime_error("unknown type " + rt);
  }

  void by_left(ChaiScript_Basic &chai, const J &c, Stats &st) {
    const std::string lt = c.str("lt");
#define VH_L(name, T) if (lt == name) { by_right<T>(chai, c, st); return; }
    VH_L("i8", std::int8_t) VH_L("u8", std::uint8_t) VH_L("i16", std::int16_t) VH_L("u16", std::uint16_t) VH_L("i32", std::int32_t)
    VH_L("u32", std::uint32_t) VH_L("i64", std::int64_t) VH_L("u64", std::uint64_t) VH_L("f32", float) VH_L("f64", double)
    VH_L("f80", long double) VH_L("char", char)
#undef VH_L
    throw std::runtime_error("unknown type " + lt);
  }
} // namespace

int main(int argc, char **argv) {
  if (argc < 4 || std::string(argv[1]) != "run") { return 2; }
  int shard_k = 0, shard_n = 1;
  for (int i = 4; i + 1 < argc; ++i) {
    if (std::string(argv[i]) == "--shard") { std::sscanf(argv[i + 1], "%d/%d", &shard_k, &shard_n); }
  }
  std::vector<std::string> lines;
  {
    std::ifstream in(argv[2]);
    std::string line;
    long idx = 0;
    while (std::getline(in, line)) {
      if (!line.empty() && (idx++ % shard_n) == shard_k) { lines.push_back(line); }
    }
  }
  FILE *out = std::fopen(argv[3], "w");
  if (!out) { return 2; }
  g_out = out;
  // supervised worker: a cell that kills the process (SIGFPE) is recorded and the next worker continues after it
  long *cur = static_cast<long *>(mmap(nullptr, sizeof(long), PROT_READ | PROT_WRITE, MAP_SHARED | MAP_ANONYMOUS, -1, 0));
  *cur = 0;
  long start = 0;
  while (start < static_cast<long>(lines.size())) {
    std::fflush(nullptr);
    const pid_t pid = fork();
    if (pid == 0) {
      auto chai = make_engine(true);
      Stats st;
      for (long i = start; i < static_cast<long>(lines.size()); ++i) {
        *cur = i;
        alarm(20);
        by_left(*chai, parse_json(lines[static_cast<size_t>(i)]), st);
        if (st.cells % 1000 == 0) { emit_stats(st); }
      }
      alarm(0);
      *cur = static_cast<long>(lines.size());
      emit_stats(st);
      std::fflush(out);
      _exit(0);
    }
    int status = 0;
    waitpid(pid, &status, 0);
    if (*cur >= static_cast<long>(lines.size())) { break; }
    const std::string died = WIFSIGNALED(status) ? (WTERMSIG(status) == SIGALRM ? "timeout" : "sig" + std::to_string(WTERMSIG(status))) : "exit";
    std::fseek(out, 0, SEEK_END);
    std::fprintf(out, "{\"died\":%s,\"cell\":%s}\n", jstr(died).c_str(), lines[static_cast<size_t>(*cur)].c_str());
    std::fflush(out);
    start = *cur + 1;
  }
  std::fclose(out);
  return 0;
}
